"""C05 - attributes are total maps with defaults; sparse and dense storage agree (history-driven)."""
import collections
import numpy as np
from hypothesis import strategies as st
from vlib.runner import SubCheck

PROPERTY = "C05"
RULE = ("Generated operation histories over one DataContainer (or CornerDataContainer): create an attribute simultaneously in "
        "sparse and dense form (5 value types, arity 1-4 and sometimes 6 / 9, implicit or custom default), set (python / numpy scalars of every "
        "type, vectors of right / wrong length, homogeneous or mixed component types), get, out-of-range get/set on dense, "
        "in-place update of a value obtained by reading, append / += list / += tuple / += set / += container (with or without its own "
        "attributes), attribute clear, as_array, delete_attribute, container clear; falsy values against non-falsy defaults, every "
        "element written in a drawn order then exported, in-place component updates after a write in a narrower class, numpy arrays "
        "of unusual shape / dtype as values (for these only sparse/dense agreement is demanded). After every step every attribute is read "
        "at every index in both storages and compared with a dict-with-default model. "
        "CALLER SPELLINGS (round 6): create_attribute is called all-positionally in the documented order / all by keyword / in the in-repo style "
        "(name, type, size positional; dense=, default_value= by keyword) / with only the non-default arguments; the dense flag is a bool, a "
        "numpy.bool_ or 0 / 1; `size` is left out, None, len(container) or a numpy integer; the value type is the python type or one of its numpy "
        "spellings listed in Attribute.Type; element ids are python ints, numpy int64 / int32 / intp on reads, writes and out-of-bounds probes; "
        "as_array gets the size positionally (both storages, as in-repo callers do), by keyword or as a numpy integer; append by position or keyword; every "
        "other read-out and every other write goes through get_attribute(name) instead of the handle create_attribute returned; has_attribute is asked for "
        "every live name and for a name never created. COLLECTION FORMS: vector values come as list / tuple / deque / generator / iterator / dict values view "
        "(a fresh one per storage; lists and deques are emptied by the caller after the write), numpy arrays also as mouette Vec; `container +=` gets list / "
        "tuple / set (documented) and generator / deque / dict-keys view (there: either refused with nothing changed or appended, never half-done); the "
        "caller's list is changed after `+=` and after the constructor; the first elements come through append or through the constructor (positional / keyword / "
        "tuple, attributes=None spelled out). FALSY / MINIMAL: empty collections of every form, exports before anything is stored and of an empty container, custom "
        "defaults equal to the zero of the type. SAME OBJECT TWICE: as_array asked twice in a row (each answer compared at once), export - write - export, clear twice, "
        "delete_attribute of an absent name, the other container of `+=` owning an attribute named like one of ours and being appended to / written afterwards. "
        "SIZE (sub-check large_container): containers of 2**16+1 .. 2**17+38 elements grown in one or two `+=` (list / tuple / container) or built by the constructor, "
        "attributes created before the growth, writes at the last index and around 2**16 / 10**5, full export of both storages compared with the model, one more append, clear. "
        "non-trivial = the history grows the container after an attribute was created and reads a never-written entry; distinct = distinct histories.")
ASSUMPTIONS = ["strings are <= 32 characters (documented limit of the dense storage)", "|ints| <= 2**53 (exactly representable when widened to float), floats without NaN",
               "attribute names are fresh (re-creating an existing name is documented as an override and is not exercised)",
               "`container += container` is only exercised with ANOTHER container (the statement says 'another container'; `c += c` is outside the domain)",
               "nothing is assumed about an exported array the caller keeps across later operations (the dense export is documented nowhere as a copy or a view)",
               "a `size` argument, when given, is the container's current size (as its docstring says)",
               "iterables other than list / tuple / set on the right of `container +=` may be refused; element order of a set operand is not observed (only the alignment of the attributes)"]

TYPES = ["bool", "int", "float", "complex", "str"]
PYTYPE = {"bool": bool, "int": int, "float": float, "complex": complex, "str": str}
RANK = {"bool": 0, "int": 1, "float": 2}
# numpy spellings of the five value types (listed in Attribute.SUPPORTED_TYPES / Attribute.Type) usable as `data_type`
NP_DTYPES = {"bool": ["bool_"], "int": ["int32", "int64", "uint8"], "float": ["float32", "float64"], "complex": ["complex128"], "str": ["str_"]}
# forms in which a vector value can be handed over (the storages do `list(value)`: any iterable, iterated once)
SEQ_FORMS = ("list", "tuple", "deque", "gen", "iter", "dictvalues")
ONE_SHOT = ("gen", "iter")


# in-place component writes are asserted on every written numeric vector entry (finding F-C05-8 fixed); C05_INPLACE_PLAIN_ONLY=1 restores
# the earlier restriction to entries written in the attribute's own class (bisecting aid)
INPLACE_ANY_WRITTEN = __import__('os').environ.get('C05_INPLACE_PLAIN_ONLY', '0') != '1'

# ------------------------------------------------------------------ values (JSON-encodable descriptions)
# a scalar value is described as [kind, payload] with kind in
#   pybool, npbool, pyint, npint32, npuint8, npint64, npint16, pyfloat, npfloat32, npfloat64, pycomplex, npcomplex, str, none

def scalar_desc():
    ints = st.integers(-2 ** 31 + 1, 2 ** 31 - 1)
    small = st.integers(0, 255)
    flo = st.one_of(st.floats(allow_nan=False, allow_infinity=False, width=32), st.sampled_from([0.0, -0.0, 1.5, -2.25, 1e30, 1e-30]))
    return st.one_of(
        st.tuples(st.sampled_from(["pybool", "npbool"]), st.booleans()),
        st.tuples(st.sampled_from(["pyint", "npint32", "npint64"]), ints),
        st.tuples(st.just("pyint"), st.integers(-2 ** 53, 2 ** 53)),
        st.tuples(st.just("npuint8"), small),
        st.tuples(st.just("npint16"), st.integers(-100, 100)),
        st.tuples(st.sampled_from(["pyfloat", "npfloat32", "npfloat64"]), flo),
        st.tuples(st.just("pyfloat"), st.floats(allow_nan=False, allow_infinity=True)),
        st.tuples(st.sampled_from(["pycomplex", "npcomplex"]), st.tuples(flo, flo).map(list)),
        st.tuples(st.just("str"), st.text(alphabet="abcXYZ 0_é", max_size=8)),
        st.tuples(st.just("str"), st.text(alphabet="abcXYZ 0_é", min_size=9, max_size=32)),
        st.tuples(st.just("none"), st.just(0)),
        # falsy values of every class (a written 0 / False / "" must not read back as a non-falsy default)
        st.sampled_from([("pybool", False), ("npbool", False), ("pyint", 0), ("npint64", 0), ("pyfloat", 0.0), ("pyfloat", -0.0),
                         ("npfloat64", 0.0), ("pycomplex", [0.0, 0.0]), ("str", "")]),
    ).map(list)


def realise(d):
    k, p = d
    if k == "pybool": return bool(p)
    if k == "npbool": return np.bool_(p)
    if k == "pyint": return int(p)
    if k == "npint32": return np.int32(p)
    if k == "npint64": return np.int64(p)
    if k == "npuint8": return np.uint8(p)
    if k == "npint16": return np.int16(p)
    if k == "pyfloat": return float(p)
    if k == "npfloat32": return np.float32(p)
    if k == "npfloat64": return np.float64(p)
    if k == "pycomplex": return complex(p[0], p[1])
    if k == "npcomplex": return np.complex128(complex(p[0], p[1]))
    if k == "str": return str(p)
    if k == "none": return None
    raise ValueError(k)


def type_class(d):
    """the library's documented value classes; None = not a supported value type"""
    k = d[0]
    return {"pybool": "bool", "npbool": "bool", "pyint": "int", "npint32": "int", "npint64": "int", "npuint8": "int",
            "pyfloat": "float", "npfloat32": "float", "npfloat64": "float", "pycomplex": "complex", "npcomplex": "complex", "str": "str"}.get(k)


def castable(src, dst):
    if src is None:
        return False
    if src == dst:
        return True
    return src in RANK and dst in RANK and RANK[src] < RANK[dst]


def canon(d, typ):
    v = realise(d)
    return PYTYPE[typ](v)


def typed_scalar(typ):
    """a value description acceptable for attribute type typ (incl. widening sources)"""
    return scalar_desc().filter(lambda d: castable(type_class(d), typ))


@st.composite
def value_desc(draw, typ, arity):
    """[form, payload]: form in scalar / list / tuple / nparray-less ; mostly acceptable values, sometimes not"""
    mode = draw(st.sampled_from(["good", "good", "good", "any", "wronglen", "mixed"]))
    if arity == 1:
        if mode in ("good", "wronglen", "mixed"):
            if mode == "wronglen" and draw(st.booleans()):
                return ["list", [draw(typed_scalar(typ))]]
            return ["scalar", draw(typed_scalar(typ))]
        return ["scalar", draw(scalar_desc())]
    form = draw(st.sampled_from(["list", "list", "list", "tuple", "tuple", "tuple", "deque", "gen", "gen", "iter", "dictvalues"]))
    if mode == "good":
        if typ in ("int", "float") and draw(st.integers(0, 3)) == 0:
            # a vector equal to the implicit default, given in the attribute's own class
            z = ["pyint", 0] if typ == "int" else ["pyfloat", 0.0]
            return [form, [list(z) for _ in range(arity)]]
        return [form, [draw(typed_scalar(typ)) for _ in range(arity)]]
    if mode == "wronglen":
        n = draw(st.sampled_from([0, 1, arity - 1, arity + 1]))
        if n == arity:
            n = arity + 1
        if draw(st.integers(0, 4)) == 0:
            return ["scalar", draw(typed_scalar(typ))]
        return [form, [draw(typed_scalar(typ)) for _ in range(n)]]
    if mode == "mixed":
        # first component acceptable, a later one possibly not
        comps = [draw(typed_scalar(typ))] + [draw(scalar_desc()) for _ in range(arity - 1)]
        return [form, comps]
    return [form, [draw(scalar_desc()) for _ in range(arity)]]


def realise_value(vd):
    """a FRESH object per call (generators / iterators are one-shot: never hand the same one to two storages)"""
    form, p = vd
    if form == "scalar":
        return realise(p)
    vals = [realise(x) for x in p]
    if form == "list": return vals
    if form == "tuple": return tuple(vals)
    if form == "deque": return collections.deque(vals)
    if form == "gen": return (x for x in vals)
    if form == "iter": return iter(vals)
    if form == "dictvalues": return dict(enumerate(vals)).values()
    raise ValueError(form)


def show_value(vd):
    form, p = vd
    if form == "scalar":
        return repr(realise(p))
    return f"{form}({[realise(x) for x in p]!r})"


def model_accepts(vd, typ, arity):
    form, p = vd
    if arity == 1:
        return form == "scalar" and castable(type_class(p), typ)
    if form == "scalar":
        # a string scalar is iterable, but only of 1-char strings; anything of wrong length is rejected
        v = realise(p)
        if isinstance(v, str) and typ == "str" and len(v) == arity:
            return True
        return False
    return len(p) == arity and all(castable(type_class(c), typ) for c in p)


def model_value(vd, typ, arity):
    form, p = vd
    if arity == 1:
        return canon(p, typ)
    if form == "scalar":
        return [PYTYPE[typ](ch) for ch in realise(p)]
    return [canon(c, typ) for c in p]


# ------------------------------------------------------------------ history strategy

@st.composite
def history(draw):
    container = draw(st.sampled_from(["data", "data", "corner"]))
    n0 = draw(st.integers(0, 6))
    # how the first n0 elements get in: one append each, or through the constructor (positional / keyword / tuple; the caller's list is changed afterwards)
    init = draw(st.sampled_from(["append", "append", "ctor_pos", "ctor_kw", "ctor_tuple"]))
    ops = []
    attrs = []     # (name, typ, arity)
    nattr = 0
    n = n0
    nsteps = draw(st.integers(1, 40))
    ncreate0 = draw(st.sampled_from([0, 1, 1, 2, 3]))       # most histories start by declaring attributes (else half of them never own one)
    for step_no in range(nsteps + ncreate0):
        choices = ["create", "append", "iadd_list", "iadd_list", "iadd_cont"]
        if step_no < ncreate0:
            choices = ["create"]
        if attrs:
            choices += ["set", "set", "set", "get", "set_oob", "get_oob", "inplace", "inplace_idx", "inplace_idx", "clear_attr", "as_array",
                        "delete", "set", "append", "copy_entry", "copy_entry", "set_array", "as_array", "set_twice", "set_twice",
                        "fill_all", "set_exotic", "set_exotic", "export_write_export"]
        if draw(st.integers(0, 30)) == 0:
            choices = ["clear_container"]
        op = draw(st.sampled_from(choices))
        if op == "create":
            typ = draw(st.sampled_from(TYPES))
            arity = draw(st.sampled_from([1, 1, 1, 1, 2, 2, 3, 3, 4, 4, 6, 9]))
            dflt = None
            if draw(st.integers(0, 1)) == 0:
                # custom defaults as python scalars or numpy scalars of the attribute's own class
                dflt = draw(scalar_desc().filter(lambda d: type_class(d) == typ and d[0] != "npcomplex"))
            name = f"a{nattr}"; nattr += 1
            attrs.append((name, typ, arity))
            # how the caller spells the call: all positional in the documented order / all by keyword / the in-repo style (name, type, size
            # positional, `dense=`, `default_value=` by keyword) / only the arguments that differ from their documented defaults;
            # the `dense` flag as bool / numpy.bool_ / 0-1; `size` left out, None or the container's size; the type as python or numpy type
            spell = {"call": draw(st.sampled_from(["pos", "kw", "repo", "minimal"])),
                     "flag": draw(st.sampled_from(["bool", "bool", "npbool", "npbool", "int"])),
                     "size": draw(st.sampled_from(["omit", "omit", "none", "len", "nplen"])),
                     "dtype": draw(st.sampled_from(["py", "py", "py"] + NP_DTYPES[typ]))}
            ops.append(["create", name, typ, arity, dflt, spell])
            if draw(st.integers(0, 2)) == 0:
                ops.append(["as_array", name])        # exported before anything is stored (possibly on an empty container)
        elif op == "append":
            ops.append(["append"]); n += 1
        elif op == "iadd_list":
            # list / tuple / set are the documented collection forms; for any other iterable (generator, deque, dict view) the library may
            # refuse, but must then leave the container and its attributes as they were (the model follows what the container did)
            form = draw(st.sampled_from(["list", "list", "tuple", "tuple", "set", "set", "gen", "deque", "dictkeys"]))
            k = draw(st.integers(0, 4)); ops.append(["iadd_list", k, form])
            if form in ("list", "tuple", "set"): n += k
        elif op == "iadd_cont":
            # the other container may own attributes (one of them possibly named like one of ours) and is changed by its owner afterwards
            k = draw(st.integers(0, 4)); ops.append(["iadd_cont", k, draw(st.booleans()), draw(st.integers(0, 2)) > 0, draw(st.booleans())]); n += k
        elif op == "clear_container":
            ops.append(["clear_container"]); n = 0; attrs = []
        else:
            name, typ, arity = attrs[draw(st.integers(0, len(attrs) - 1))]
            if op == "set":
                ops.append(["set", name, draw(st.integers(0, max(n - 1, 0))), draw(value_desc(typ, arity))])
            elif op == "get":
                ops.append(["get", name, draw(st.integers(0, max(n - 1, 0)))])
            elif op in ("set_oob", "get_oob"):
                i = draw(st.sampled_from([-1, n, n + 1, n + 7, -5]))
                ops.append([op, name, i, draw(value_desc(typ, arity).filter(lambda vd: model_accepts(vd, typ, arity)))])
            elif op in ("inplace", "inplace_idx"):
                pre = None
                if typ in ("int", "float") and arity > 1 and draw(st.booleans()):
                    # first write the entry (half of the time with a vector equal to the default), then update it in place
                    z = ["pyint", 0] if typ == "int" else ["pyfloat", 0.0]
                    how = draw(st.sampled_from(["default", "own", "narrow", "narrow"]))
                    if how == "default":
                        pre = ["list", [list(z) for _ in range(arity)]]
                    elif how == "own":
                        pre = ["list", [[z[0], draw(st.integers(-9, 9))] if typ == "int" else [z[0], draw(st.integers(-9, 9)) / 2] for _ in range(arity)]]
                    else:
                        # the entry is first written with values of a NARROWER class (ints / bools into a float attribute, bools into
                        # an int attribute); the in-place update then assigns a value of the attribute's own class
                        nk = draw(st.sampled_from(["pyint", "pybool", "npint64"] if typ == "float" else ["pybool", "npbool"]))
                        pre = [draw(st.sampled_from(["list", "tuple"])),
                               [[nk, draw(st.integers(-9, 9)) if "int" in nk else draw(st.booleans())] for _ in range(arity)]]
                dval = draw(st.integers(1, 5))
                if typ == "float" and draw(st.booleans()):
                    dval = dval + draw(st.sampled_from([0.5, 0.25, -0.75]))       # not representable in a narrower class
                ops.append([op, name, draw(st.integers(0, max(n - 1, 0))), draw(st.integers(0, 3)), dval,
                            draw(value_desc(typ, arity).filter(lambda vd: model_accepts(vd, typ, arity))), pre])
            elif op == "set_twice":
                # two accepted writes at the same index, the first one given in a narrower class (bool / int) than the second
                i2 = draw(st.integers(0, max(n - 1, 0)))
                if arity > 1 and typ in ("int", "float", "str", "complex"):
                    narrow = {"int": ["pybool", True], "float": ["pyint", 3], "complex": ["pycomplex", [1.0, 0.0]], "str": ["str", "a"]}[typ]
                    wide = {"int": ["pyint", 70000], "float": ["pyfloat", 0.25], "complex": ["pycomplex", [0.5, -2.5]], "str": ["str", "hello w"]}[typ]
                    ops.append(["set", name, i2, ["list", [list(narrow) for _ in range(arity)]]])
                    ops.append(["set", name, i2, ["list", [list(wide) for _ in range(arity)]]])
                else:
                    ops.append(["set", name, i2, draw(value_desc(typ, arity).filter(lambda vd: model_accepts(vd, typ, arity)))])
                    ops.append(["set", name, i2, draw(value_desc(typ, arity).filter(lambda vd: model_accepts(vd, typ, arity)))])
                ops.append(["as_array", name])
            elif op == "copy_entry":
                # a[j] = a[i] (a value obtained by reading), then the value read back from j is changed in place
                ops.append(["copy_entry", name, draw(st.integers(0, max(n - 1, 0))), draw(st.integers(0, max(n - 1, 0))), draw(st.integers(0, 3)), draw(st.integers(1, 5)),
                            draw(value_desc(typ, arity).filter(lambda vd: model_accepts(vd, typ, arity)))])
            elif op == "set_array":
                # the value is a numpy array which the caller changes after the write
                ops.append(["set_array", name, draw(st.integers(0, max(n - 1, 0))), draw(st.integers(0, 3)),
                            draw(value_desc(typ, arity).filter(lambda vd: model_accepts(vd, typ, arity) and vd[0] in ("list", "tuple")
                                                               and len(set(type_class(c) for c in vd[1])) == 1)) if arity > 1 else None])
            elif op == "fill_all":
                # every element written, in a drawn order (highest id first, index 0 last, ...), then exported
                if n > 0:
                    order = draw(st.permutations(list(range(n))))
                    for i3 in order:
                        ops.append(["set", name, i3, draw(value_desc(typ, arity).filter(lambda vd: model_accepts(vd, typ, arity)))])
                    ops.append(["as_array", name])
            elif op == "set_exotic":
                # numpy arrays of unusual shape / dtype as values: no reference rule is applied, the two storages only have to AGREE
                # (both accept and then read the same, or both reject)
                shape = draw(st.sampled_from(["(k,)", "(k,)", "(1,)", "(1,1)", "()", "(k,1)", "(1,k)", "(k+1,)", "(k-1,)"]))
                dt = draw(st.sampled_from(["own", "own", "own", "int8", "int32", "int64", "uint8", "float32", "float64", "bool", "complex128", "complex64", "U3", "U40", "object"]))
                ops.append(["set_exotic", name, draw(st.integers(0, max(n - 1, 0))), shape, dt, draw(st.integers(-3, 3)), draw(st.booleans())])
            elif op == "export_write_export":
                # export, one accepted write, export again (the second export must show the write; an export is never a snapshot that is re-served)
                ops.append(["as_array", name])
                if n > 0:
                    ops.append(["set", name, draw(st.sampled_from([0, n - 1, draw(st.integers(0, n - 1))])), draw(value_desc(typ, arity).filter(lambda vd: model_accepts(vd, typ, arity)))])
                ops.append(["as_array", name])
            elif op == "clear_attr":
                ops.append(["clear_attr", name])
                if n > 0 and draw(st.booleans()):
                    # a write right after the reset (before the container grows again)
                    ops.append(["set", name, draw(st.integers(0, n - 1)), draw(value_desc(typ, arity).filter(lambda vd: model_accepts(vd, typ, arity)))])
            elif op == "as_array":
                ops.append(["as_array", name])
            elif op == "delete":
                ops.append(["delete", name]); attrs = [a for a in attrs if a[0] != name]
    return {"container": container, "n0": n0, "init": init, "ops": ops}


# ------------------------------------------------------------------ interpretation

def lib_eq(val, mv, typ, arity):
    """does a value read from the library equal the model value?"""
    try:
        if arity == 1:
            if isinstance(val, (list, tuple)) or (isinstance(val, np.ndarray) and val.ndim > 0):
                return False
            if typ == "str":
                return str(val) == mv
            return bool(val == mv) and not isinstance(val, str)
        arr = np.asarray(val)
        if arr.shape != (arity,):
            return False
        if typ == "str":
            return [str(x) for x in arr] == list(mv)
        return all(bool(arr[k] == mv[k]) for k in range(arity))
    except Exception:
        return False


KEYFORMS = [int, np.int64, np.int32, np.intp]


class AttrModel:
    def __init__(self, typ, arity, dflt):
        self.typ, self.arity = typ, arity
        d = PYTYPE[typ]() if dflt is None else canon(dflt, typ)
        self.default = d if arity == 1 else [d] * arity
        self.data = {}

    def get(self, i):
        return self.data.get(i, self.default)


def fn(case, ctx):
    from mouette.mesh.data_container import DataContainer, CornerDataContainer
    from mouette.mesh.mesh_attributes import Attribute
    corner = case["container"] == "corner"
    ctx.label("container=" + case["container"])
    counter = [0]

    def new_elem():
        counter[0] += 1
        return (counter[0], counter[0] + 1) if corner else (counter[0], counter[0] + 1, counter[0] + 2)

    def append_one(kw=False):
        e = new_elem()
        if corner:
            cont.append(val_elem=e[0], val_adj=e[1]) if kw else cont.append(e[0], e[1])
        else:
            cont.append(val=e) if kw else cont.append(e)

    n = 0
    init = case.get("init", "append")
    ctx.label("init=" + init)
    if init == "append":
        cont = CornerDataContainer(id="c") if corner else DataContainer(id="c")
        for _ in range(case["n0"]):
            append_one(); n += 1
    else:
        elems = [new_elem() for _ in range(case["n0"])]
        if corner:
            le, la = [e[0] for e in elems], [e[1] for e in elems]
            if init == "ctor_tuple": le, la = tuple(le), tuple(la)
            ok, cont = ctx.call("container:construct", (lambda: CornerDataContainer(elem=le, adj=la, attributes=None, id="c")) if init == "ctor_kw"
                                else (lambda: CornerDataContainer(le, la, id="c")))
            caller_lists = [le, la]
        else:
            data = tuple(elems) if init == "ctor_tuple" else elems
            ok, cont = ctx.call("container:construct", (lambda: DataContainer(data=data, attributes=None, id="c")) if init == "ctor_kw"
                                else (lambda: DataContainer(data, id="c")))
            caller_lists = [data]
        if not ok: return
        n = case["n0"]
        for l in caller_lists:       # the caller goes on using its own list: the container has its elements, not the list
            if isinstance(l, list): l.append(0)
    models = {}      # name -> AttrModel
    handles = {}     # name -> (sparse, dense)
    grown_after_create = False
    read_unwritten = False

    obs_no = [0]

    def observe(where):
        nonlocal read_unwritten
        obs_no[0] += 1
        for name in models:
            for suffix in ("_s", "_d"):
                ctx.check(bool(cont.has_attribute(name + suffix)), "container:has_attribute", f"{where}: has_attribute('{name + suffix}') is false for an existing attribute")
        ctx.check(not cont.has_attribute("never_created"), "container:has_attribute", f"{where}: has_attribute is true for a name that was never created")
        ctx.check(len(cont) == n, "container:len", f"{where}: len(container) = {len(cont)}, expected {n}")
        for name, mdl in models.items():
            sp, de = handles[name]
            if obs_no[0] % 2:
                # every other read-out goes through the attribute looked up by name instead of the handle create_attribute returned
                ok1, sp = ctx.call("container:get_attribute", cont.get_attribute, name + "_s")
                ok2, de = ctx.call("container:get_attribute", cont.get_attribute, name=name + "_d")
                if not (ok1 and ok2): continue
            ctx.check(len(de) == n, "dense:len", f"{where}: dense attribute '{name}' has length {len(de)} but the container has {n} elements")
            for i in range(n):
                mv = mdl.get(i)
                if i not in mdl.data:
                    read_unwritten = True
                ki = KEYFORMS[(obs_no[0] + i) % 4](i)          # element ids come as python ints or numpy ints
                ok1, v1 = ctx.call("sparse:get", sp.__getitem__, ki)
                ok2, v2 = ctx.call("dense:get", de.__getitem__, ki)
                if ok1:
                    ctx.check(lib_eq(v1, mv, mdl.typ, mdl.arity), "sparse:value",
                              f"{where}: sparse '{name}'[{i}] = {v1!r}, expected {mv!r} ({'written' if i in mdl.data else 'never written -> default'}; type {mdl.typ} x{mdl.arity})")
                if ok2:
                    ctx.check(lib_eq(v2, mv, mdl.typ, mdl.arity), "dense:value",
                              f"{where}: dense '{name}'[{i}] = {v2!r}, expected {mv!r} ({'written' if i in mdl.data else 'never written -> default'}; type {mdl.typ} x{mdl.arity})")
        names = set(cont.attributes)
        exp = set(x + s for x in models for s in ("_s", "_d"))
        ctx.check(names == exp, "container:attributes", f"{where}: attribute names {sorted(names)} expected {sorted(exp)}")

    for step, op in enumerate(case["ops"]):
        kind = op[0]
        where = f"step {step} {op}"
        if kind == "create":
            _, name, typ, arity, dflt = op[:5]
            spell = op[5] if len(op) > 5 else {"call": "pos", "flag": "bool", "size": "omit", "dtype": "py"}
            dv = None if dflt is None else realise(dflt)
            T = PYTYPE[typ] if spell["dtype"] == "py" else getattr(np, spell["dtype"])
            res = []
            for suffix, dense in (("_s", False), ("_d", True)):
                flag = {"bool": dense, "npbool": np.bool_(dense), "int": int(dense)}[spell["flag"]]
                size = {"omit": None, "none": None, "len": n, "nplen": np.int64(n)}[spell["size"]]
                pos, kw = [], {}
                if spell["call"] == "pos":
                    pos = [name + suffix, T, arity, flag, dv] + ([size] if spell["size"] != "omit" else [])
                elif spell["call"] == "kw":
                    kw = {"name": name + suffix, "data_type": T, "elem_size": arity, "dense": flag, "default_value": dv}
                elif spell["call"] == "repo":
                    pos = [name + suffix, T, arity]; kw = {"dense": flag, "default_value": dv}
                else:
                    pos = [name + suffix, T]
                    if arity != 1: kw["elem_size"] = arity
                    if dense: kw["dense"] = flag
                    if dv is not None: kw["default_value"] = dv
                if spell["call"] != "pos" and spell["size"] != "omit":
                    kw["size"] = size
                res.append(ctx.call("create:dense" if dense else "create:sparse", cont.create_attribute, *pos, **kw))
            (ok1, sp), (ok2, de) = res
            if not (ok1 and ok2):
                return
            ctx.label("create:call=" + spell["call"], "create:dense-flag=" + spell["flag"], "create:size=" + spell["size"],
                      "create:type=" + ("python" if spell["dtype"] == "py" else "numpy"))
            models[name] = AttrModel(typ, arity, dflt)
            handles[name] = (sp, de)
            ctx.label(f"type={typ}", f"arity={min(arity, 2)}{'+' if arity > 2 else ''}{'+' if arity > 4 else ''}", "default=custom" if dflt is not None else "default=implicit")
            if dflt is not None and not canon(dflt, typ): ctx.label("default=custom-falsy")
            if dflt is not None and arity > 1:
                ctx.label("custom-default-vector")
        elif kind == "append":
            ctx.call("container:append", append_one, step % 2 == 1); n += 1
            grown_after_create = grown_after_create or bool(models)
        elif kind == "iadd_list":
            k, form = op[1], op[2]
            elems = [new_elem() for _ in range(k)]
            items = {"list": list, "tuple": tuple, "set": set, "deque": collections.deque, "gen": lambda l: (x for x in l), "dictkeys": lambda l: dict.fromkeys(l).keys()}[form](elems)
            ctx.label("iadd-form=" + form, "iadd-empty" if k == 0 else "iadd-nonempty")

            def f():
                nonlocal cont
                cont += items
            if form in ("list", "tuple", "set"):
                ok, _ = ctx.call("container:iadd_list", f); n += k
                if not ok: return
                if form == "list": items.append(0)       # the caller's list changes afterwards
            else:
                # not a documented collection form: either refused with nothing changed, or appended like a list
                try:
                    f()
                except Exception as e:
                    if type(e).__name__ in ("Violation", "HarnessError"): raise
                m = len(cont)
                if not ctx.check(m in (n, n + k), "container:iadd_iterable", f"{where}: `container += {form} of {k} elements` left the container with {m} elements (it had {n})"):
                    return
                n = m
            grown_after_create = grown_after_create or (bool(models) and k > 0)
        elif kind == "iadd_cont":
            k, with_attr = op[1], op[2]
            same_name, mutate_after = (op[3], op[4]) if len(op) > 4 else (False, False)
            other = CornerDataContainer(id="o") if corner else DataContainer(id="o")
            for _ in range(k):
                e = new_elem()
                if corner: other.append(e[0], e[1])
                else: other.append(e)
            oa = None
            if with_attr:
                oname = "foreign"
                if same_name and models:
                    oname = sorted(models)[0] + "_d"          # the other container's attribute is named like one of ours
                    ctx.label("iadd-container-with-attribute-of-same-name")
                ok, oa = ctx.call("create:dense", other.create_attribute, oname, float, 1, dense=True)
                if not ok: return
                for i in range(k):
                    oa[i] = 1.0
                ctx.label("iadd-container-with-attributes")

            def f():
                nonlocal cont
                cont += other
            ok, _ = ctx.call("container:iadd_container", f); n += k
            if not ok: return
            if mutate_after:
                # the other container lives on: its owner appends to it and writes its attributes
                ctx.label("iadd-container-changed-afterwards")
                e = new_elem()
                if corner: other.append(e[0], e[1])
                else: other.append(e)
                if oa is not None: oa[k] = 2.0
            grown_after_create = grown_after_create or (bool(models) and k > 0)
        elif kind == "clear_container":
            ctx.call("container:clear", cont.clear)
            n = 0; models.clear(); handles.clear()
        elif kind == "set":
            _, name, i, vd = op
            if name not in models or n == 0: continue
            i = i % n
            mdl = models[name]; sp, de = handles[name]
            acc = model_accepts(vd, mdl.typ, mdl.arity)
            res = []
            key_i = np.int64(i) if (step + i) % 3 == 0 else i        # element ids often come out of numpy arrays
            if key_i is not i: ctx.label("numpy-index")
            if step % 2:
                # the write goes through the attribute looked up by name, the read-out through the handle create_attribute returned (or the reverse)
                ok1, sp = ctx.call("container:get_attribute", cont.get_attribute, name + "_s")
                ok2, de = ctx.call("container:get_attribute", cont.get_attribute, name + "_d")
                if not (ok1 and ok2): return
            ctx.label("value-form=" + vd[0])
            for which, a in (("sparse", sp), ("dense", de)):
                v = realise_value(vd)
                try:
                    a[key_i] = v
                    res.append(True)
                except Exception as e:
                    res.append(False)
                    err = e
                if isinstance(v, (list, collections.deque)):
                    v.clear()          # the caller's own sequence changes after the write
            sp, de = handles[name]
            comps = vd[1] if vd[0] != "scalar" else [vd[1]]
            if mdl.arity > 1 and vd[0] != "scalar" and len(set(type_class(c) for c in comps)) > 1:
                ctx.label("mixed-component-types")
            ctx.label("write-accepted" if acc else "write-rejected")
            good = ctx.check(res[0] == res[1], "set:sparse-dense-disagree",
                             f"{where}: sparse {'accepted' if res[0] else 'rejected'} but dense {'accepted' if res[1] else 'rejected'} value {show_value(vd)} for type {mdl.typ} x{mdl.arity}")
            good = ctx.check(res[0] == acc and res[1] == acc, "set:acceptance",
                             f"{where}: value {show_value(vd)} (component classes {[type_class(c) for c in comps]}) into {mdl.typ} x{mdl.arity}: "
                             f"sparse {'accepted' if res[0] else 'rejected'}, dense {'accepted' if res[1] else 'rejected'}, documented rule says {'accept' if acc else 'reject'}") and good
            if acc and res[0] and res[1]:
                mdl.data[i] = model_value(vd, mdl.typ, mdl.arity)
                # "plain" entries: every component was given in the attribute's own numeric class (no bool -> int widening).
                # (Historical: before fix F-C05-8 the sparse storage kept the class of the written values, so an in-place component
                # write on a non-plain entry truncated there; with INPLACE_ANY_WRITTEN every written numeric entry is asserted.)
                if not hasattr(mdl, "plain"): mdl.plain = set()
                if mdl.typ in ("int", "float") and mdl.arity > 1 and vd[0] != "scalar" and all(type_class(c) == mdl.typ for c in vd[1]):
                    mdl.plain.add(i)
                else:
                    mdl.plain.discard(i)
            elif res[0] or res[1]:
                # a write that should have been rejected went through somewhere: re-synchronise that entry with a clean write
                resync = PYTYPE[mdl.typ]() if mdl.arity == 1 else [PYTYPE[mdl.typ]()] * mdl.arity
                sp[i] = resync; de[i] = resync; mdl.data[i] = resync
        elif kind == "get":
            pass  # the full read-out below reads every entry
        elif kind in ("set_oob", "get_oob"):
            _, name, i, vd = op
            if name not in models: continue
            # indices are relative to the container size at generation time; recompute against the real size
            off = {-1: -1, -5: -5}.get(i, None)
            idx = off if off is not None else n + max(0, i - n) if i >= 0 else i
            if 0 <= idx < n:
                idx = n
            sp, de = handles[name]
            ctx.label("oob=size" if idx == n else "oob=other")
            if step % 2:
                idx = np.int64(idx); ctx.label("oob-numpy-index")
            try:
                if kind == "get_oob":
                    de[idx]
                else:
                    de[idx] = realise_value(vd)
                ctx.fail("dense:oob", f"{where}: dense {'read' if kind == 'get_oob' else 'write'} at index {idx} (container size {n}) did not raise OutOfBoundsError")
            except Attribute.OutOfBoundsError:
                pass
            except Exception as e:
                if type(e).__name__ == "Violation":
                    raise
                ctx.fail("dense:oob", f"{where}: dense {'read' if kind == 'get_oob' else 'write'} at index {idx} (container size {n}) raised {type(e).__name__} instead of reporting OutOfBoundsError: {e}")
        elif kind in ("inplace", "inplace_idx"):
            _, name, i, k, d, vd = op[:6]
            pre = op[6] if len(op) > 6 else None
            if name not in models or n == 0: continue
            i = i % n
            mdl = models[name]; sp, de = handles[name]
            if mdl.typ in ("str", "bool"):
                continue
            if pre is not None and mdl.arity > 1:
                val = realise_value(pre)
                ok1, _ = ctx.call("sparse:set", sp.__setitem__, i, val); ok2, _ = ctx.call("dense:set", de.__setitem__, i, val)
                if not (ok1 and ok2): return
                mdl.data[i] = model_value(pre, mdl.typ, mdl.arity)
                if not hasattr(mdl, "plain"): mdl.plain = set()
                mdl.plain.add(i)
                if any(type_class(c) != mdl.typ for c in pre[1]): ctx.label("inplace-after-narrower-class-write")
                if mdl.data[i] == list(mdl.default): ctx.label("written-value-equals-default")
            ctx.label("inplace-on-" + ("written" if i in mdl.data else "never-written"))
            for a, which in ((sp, "sparse"), (de, "dense")):
                try:
                    x = a[i]
                    if kind == "inplace":
                        x += d
                    elif mdl.arity > 1:
                        x[k % mdl.arity] = d
                except Exception:
                    pass
            # a WRITTEN vector entry is updatable in place (upstream code relies on `attr[i][k] = x` for entries it has set):
            # both storages must show the component write. (Never-written entries: nothing is promised for entry i itself.)
            if kind == "inplace_idx" and mdl.arity > 1 and i in mdl.data and (i in getattr(mdl, "plain", set()) or INPLACE_ANY_WRITTEN):
                exp = list(mdl.data[i]); exp[k % mdl.arity] = PYTYPE[mdl.typ](d)
                ctx.label("inplace-write-on-plain-written-entry")
                for a, which in ((sp, "sparse"), (de, "dense")):
                    ok, got = ctx.call(which + ":get", a.__getitem__, i)
                    if ok:
                        ctx.check(lib_eq(got, exp, mdl.typ, mdl.arity), which + ":inplace-write-lost",
                                  f"{where}: after `x = attr[{i}]; x[{k % mdl.arity}] = {d}` on a written entry the {which} storage reads {got!r}, expected {exp!r}")
            # every OTHER entry must read as before (checked by the read-out); entry i itself is re-synchronised
            sp[i] = realise_value(vd); de[i] = realise_value(vd)
            mdl.data[i] = model_value(vd, mdl.typ, mdl.arity)
        elif kind == "copy_entry":
            _, name, i, j, k, d, vd = op
            if name not in models or n == 0: continue
            i, j = i % n, j % n
            mdl = models[name]; sp, de = handles[name]
            if i == j: continue
            ctx.label("copy-entry")
            for a in (sp, de):
                ok, _ = ctx.call("set:copy-entry", a.__setitem__, j, a[i])     # a[j] = a[i]
                if not ok: return
            mdl.data[j] = mdl.get(i)
            observe(where + " (after a[j] = a[i])")
            if mdl.typ not in ("str", "bool") and mdl.arity > 1:
                for a in (sp, de):
                    try:
                        x = a[j]
                        x[k % mdl.arity] = d          # change the value obtained by reading entry j
                    except Exception:
                        pass
                # every entry other than j must read as before (entry i in particular); j is re-synchronised
                sp[j] = realise_value(vd); de[j] = realise_value(vd)
                mdl.data[j] = model_value(vd, mdl.typ, mdl.arity)
        elif kind == "set_array":
            _, name, i, k, vd = op
            if name not in models or n == 0 or vd is None: continue
            mdl = models[name]; sp, de = handles[name]
            if mdl.arity == 1: continue
            i = i % n
            ctx.label("numpy-array-value")
            for a in (sp, de):
                arr = np.array([realise(x) for x in vd[1]])
                if step % 2:
                    from mouette.geometry import Vec
                    arr = Vec(arr); ctx.label("Vec-value")
                ok, _ = ctx.call("set:numpy-array", a.__setitem__, i, arr)
                if not ok: return
                if arr.dtype.kind in "ifc":
                    arr[k % mdl.arity] = arr[k % mdl.arity] + 7      # the caller's array changes after the write
            mdl.data[i] = model_value(vd, mdl.typ, mdl.arity)
        elif kind == "set_exotic":
            _, name, i, shape, dt, base, as_vec = op
            if name not in models or n == 0: continue
            i = i % n
            mdl = models[name]; sp, de = handles[name]
            k = mdl.arity
            shp = {"(k,)": (k,), "(1,)": (1,), "(1,1)": (1, 1), "()": (), "(k,1)": (k, 1), "(1,k)": (1, k), "(k+1,)": (k + 1,), "(k-1,)": (max(k - 1, 0),)}[shape]
            own = {"bool": "bool", "int": "int64", "float": "float64", "complex": "complex128", "str": "U8"}[mdl.typ]
            dtn = own if dt == "own" else dt
            cnt = int(np.prod(shp)) if shp != () else 1
            try:
                if dtn.startswith("U") or dtn == "object" and mdl.typ == "str":
                    flat = np.array([("s%d" % (base + j)) for j in range(cnt)], dtype=dtn)
                elif dtn == "bool":
                    flat = np.array([(base + j) % 2 == 0 for j in range(cnt)], dtype=bool)
                else:
                    flat = np.array([base + j for j in range(cnt)]).astype(dtn)
                val = flat.reshape(shp)
            except Exception:
                continue
            ctx.label("exotic-array-value", f"exotic:shape={shape}", f"exotic:dtype={'own' if dt == 'own' else dt}")
            res, got = [], []
            for a in (sp, de):
                try:
                    a[i] = val.copy()
                    res.append(True)
                except Exception:
                    res.append(False)
            if not ctx.check(res[0] == res[1], "set:sparse-dense-disagree",
                             f"{where}: numpy value {val!r} (shape {val.shape}, dtype {val.dtype}) into {mdl.typ} x{mdl.arity}: sparse "
                             f"{'accepted' if res[0] else 'rejected'} but dense {'accepted' if res[1] else 'rejected'}"):
                pass
            if res[0] and res[1]:
                ctx.label("exotic-array-accepted")
                ok1, v1 = ctx.call("sparse:get", sp.__getitem__, i); ok2, v2 = ctx.call("dense:get", de.__getitem__, i)
                if ok1 and ok2:
                    a1, a2 = np.asarray(v1), np.asarray(v2)
                    same = a1.shape == a2.shape and ([str(x) for x in a1.ravel()] == [str(x) for x in a2.ravel()] if mdl.typ == "str"
                                                     else bool(np.all(a1 == a2)))
                    ctx.check(same, "exotic:sparse-dense-read", f"{where}: after writing {val!r} both storages accepted but sparse reads {v1!r}, dense reads {v2!r}")
                # a proper arity-k write of the attribute's own class is also held against the model
                if shp == (k,) and dt == "own" and k > 1:
                    mdl.data[i] = [PYTYPE[mdl.typ](x) for x in val.tolist()]
                    continue_ok = True
                else:
                    continue_ok = False
            if not (res[0] and res[1] and shp == (k,) and dt == "own" and k > 1):
                # re-synchronise the entry with a clean write
                resync = PYTYPE[mdl.typ]() if mdl.arity == 1 else [PYTYPE[mdl.typ]()] * mdl.arity
                sp[i] = resync; de[i] = resync; mdl.data[i] = resync
            if hasattr(mdl, "plain"): mdl.plain.discard(i)
        elif kind == "clear_attr":
            name = op[1]
            if name not in models: continue
            sp, de = handles[name]
            ctx.call("sparse:clear", sp.clear); ctx.call("dense:clear", de.clear)
            if step % 2:
                ctx.label("clear-repeated")
                ctx.call("sparse:clear", sp.clear); ctx.call("dense:clear", de.clear)
            models[name].data = {}
        elif kind == "as_array":
            name = op[1]
            if name not in models: continue
            mdl = models[name]; sp, de = handles[name]
            rows = [mdl.get(i) if mdl.arity > 1 else [mdl.get(i)] for i in range(n)]
            dt = {"bool": bool, "int": np.int64, "float": float, "complex": complex, "str": "<U32"}[mdl.typ]
            exp = np.array(rows, dtype=dt).reshape(n, mdl.arity)
            if mdl.arity == 1:
                exp = exp[:, 0]      # one value per element: shape (n,); vectors: shape (n, arity)
            if not mdl.data: ctx.label("export-with-no-stored-entry")
            if n == 0: ctx.label("export-of-empty-container")
            # the size is given as in-repo callers do (positionally, to either storage), by keyword, or as a numpy integer; every other
            # export is asked for twice in a row (each answer is compared at once - nothing is assumed about an export kept by the caller)
            variant = step % 3
            ctx.label("as_array-spelling=" + ("positional", "keyword", "numpy-size")[variant])
            for round_no in range(2 if step % 2 else 1):
                if round_no: ctx.label("as_array-repeated")
                if variant == 0:
                    ok1, a1 = ctx.call("sparse:as_array", sp.as_array, n); ok2, a2 = ctx.call("dense:as_array", de.as_array)
                elif variant == 1:
                    ok1, a1 = ctx.call("sparse:as_array", sp.as_array, container_size=n); ok2, a2 = ctx.call("dense:as_array", de.as_array, n)
                else:
                    ok1, a1 = ctx.call("sparse:as_array", sp.as_array, np.int64(n)); ok2, a2 = ctx.call("dense:as_array", de.as_array)
                for ok, arr, which in ((ok1, a1, "sparse"), (ok2, a2, "dense")):
                    if ok:
                        arr = np.asarray(arr)
                        ctx.check(arr.shape == exp.shape and bool(np.all(arr == exp)), which + ":as_array",
                                  f"{where}: {which} as_array = {arr!r}, expected {exp!r}")
        elif kind == "delete":
            name = op[1]
            if name not in models: continue
            ctx.call("container:delete", cont.delete_attribute, name + "_s")
            ctx.call("container:delete", cont.delete_attribute, name + "_d")
            ctx.check(not cont.has_attribute(name + "_s") and not cont.has_attribute(name + "_d"), "container:delete", f"{where}: attribute still present")
            if step % 2:
                # deleting a name that does not exist (any more) is documented as a no-op
                ctx.label("delete-absent")
                ctx.call("container:delete-absent", cont.delete_attribute, name + "_s")
                ctx.call("container:delete-absent", cont.delete_attribute, name=name + "_d")
            del models[name]; del handles[name]
        observe(where)
    ctx.nontrivial(grown_after_create and read_unwritten)


# ------------------------------------------------------------------ containers beyond 2**16 / 10**5 elements

@st.composite
def large_case(draw):
    typ = draw(st.sampled_from(TYPES))
    arity = draw(st.sampled_from([1, 1, 2, 3]))
    dflt = None
    if draw(st.booleans()):
        dflt = draw(scalar_desc().filter(lambda d: type_class(d) == typ and d[0] != "npcomplex"))
    n = draw(st.sampled_from([2 ** 16 + 1, 2 ** 16 + 2, 70001, 10 ** 5 + 1, 2 ** 17 + 1])) + draw(st.sampled_from([0, 0, 1, 37]))
    good = value_desc(typ, arity).filter(lambda vd: model_accepts(vd, typ, arity) and vd[0] in ("scalar", "list", "tuple"))
    # where the writes go: relative to the final size (last, last-1), around 2**16 and 10**5, index 0, anywhere
    places = st.sampled_from(["last", "last", "last-1", "0", "65535", "65536", "65537", "99999", "100000", "frac"])
    writes = [[draw(places), draw(st.integers(0, 10 ** 6)), draw(good)] for _ in range(draw(st.integers(3, 10)))]
    return {"container": draw(st.sampled_from(["data", "corner"])), "typ": typ, "arity": arity, "dflt": dflt, "n0": draw(st.integers(0, 3)), "n": n,
            "how": draw(st.sampled_from(["iadd_list", "iadd_tuple", "iadd_cont", "two_chunks", "ctor"])), "early": draw(good), "writes": writes}


def fn_large(case, ctx):
    from mouette.mesh.data_container import DataContainer, CornerDataContainer
    from mouette.mesh.mesh_attributes import Attribute
    corner = case["container"] == "corner"
    typ, arity, n0, N, how = case["typ"], case["arity"], case["n0"], case["n"], case["how"]
    ctx.label("container=" + case["container"], "large:how=" + how, "large:type=" + typ, "large:n>1e5" if N > 10 ** 5 else "large:n>2**16")
    mk = (lambda a, b: [(i, i + 1) for i in range(a, b)]) if corner else (lambda a, b: [(i, i + 1, i + 2) for i in range(a, b)])
    dv = None if case["dflt"] is None else realise(case["dflt"])
    mdl = AttrModel(typ, arity, case["dflt"])

    def create(c):
        ok1, sp = ctx.call("create:sparse", c.create_attribute, "a_s", PYTYPE[typ], arity, default_value=dv)
        ok2, de = ctx.call("create:dense", c.create_attribute, "a_d", PYTYPE[typ], arity, dense=True, default_value=dv)
        return (sp, de) if ok1 and ok2 else None

    def write(h, i, vd):
        ok1, _ = ctx.call("sparse:set", h[0].__setitem__, i, realise_value(vd)); ok2, _ = ctx.call("dense:set", h[1].__setitem__, i, realise_value(vd))
        mdl.data[i] = model_value(vd, typ, arity)
        return ok1 and ok2

    if how == "ctor":
        # all elements are there when the attribute is created
        els = mk(0, N)
        ok, cont = ctx.call("container:construct", (lambda: CornerDataContainer([e[0] for e in els], [e[1] for e in els], id="c")) if corner else (lambda: DataContainer(els, id="c")))
        if not ok: return
        h = create(cont)
        if h is None: return
    else:
        cont = CornerDataContainer(id="c") if corner else DataContainer(id="c")
        for e in mk(0, n0):
            cont.append(*e) if corner else cont.append(e)
        h = create(cont)
        if h is None: return
        if n0 > 0 and not write(h, n0 - 1, case["early"]): return          # written before the growth
        chunks = [(n0, 40000), (40000, N)] if how == "two_chunks" else [(n0, N)]
        for a, b in chunks:
            els = mk(a, b)
            if how == "iadd_cont":
                other = ctx.call("container:construct", (lambda: CornerDataContainer([e[0] for e in els], [e[1] for e in els], id="o")) if corner else (lambda: DataContainer(els, id="o")))[1]
                if other is None: return
                items = other
            else:
                items = tuple(els) if how == "iadd_tuple" else els

            def f():
                nonlocal cont
                cont += items
            ok, _ = ctx.call("container:iadd_large", f)
            if not ok: return
    sp, de = h
    n = N
    ctx.nontrivial(how != "ctor")

    def audit(where):
        """lengths, the export of both storages against the model (all n rows), entry reads at the written and at some never-written indices"""
        ctx.check(len(cont) == n, "container:len", f"{where}: len(container) = {len(cont)}, expected {n}")
        if not ctx.check(len(de) == n, "dense:len", f"{where}: dense attribute has length {len(de)} but the container has {n} elements"):
            return False
        dt = {"bool": bool, "int": np.int64, "float": float, "complex": complex, "str": "<U32"}[typ]
        exp = np.empty((n, arity), dtype=dt)
        exp[:] = np.array(mdl.default if arity > 1 else [mdl.default], dtype=dt)
        for i, v in mdl.data.items():
            exp[i] = np.array(v if arity > 1 else [v], dtype=dt)
        if arity == 1: exp = exp[:, 0]
        ok1, a1 = ctx.call("sparse:as_array", sp.as_array, n); ok2, a2 = ctx.call("dense:as_array", de.as_array)
        for ok, arr, which in ((ok1, a1, "sparse"), (ok2, a2, "dense")):
            if not ok: continue
            arr = np.asarray(arr)
            if not ctx.check(arr.shape == exp.shape, which + ":as_array", f"{where}: {which} as_array has shape {arr.shape}, expected {exp.shape}"):
                continue
            bad = np.argwhere(arr != exp)
            ctx.check(len(bad) == 0, which + ":as_array",
                      f"{where}: {which} as_array differs from the written values / default at {len(bad)} places, first at {bad[0].tolist() if len(bad) else None}: "
                      f"{arr[tuple(bad[0])] if len(bad) else None!r}, expected {exp[tuple(bad[0])] if len(bad) else None!r}")
        probe = sorted(set(list(mdl.data) + [0, 1, n0, 39999, 40000, 65535, 65536, 65537, 99999, 100000, n // 2, n - 2, n - 1]))
        for i in probe:
            if not 0 <= i < n: continue
            mv = mdl.get(i)
            ki = KEYFORMS[i % 4](i)
            for a, which in ((sp, "sparse"), (de, "dense")):
                ok, v = ctx.call(which + ":get", a.__getitem__, ki)
                if ok:
                    ctx.check(lib_eq(v, mv, typ, arity), which + ":value",
                              f"{where}: {which}[{i}] = {v!r}, expected {mv!r} ({'written' if i in mdl.data else 'never written -> default'}; container size {n})")
        for idx in (n, n + 1, np.int64(n)):
            try:
                de[idx]
                ctx.fail("dense:oob", f"{where}: dense read at index {idx} (container size {n}) did not raise OutOfBoundsError")
            except Attribute.OutOfBoundsError:
                pass
            except Exception as e:
                if type(e).__name__ == "Violation": raise
                ctx.fail("dense:oob", f"{where}: dense read at index {idx} (container size {n}) raised {type(e).__name__} instead of OutOfBoundsError: {e}")
        return True

    if not audit("after the growth to %d elements" % n): return
    for place, r, vd in case["writes"]:
        i = {"last": n - 1, "last-1": n - 2, "0": 0, "frac": r % n}.get(place)
        if i is None: i = int(place)
        if not 0 <= i < n: i = n - 1
        ctx.label("large:write@" + place)
        if not write(h, i, vd): return
    if not audit("after the writes"): return
    # one more element appended on its own, written, then both attributes reset
    ctx.call("container:append", (lambda: cont.append(N, N + 1)) if corner else (lambda: cont.append((N, N + 1, N + 2)))); n += 1
    if not audit("after one more append"): return
    if not write(h, n - 1, case["early"]): return
    if not audit("after a write at the new last index"): return
    ctx.call("sparse:clear", sp.clear); ctx.call("dense:clear", de.clear); mdl.data = {}
    audit("after clear")


SUBCHECKS = [SubCheck("attribute_history", history(), fn, quick=2000, thorough=5000),
             SubCheck("large_container", large_case(), fn_large, quick=3, thorough=2)]
MATCHERS = {}
