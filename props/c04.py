"""C04 - saving then loading a mesh is lossless within each format's vocabulary.

Per format two sub-checks:
  <fmt>      mouette saves a generated mesh; (oracle 2) the file is parsed by the independent reader of vlib/ref_codecs and
             must mean the projected mesh; (oracle 1) mouette loads it back and the result must equal the normal form of the
             projected mesh (class, bit-exact coordinates, elements with vertex order, hard-edge flags); (oracle 4, geogram)
             every user attribute comes back with name, type, arity and value at every element.
  <fmt>_ext  (oracle 3) the independent writer writes the same content with the layout variations the importer is meant to
             accept; mouette loads it and must produce the normal form of that content.
"""
import os, re, sys, json, math, struct, random, shutil, tempfile, subprocess
from hypothesis import strategies as st
from vlib.runner import SubCheck, REPO
from vlib import gen_surface as G
from vlib import gen_tets as GT
from vlib import ref_codecs as R

PROPERTY = "C04"
RULE = ("Generated meshes of every class (point clouds, polylines = paths/cycles/trees/graphs, oriented manifold polygon surfaces "
        "from vlib.gen_surface incl. quad / mixed / polygon faces, conforming tet complexes from vlib.gen_tets, hexahedral grids; "
        "declared hard edges = random subset of face sides in random orientation; declared faces on volumes) with coordinates "
        "drawn from all finite float64 (negative, -0.0, subnormal, 1e+-300, 17-digit values; clamped to float32 range for stl) "
        "x format (one pair of sub-checks per format: <fmt> = save by mouette, file parsed by the independent reader, load by mouette, "
        "attribute round trip; <fmt>_ext = file written by the independent writer with layout variation, load by mouette) "
        "x config switches (export_edges_in_obj, complete_edges_from_faces) x ignore_elements x lower/upper-case extension "
        "x (geogram) 0-4 user attributes (bool/int/float arity 1-3, sparse/dense, custom default, on any container; complex/str as a "
        "labelled class; the values of a str attribute follow the flavour drawn for the case: plain ASCII words, text outside ASCII = "
        "Latin-1 accented letters / other BMP scripts and typographic signs / characters beyond the BMP / base letter + combining mark / "
        "a mix, ASCII punctuation, text that reads as a number or keyword ('1e5', 'nan', 'True'); empty and > 32 characters in each) "
        "x file name (dots, blank, sub-directory, mixed-case extension, file and directory names outside ASCII) "
        "x (<fmt>_ext) how the foreign file is spelled, none of which changes its meaning: LF / CRLF line ends, last line with / without "
        "line end, blanks / tabs as separators and indentation, exponent spelling of the numbers (1.5e-07, 1.5E-07, 1.5e-7, 1E22, 1.5e-007), "
        "free text outside ASCII (UTF-8) where the format has room for it and the importer skips it: whole-line '#' comments + mtllib / o / g / "
        "usemtl names (obj), head comment line (medit), trailing '#' comments (geogram), solid names (ascii stl), the 80 header bytes of a "
        "binary stl (UTF-8, possibly cut inside a character, or Latin-1 bytes). non-trivial = the mesh holds an element kind beyond vertices that the format expresses and a non-integer "
        "coordinate (xyz: >=2 points and a non-integer coordinate); distinct = distinct realised (mesh, format, switches, attributes, "
        "variation).")
ASSUMPTIONS = ["meshes are valid inputs of the mesh classes (manifold surfaces, conforming cell complexes, distinct declared edges that are face sides)",
               "coordinates are finite; for stl within the float32 range (the format stores float32)",
               "stl expresses triangles and quads (as two triangles); for larger polygons the exporter's explicit ValueError refusal is accepted",
               "attribute names match [A-Za-z_][A-Za-z0-9_]* and avoid the names reserved by mouette / geogram (nothing documents other names: "
               "names outside ASCII are not asserted)",
               "string attribute values hold no whitespace (in the Unicode sense: no NBSP, no U+2028 ...), '#', line break or square bracket (the "
               "format stores one value per line); any other character of valid Unicode text (no lone surrogate, no control character), any length "
               "(values of a dense string attribute are cut to 32 characters = code points when stored, as documented: what is compared is what the mesh held)",
               "text outside ASCII is stored in files as UTF-8, the default text encoding of the process the checks run in (POSIX locale / UTF-8 mode); "
               "if the process has another default encoding the non-ASCII classes are replaced by ASCII text (label env:not-utf8): what such text becomes "
               "then depends on the locale",
               "spellings of foreign files are limited to what the importers' own parsing accepts by construction: text mode with universal newlines, "
               "str.split() on any white space, float() / numpy.float64() on the number tokens (so no Fortran 'D' exponents, no decimal commas), lines "
               "whose first token is unknown skipped (obj, medit), text after '#' dropped (geogram); no byte order mark, no comments in off / tet / xyz",
               "config switches are constant during a case (build, save, load)",
               "layout variation of foreign files is limited to the forms the importers' own handling shows as intended (DESIGN C04 oracle 3)"]

FORMATS = ["obj", "mesh", "geogram_ascii", "off", "tet", "xyz", "stl"]
CLS = ["PointCloud", "PolyLine", "SurfaceMesh", "VolumeMesh"]
RESERVED = {"point", "hard_edges", "normals", "uv_coords", "adjacent_cell", "opposite_cell", "opposite_face",
            "corner_adjacent_facet", "border", "selection"}
TETF = [(1, 3, 2), (0, 2, 3), (3, 1, 0), (0, 1, 2)]                         # library convention: face i misses vertex i
HEXF = [(0, 1, 2, 3), (4, 5, 6, 7), (0, 3, 7, 4), (0, 1, 5, 4), (1, 2, 6, 5), (2, 3, 7, 6)]
CONTAINERS = ["vertices", "edges", "faces", "face_corners", "cells", "cell_corners", "cell_faces"]
GEO_SET = {"vertices": "GEO::Mesh::vertices", "edges": "GEO::Mesh::edges", "faces": "GEO::Mesh::facets",
           "face_corners": "GEO::Mesh::facet_corners", "cells": "GEO::Mesh::cells", "cell_corners": "GEO::Mesh::cell_corners",
           "cell_faces": "GEO::Mesh::cell_facets"}


def self_test():
    R.self_test()
    n = normalise([[0.0] * 3] * 5, [(2, 1)], [[0, 1, 2, 3], [1, 4, 2]], [], True)
    assert n["E"] == [(1, 2), (0, 1), (2, 3), (0, 3), (1, 4), (2, 4)] and n["hard"] == [True] + [False] * 5 and n["cls"] == "SurfaceMesh"
    n = normalise([[0.0] * 3] * 5, [], [], [[0, 1, 2, 3], [1, 2, 3, 4]], True)
    assert len(n["F"]) == 7 and len(n["E"]) == 9 and n["cls"] == "VolumeMesh"
    n = normalise([[0.0] * 3] * 3, [(1, 0)], [], [], True)
    assert n["E"] == [(0, 1)] and n["hard"] is None and n["cls"] == "PolyLine"


# ================================================================================================ model

def skey(t):
    return tuple(sorted(int(x) for x in t))


def cell_faces(c):
    if len(c) == 4:
        return [tuple(c[i] for i in f) for f in TETF]
    if len(c) == 8:
        return [tuple(c[i] for i in f) for f in HEXF]
    return []


def normalise(V, E, F, C, complete_edges=True, hard_attr=None):
    """Normal form a mesh class gives to raw content (RawMeshData.prepare as documented): faces completed from cells,
    edges completed from faces (pre-existing edges flagged hard, or the flags of an existing hard_edges attribute kept),
    edges stored low index first."""
    F2 = [[int(x) for x in f] for f in F]
    C2 = [[int(x) for x in c] for c in C]
    if C2:
        seen = set(skey(f) for f in F2)
        for c in C2:
            for f in cell_faces(c):
                if skey(f) not in seen:
                    seen.add(skey(f)); F2.append(list(f))
    E2 = [skey(e) for e in E]
    hard = None
    if complete_edges and F2:
        hard = [bool(h) for h in hard_attr] if hard_attr is not None else [True] * len(E2)
        seen = set(E2)
        for f in F2:
            for i in range(len(f)):
                k = skey((f[i], f[(i + 1) % len(f)]))
                if k not in seen:
                    seen.add(k); E2.append(k); hard.append(False)
    elif hard_attr is not None:
        hard = [bool(h) for h in hard_attr]
    dim = 3 if C2 else 2 if F2 else 1 if E2 else 0
    return {"V": [list(v) for v in V], "E": E2, "hard": hard, "F": F2, "C": C2, "cls": CLS[dim], "nE_decl": len(E), "nF_decl": len(F)}


def bits(x):
    return struct.pack("<d", float(x))


def same_coords(A, B):
    if len(A) != len(B):
        return False
    if len(A) > 64:
        # large inputs: compare the bit patterns in bulk (falls back to the plain loop on anything irregular)
        try:
            import numpy as np
            a = np.asarray(A, dtype=np.float64); b = np.asarray(B, dtype=np.float64)
            if a.ndim == 2 and a.shape == b.shape and a.shape[1] == 3:
                return bool(np.array_equal(np.ascontiguousarray(a).view(np.int64), np.ascontiguousarray(b).view(np.int64)))
        except (ValueError, TypeError):
            pass
    for a, b in zip(A, B):
        if len(a) != 3 or len(b) != 3:
            return False
        for x, y in zip(a, b):
            if bits(x) != bits(y):
                return False
    return True


def first_coord_diff(A, B):
    if len(A) > 64 and same_coords(A, B):
        return "same"
    if len(A) != len(B):
        return f"{len(A)} vertices vs {len(B)} expected"
    for i, (a, b) in enumerate(zip(A, B)):
        if len(a) != 3:
            return f"vertex {i} has {len(a)} coordinates: {a!r}"
        for j in range(3):
            if bits(a[j]) != bits(b[j]):
                return f"vertex {i} coordinate {j}: got {a[j]!r}, expected {b[j]!r}"
    return "same"


def f32(x):
    return struct.unpack("<f", struct.pack("<f", float(x)))[0]


# ================================================================================================ generators

SPECIAL = [0.0, -0.0, 1.0, -1.0, 0.1, -0.1, 1 / 3, -2 / 3, 1e300, -1e300, 1e-300, 5e-324, -5e-324, 2.2250738585072014e-308,
           1.7976931348623157e308, 0.30000000000000004, 123456.78901234567, 1e22, 1e23, 9007199254740993.0, 1e16, 1e-5, 1e-7,
           123456789012345680.0, 0.7999999999999999, 4.35, 2.675, 1000000000000000.2, 5e-5, 1e21, 1.5e-10, -123.456e-20]


def coord():
    return st.one_of(st.floats(allow_nan=False, allow_infinity=False), st.sampled_from(SPECIAL), st.floats(-100, 100),
                     st.integers(-50, 50).map(float))


def hex_grid(a, b, c):
    def vid(i, j, k):
        return (k * (b + 1) + j) * (a + 1) + i
    V = [[float(i), float(j), float(k)] for k in range(c + 1) for j in range(b + 1) for i in range(a + 1)]
    C = []
    for k in range(c):
        for j in range(b):
            for i in range(a):
                C.append([vid(i, j, k), vid(i + 1, j, k), vid(i + 1, j + 1, k), vid(i, j + 1, k),
                          vid(i, j, k + 1), vid(i + 1, j, k + 1), vid(i + 1, j + 1, k + 1), vid(i, j + 1, k + 1)])
    return V, C


KIND_WEIGHTS = {
    "obj": {"surface": 11, "polyline": 3, "pointcloud": 1, "tets": 3, "hexes": 2},
    "mesh": {"surface": 7, "polyline": 2, "pointcloud": 1, "tets": 5, "hexes": 5},
    "geogram_ascii": {"surface": 8, "polyline": 2, "pointcloud": 1, "tets": 6, "hexes": 3},
    "off": {"surface": 14, "polyline": 1, "pointcloud": 1, "tets": 2, "hexes": 2},
    "tet": {"surface": 2, "polyline": 1, "pointcloud": 1, "tets": 10, "hexes": 6},
    "xyz": {"surface": 3, "polyline": 2, "pointcloud": 11, "tets": 2, "hexes": 2},
    "stl": {"surface": 24, "polyline": 1, "pointcloud": 1, "tets": 3, "hexes": 2},   # (zero-facet files are loaded in a child process: keep them few)
}


@st.composite
def mesh_content(draw, fmt):
    w = KIND_WEIGHTS[fmt]
    kind = draw(st.sampled_from([k for k in sorted(w) for _ in range(w[k])]))
    tags = []
    E, F, C = [], [], []
    rnd = random.Random(draw(st.integers(0, 10 ** 6)))
    if kind == "pointcloud":
        n = draw(st.integers(0, 12))
        Vg = [[float(i), float(i * i % 5), float(i % 3)] for i in range(n)]
    elif kind == "polyline":
        n = draw(st.integers(2, 12))
        shape = draw(st.sampled_from(["path", "cycle", "tree", "graph"]))
        if shape == "path":
            E = [(i, i + 1) for i in range(n - 1)]
        elif shape == "cycle" and n >= 3:
            E = [(i, (i + 1) % n) for i in range(n)]
        elif shape == "tree":
            E = [(rnd.randrange(i), i) for i in range(1, n)]
        else:
            pairs = [(i, j) for i in range(n) for j in range(i)]
            E = rnd.sample(pairs, min(len(pairs), 1 + rnd.randrange(12)))
        if not E:
            E = [(0, 1)]
        rnd.shuffle(E)
        E = [list(e) if rnd.random() < 0.5 else [e[1], e[0]] for e in E]
        Vg = [[float(i), float(i * i % 5), float(i % 3)] for i in range(n)]
        tags.append("polyline=" + shape)
    elif kind == "surface":
        s = draw(G.surfaces(max_faces=40, keep_isolated=draw(st.integers(0, 5)) == 0))
        Vg, F = s["V"], s["F"]
        if fmt == "stl" and any(len(f) > 4 for f in F) and draw(st.integers(0, 5)) != 0:
            # stl takes triangles and quads only: cut larger polygons into quads (+ one triangle) so that most cases are writable
            F2 = []
            for f in F:
                f = list(f)
                while len(f) > 4:
                    F2.append(f[:4]); f = [f[0]] + f[3:]
                F2.append(f)
            if G._valid(Vg, F2):
                F = F2
        tags += [t for t in s["tags"] if not t.startswith("op=")]
        sides = sorted(set(skey((f[i], f[(i + 1) % len(f)])) for f in F for i in range(len(f))))
        mode = draw(st.sampled_from(["none", "some", "some", "all"]))
        if mode == "some":
            E = rnd.sample(sides, rnd.randrange(1, min(len(sides), 8) + 1))
        elif mode == "all":
            E = list(sides); rnd.shuffle(E)
        E = [list(e) if rnd.random() < 0.5 else [e[1], e[0]] for e in E]
        tags.append("declared-edges=" + mode)
    elif kind == "tets":
        s = draw(GT.tets(max_cells=24))
        Vg, C = s["V"], s["C"]
        tags += [t for t in s["tags"] if t.startswith("base=")]
    else:
        a, b, c = draw(st.integers(1, 2)), draw(st.integers(1, 2)), draw(st.integers(1, 2))
        Vg, C = hex_grid(a, b, c)
        if len(C) > 1 and draw(st.booleans()):
            C.pop(rnd.randrange(len(C)))
            used = sorted(set(v for cc in C for v in cc))
            mp = {v: i for i, v in enumerate(used)}
            Vg = [Vg[v] for v in used]; C = [[mp[v] for v in cc] for cc in C]
        if draw(st.booleans()):
            perm = list(range(len(Vg))); rnd.shuffle(perm)
            Vg2 = [None] * len(Vg)
            for i, p in enumerate(perm):
                Vg2[p] = Vg[i]
            Vg = Vg2; C = [[perm[v] for v in cc] for cc in C]
            rnd.shuffle(C)
            tags.append("relabelled")
        tags.append(f"hexgrid={len(C)}")
    if kind in ("tets", "hexes"):
        allf = []
        seen = set()
        for cc in C:
            for f in cell_faces(cc):
                if skey(f) not in seen:
                    seen.add(skey(f)); allf.append(list(f))
        dm = draw(st.sampled_from(["none", "none", "some-faces", "all-faces"]))
        if dm != "none":
            pick = allf if dm == "all-faces" else rnd.sample(allf, rnd.randrange(1, min(len(allf), 6) + 1))
            for f in pick:
                r = rnd.randrange(len(f))
                f = f[r:] + f[:r]
                if rnd.random() < 0.5:
                    f = f[::-1]
                F.append(f)
            tags.append("declared-faces=" + dm)
        if draw(st.integers(0, 3)) == 0:
            sides = sorted(set(skey((f[i], f[(i + 1) % len(f)])) for f in allf for i in range(len(f))))
            E = [list(e) for e in rnd.sample(sides, rnd.randrange(1, min(len(sides), 5) + 1))]
            tags.append("declared-edges=some")
    # ---- vertices no element uses, at id 0, in the middle, at the last id (all ids of the elements shift accordingly)
    iso = draw(st.sampled_from([None, None, None, "first", "middle", "last", "first+middle+last"])) if kind != "pointcloud" else None
    if iso:
        n0 = len(Vg)
        at = sorted(set({"first": [0], "middle": [n0 // 2], "last": [n0], "first+middle+last": [0, n0 // 2, n0]}[iso]))
        newid, Vn, k = {}, [], 0
        for i in range(n0 + 1):
            if i in at:
                Vn.append([0.5 + i, -1.25, 3.0 + k]); k += 1
            if i < n0:
                newid[i] = len(Vn); Vn.append(Vg[i])
        Vg = Vn
        E = [[newid[v] for v in e] for e in E]; F = [[newid[v] for v in f] for f in F]; C = [[newid[v] for v in c] for c in C]
        tags.append("unused-vertex=" + iso)
    # ---- coordinates
    pool = draw(st.lists(coord(), min_size=1, max_size=10))
    mode = draw(st.sampled_from(["geom", "pool", "mixed", "mixed"]))
    scale = draw(st.sampled_from([1.0, 1.0, -1 / 3, 1e-3, 1e7, 0.1, 1e-310, 1e300, 123.456]))
    V = []
    for v in Vg:
        row = []
        for x in v:
            if mode == "pool" or (mode == "mixed" and rnd.random() < 0.4):
                y = pool[rnd.randrange(len(pool))]
            else:
                y = float(x) * scale
            if fmt == "stl" and abs(y) > 3e38:
                y = math.copysign(3e38 * (abs(y) / 1.8e308), y)
            if y != y or y in (float("inf"), float("-inf")):
                y = 0.0
            row.append(float(y))
        V.append(row)
    tags.append("coords=" + mode)
    return {"kind": kind, "V": V, "E": [list(map(int, e)) for e in E], "F": [list(map(int, f)) for f in F],
            "C": [list(map(int, c)) for c in C], "tags": tags}


def attr_value(typ, str_bias="any"):
    if typ == "float":
        return coord()
    if typ == "int":
        # the Int type of attributes covers np.int64: the whole 64-bit range, incl. values a double cannot hold (ids, hash keys, time stamps)
        return st.one_of(st.integers(-2 ** 31, 2 ** 31 - 1), st.integers(-3, 3), st.integers(-2 ** 63, 2 ** 63 - 1),
                         st.sampled_from([2 ** 53 + 1, -(2 ** 53) - 1, 2 ** 53 - 1, 1234567890123456789, 2 ** 63 - 1, -2 ** 63, 2 ** 31, 2 ** 32 + 1,
                                          9007199254740993 * 3, 1700000000123456789]))
    if typ == "bool":
        return st.booleans()
    if typ == "complex":
        return st.tuples(st.floats(-10, 10), st.floats(-10, 10)).map(lambda t: complex(*t))
    # (values longer than 32 characters: the 32-character limit is documented for the dense storage only, where the value
    #  is already cut when it is stored; the sparse storage keeps - and must round-trip - the whole string)
    plain = [st.just(""), st.text(alphabet=STR_BASE, min_size=1, max_size=8), st.text(alphabet=STR_BASE, max_size=8),
             st.text(alphabet=STR_BASE, min_size=33, max_size=70)]
    # text that is not ASCII (accented letters, other scripts, typographic signs, characters beyond the BMP, combining marks after
    # their base letter), ASCII punctuation, text that reads as a number / a keyword; str_bias = the flavour of the case
    if str_bias == "ascii":
        return st.one_of(*plain)
    if str_bias in NA_UNITS or str_bias == "mixed":
        return st.one_of(plain[0], plain[1], na_text(False, str_bias), na_text(False, str_bias), na_text(True, str_bias))
    if str_bias == "punct":
        return st.one_of(plain[0], plain[1], punct_text(), punct_text())
    if str_bias == "numlike":
        return st.one_of(plain[0], plain[1], st.sampled_from(NUMLIKE), st.sampled_from(NUMLIKE))
    return st.one_of(*plain, na_text(False), na_text(True), punct_text(), st.sampled_from(NUMLIKE))


STR_BASE = "abcXYZ019_"
# units a non-ASCII value is made of, by class (none of them is white space for str.strip / str.split, none is '#', '[' or ']')
NA_UNITS = {"latin1": list("\u00e9\u00e0\u00fc\u00df\u00f1\u00e7\u00d8\u00ff"),             # one byte in Latin-1 / cp1252, two in UTF-8
            "bmp": list("\u0151\u0141\u017e\u03bb\u03a9\u0436\u042f\u2013\u2014\u2116\u20ac\u201c\u201d\u2026\u89d2\u65e5\u672c\u8a9e\ud55c"),
            "astral": ["\U0001F600", "\U0001D49C", "\U0002000B"],                                # four bytes in UTF-8, a surrogate pair in UTF-16
            "combining": ["e\u0301", "o\u0308", "n\u0303", "\u0915\u093f"]}                     # base letter + combining mark (not normalised)
NA_ALL = [u for k in sorted(NA_UNITS) for u in NA_UNITS[k]]
PUNCT = list("-.+:/=,;'!?*%&@~^|()<>{}$\"\\")
NUMLIKE = ["3.5", "1e5", "-0", "True", "nan", "1", "0", "inf", "1+2j", "0x1F", "1_000", "None", "-1.5E+07"]


@st.composite
def na_text(draw, long, cls=None):
    """a string with at least one character outside ASCII; long = more than 32 characters"""
    cls = cls or draw(st.sampled_from(["latin1", "latin1", "bmp", "bmp", "astral", "combining", "mixed"]))
    pool = NA_ALL if cls == "mixed" else NA_UNITS[cls]
    units = list(STR_BASE) + pool + pool
    lo, hi = (17, 30) if long else (0, 4)
    a = draw(st.lists(st.sampled_from(units), min_size=lo, max_size=hi))
    b = draw(st.lists(st.sampled_from(units), min_size=lo, max_size=hi))
    return "".join(a) + draw(st.sampled_from(pool)) + "".join(b)


def punct_text():
    units = list(STR_BASE) + PUNCT + PUNCT
    return st.tuples(st.lists(st.sampled_from(units), max_size=4), st.sampled_from(PUNCT), st.lists(st.sampled_from(units), max_size=4)) \
        .map(lambda t: "".join(t[0]) + t[1] + "".join(t[2]))


def str_classes(x):
    """labels of one string value"""
    out = set()
    if not x.isascii():
        out.add("nonascii")
        for ch in x:
            o = ord(ch)
            if o >= 0x10000: out.add("nonascii:astral")
            elif 0x300 <= o < 0x370 or o == 0x93f: out.add("nonascii:combining")
            elif 0x80 <= o < 0x100: out.add("nonascii:latin1")
            elif o >= 0x100: out.add("nonascii:bmp")
    if any(ch in PUNCT for ch in x):
        out.add("ascii-punctuation")
    if x in NUMLIKE:
        out.add("reads-as-number-or-keyword")
    return out


def default_text_encoding():
    """the encoding open() uses when none is given (what the library's readers and writers rely on)"""
    import io, codecs
    try:
        return codecs.lookup(io.TextIOWrapper(io.BytesIO()).encoding).name
    except Exception:
        return "unknown"


def utf8_process():
    return default_text_encoding() == "utf-8" and sys.getfilesystemencoding().lower().replace("-", "") == "utf8"


def ascii_only(x):
    if isinstance(x, str):
        return x.encode("ascii", "replace").decode("ascii")
    if isinstance(x, list):
        return [ascii_only(y) for y in x]
    return x


def without_non_ascii(case):
    """the same case with every character outside ASCII replaced (used only when the process does not run with UTF-8 as its default
    text encoding: what such text becomes then depends on the locale, which the property says nothing about)"""
    c = dict(case)
    c["attrs"] = [dict(a, default=ascii_only(a["default"]), vals=[[i, ascii_only(v)] for i, v in a["vals"]]) if a["type"] == "str" else a
                  for a in case.get("attrs", [])]
    if case.get("name_form") in NAME_FORMS_NA:
        c["name_form"] = "m"
    if case.get("var"):
        c["var"] = dict(case["var"], text=None)
    return c


@st.composite
def attr_spec(draw, k, containers, exotic, force_type=None, str_bias="any"):
    cont = draw(st.sampled_from(containers))
    typ = force_type or (draw(st.sampled_from(["complex", "str"])) if exotic else draw(st.sampled_from(["float", "float", "int", "bool"])))
    dim = draw(st.sampled_from([1, 1, 2, 3]))
    name = draw(st.from_regex(r"[A-Za-z_][A-Za-z0-9_]{0,7}", fullmatch=True))
    if name in RESERVED:
        name = name + "_"
    name = f"{name}{k}"           # distinct names within a case
    vv = attr_value(typ, str_bias)
    one = vv if dim == 1 else st.lists(vv, min_size=dim, max_size=dim)
    # custom default: a scalar of the attribute's type, for every arity (a vector attribute then reads (d, ..., d) where nothing was written)
    default = draw(st.one_of(st.none(), vv, vv))
    if typ == "str" and default is not None and dim > 1:
        # values written into a vector string attribute are stored with 32 characters (the attribute's own '<U32' type), its default
        # is not: a longer default would come back cut once the loader has written every element -> outside the documented limit
        default = default[:32]
    vals = draw(st.lists(st.tuples(st.integers(0, 10 ** 4), one).map(list), max_size=6))
    fill = draw(st.sampled_from([None, None, 1, 2, 3]))
    if default is not None and draw(st.booleans()):
        # written values that are falsy (0, False, '') or within an ulp / 1e-12 of the default, against a default that is neither
        falsy = {"float": 0.0, "int": 0, "bool": False, "complex": 0j, "str": ""}[typ]
        near = [falsy]
        if typ == "float" and default == default and abs(default) < 1e300:
            near += [math.nextafter(default, math.inf), math.nextafter(default, -math.inf), default * (1 + 1e-12), default + 1e-300, -default]
        if typ == "int":
            near += [x for x in (default + 1, default - 1, -default) if -2 ** 63 <= x < 2 ** 63]
        if typ == "complex":
            near += [default + 1e-13, default.conjugate()]
        for _ in range(draw(st.integers(1, 3))):
            x = draw(st.sampled_from(near))
            row = x if dim == 1 else [draw(st.sampled_from(near + [default])) for _ in range(dim)]
            vals.append([draw(st.integers(0, 10 ** 4)), row])
    if typ == "str":
        # text values are stored one per line and the empty string is a legal value (and the default): make values that are
        # empty / never set *between* non-empty ones the common case
        vals = draw(st.lists(st.tuples(st.integers(0, 10 ** 4), one).map(list), min_size=1, max_size=6))
        fill = draw(st.sampled_from([None, None, None, 1]))
    return {"cont": cont, "name": name, "type": typ, "dim": dim, "dense": draw(st.booleans()), "default": default,
            "vals": vals, "fill": fill}


@st.composite
def case_strategy(draw, fmt):
    # (drawn before the mesh: what Hypothesis draws late in a big case collapses to the first choice far too often)
    # foreign files: line ends (LF / CRLF), last line without line end, tabs as separators, spelling of the exponent of a number,
    # text outside ASCII where the format has room for free text (comments, object / group / material / solid names, binary stl header);
    # file and directory names outside ASCII; the flavour of the text attributes of this case
    pre = {"eol": draw(st.sampled_from(["lf", "lf", "lf", "crlf", "crlf"])),
           "final_newline": draw(st.sampled_from([True, True, True, False])),
           "tabs": draw(st.sampled_from([False, False, False, True])),
           "exp": draw(st.sampled_from([None, None, None, "E", "short", "E-short", "pad3"])),
           "text": draw(st.sampled_from([None, None] + list(range(len(NA_TEXTS)))))}
    name_form = draw(st.sampled_from(["m", "m", "m", "m.v1.2", "my mesh", "sub.dir/m", "Mixed"] + sorted(NAME_FORMS_NA)))
    str_bias = draw(st.sampled_from(["any", "ascii", "latin1", "latin1", "bmp", "bmp", "astral", "combining", "mixed", "mixed", "punct", "numlike"]))
    stl_kind = draw(st.sampled_from(["binary", "binary", "ascii"]))
    c = draw(mesh_content(fmt))
    c["fmt"] = fmt
    c["cfg"] = {"export_edges_in_obj": draw(st.sampled_from([True, True, True, False])) if fmt == "obj" else True,
                "complete_edges_from_faces": draw(st.sampled_from([True, True, True, False]))}
    if fmt == "stl":
        ig = draw(st.sampled_from([None] * 14 + [["edges"], ["faces"], ["cells"]]))
    elif fmt in ("obj", "mesh", "geogram_ascii") and c["kind"] in ("surface", "tets", "hexes"):
        # dropping the top element kinds changes what the remaining mesh *is* (surface -> polyline, volume -> surface): frequent class
        ig = draw(st.sampled_from([None] * 7 + [["faces"]] * 3 + [["faces", "cells"]] * 3 + [["cells"]] * 2 +
                                  [["edges"], ["edges", "faces"], ["edges", "cells"], []]))
    else:
        ig = draw(st.sampled_from([None] * 8 + [["edges"], ["faces"], ["cells"], ["edges", "faces"], ["faces", "cells"], []]))
    c["ignore"] = ig
    attrs = []
    if fmt == "geogram_ascii":
        conts = ["vertices"]
        if c["kind"] != "pointcloud":
            conts.append("edges")
        if c["kind"] in ("surface", "tets", "hexes"):
            conts += ["faces", "face_corners"]
        if c["kind"] in ("tets", "hexes"):
            conts += ["cells", "cell_corners", "cell_faces"]
        n = draw(st.sampled_from([0, 1, 1, 2, 3, 4]))
        exotic = draw(st.integers(0, 9)) == 0
        for k in range(n):
            attrs.append(draw(attr_spec(k, conts, exotic and k == 0, str_bias=str_bias)))
        if draw(st.integers(0, 2)) == 0:
            attrs.append(draw(attr_spec(len(attrs), conts, True, force_type="str", str_bias=str_bias)))
    if fmt == "xyz" and draw(st.booleans()):
        attrs.append({"cont": "vertices", "name": "normals", "type": "float", "dim": 3, "dense": draw(st.booleans()), "default": None,
                      "vals": draw(st.lists(st.tuples(st.integers(0, 10 ** 4), st.lists(coord(), min_size=3, max_size=3)).map(list), max_size=5)),
                      "fill": draw(st.sampled_from([None, 1, 2]))})
    c["attrs"] = attrs
    c["ext_upper"] = draw(st.integers(0, 7)) == 0
    # how the vertices are handed to the mesh: lists of floats, float64 numpy rows, or (when every coordinate is a small integer) int numpy rows
    c["vform"] = draw(st.sampled_from(["list", "list", "list", "numpy", "numpy", "int"]))
    if c["vform"] == "int":
        # integer-typed vertex rows: the coordinates of the realised case are made integral (bounded, so that int64 holds them)
        c["V"] = [[float(round(max(-1e6, min(1e6, x)))) + 0.0 for x in v] for v in c["V"]]
        c["V"] = [[0.0 if x == 0 else x for x in v] for v in c["V"]]
    # the same objects used twice: second save of the same mesh with the same ignore set; second load of the same file (options of load)
    c["second"] = {"save": draw(st.booleans()),
                   "load": draw(st.sampled_from([None, "same", "same", "dim0", "dim1", "dim2", "dim3", "raw"]))}
    c["var"] = {"blank": draw(st.booleans()), "spaces": draw(st.booleans()), "floats": draw(st.sampled_from(["repr", "repr", "17g", "17e"])),
                "seed": draw(st.integers(0, 11)), "face_style": draw(st.sampled_from(["v", "v", "v/vt", "v//vn", "v/vt/vn"])),
                "dim_two_lines": draw(st.booleans()), "refs": draw(st.booleans()), "extra_blocks": draw(st.booleans()),
                "comments": draw(st.booleans()), "end": draw(st.booleans()), "stl_kind": "binary",
                "indent": draw(st.booleans()),
                # several 'solid ... endsolid' blocks in one ascii stl file (one per part); 'o' / 'g' / 's' records in obj files
                "solids": draw(st.sampled_from([1, 1, 2, 3, 5])), "groups": draw(st.booleans())}
    # the container type of the ignore_elements argument (membership is all that save needs)
    c["ig_form"] = draw(st.sampled_from(["set", "set", "frozenset", "list", "tuple"]))
    # library-wide switches that must not matter for files; faces / cells handed over as lists, tuples or numpy rows of several integer dtypes
    c["cfg"]["sort_neighborhoods"] = draw(st.booleans())
    c["cfg"]["display_duplicate_attribute_warning"] = draw(st.booleans())
    c["rows_form"] = draw(st.sampled_from(["list", "list", "tuple", "int64", "int32", "int16", "uint8"]))
    c["var"]["off_colors"] = draw(st.sampled_from([None, None, "index", "rgb", "rgba"]))
    # file name forms: extension in lower / upper / mixed case, dots and a blank in the path; a failing call before the real one
    c["name_form"] = name_form
    c["var"].update(pre)
    c["var"]["stl_kind"] = stl_kind
    c["after_raise"] = draw(st.integers(0, 5)) == 0
    # another mesh of the same element counts built, saved, loaded and dropped (garbage collected) just before the one under test;
    # the mesh saved directly or through copy.deepcopy / mouette.mesh.copy / a pickle round trip
    c["prelude"] = draw(st.integers(0, 4)) == 0
    c["save_via"] = draw(st.sampled_from(["direct", "direct", "direct", "deepcopy", "mesh.copy", "pickle"]))
    return c


# ================================================================================================ building / observing

def fill_value(typ, dim, fill, i):
    """deterministic value for element i (used when an attribute is filled on every element)"""
    def one(j):
        h = (i * 7919 + j * 104729 + fill * 31) % 1000
        if typ == "float":
            return [0.1 * h - 37.3, h / 3.0, -1e-7 * h, 1e20 + h, float(h)][fill % 5]
        if typ == "int":
            return h - 500 if fill % 2 else (h * 2147483) % (2 ** 31)
        if typ == "bool":
            return h % 3 != 0
        if typ == "complex":
            return complex(h / 7.0, -h / 3.0)
        return "s%d" % h
    return one(0) if dim == 1 else [one(j) for j in range(dim)]


PYTYPE = {"float": float, "int": int, "bool": bool, "complex": complex, "str": str}
TYPENAME = {"float": "Float", "int": "Int", "bool": "Bool", "complex": "Complex", "str": "String"}


def set_config(case):
    import mouette as M
    M.config.export_edges_in_obj = bool(case["cfg"]["export_edges_in_obj"])
    M.config.complete_edges_from_faces = bool(case["cfg"]["complete_edges_from_faces"])
    M.config.complete_faces_from_cells = True      # (False: a VolumeMesh cannot even be built - KeyError in _generate_cell_faces; reported, not asserted)
    M.config.sort_neighborhoods = bool(case["cfg"].get("sort_neighborhoods", True))
    M.config.display_duplicate_attribute_warning = bool(case["cfg"].get("display_duplicate_attribute_warning", False))


UINT8_MAX_NV = 256     # (F-C04-9, fixed in /repo by 3db9e02: export_obj / export_medit computed 'index + 1' in the dtype of the row, 255 + 1 wrapped to 0)


def rows_form_of(case):
    rf = case.get("rows_form", "list")
    if rf == "uint8" and len(case["V"]) > UINT8_MAX_NV:
        rf = "int16"
    if rf == "int16" and len(case["V"]) > 32000:
        rf = "int32"
    return rf


def index_rows(case, rows):
    import numpy as np
    rf = rows_form_of(case)
    if rf == "list":
        return [list(r) for r in rows]
    if rf == "tuple":
        return [tuple(r) for r in rows]
    return [np.array(r, dtype={"int64": np.int64, "int32": np.int32, "int16": np.int16, "uint8": np.uint8}[rf]) for r in rows]


def integral_coords(case):
    return all(abs(x) < 2 ** 40 and x == int(x) and not (x == 0 and math.copysign(1, x) < 0) for v in case["V"] for x in v)


def vertex_rows(case):
    import numpy as np
    vf = case.get("vform", "list")
    if vf == "int" and integral_coords(case):
        return [np.array([int(x) for x in v], dtype=np.int64) for v in case["V"]]
    if vf in ("numpy", "int"):
        return [np.array([float(x) for x in v], dtype=np.float64) for v in case["V"]]
    return [[float(x) for x in v] for v in case["V"]]


def build_mesh(case):
    """fresh mouette mesh of the case (attributes included)"""
    import mouette as M
    from mouette.mesh.mesh_data import RawMeshData
    raw = RawMeshData()
    raw.vertices += vertex_rows(case)
    if case["E"]:
        raw.edges += [tuple(e) for e in case["E"]]
    if case["F"]:
        raw.faces += index_rows(case, case["F"])
    if case["C"]:
        raw.cells += index_rows(case, case["C"])
    cls = {"pointcloud": M.mesh.PointCloud, "polyline": M.mesh.PolyLine, "surface": M.mesh.SurfaceMesh,
           "tets": M.mesh.VolumeMesh, "hexes": M.mesh.VolumeMesh}[case["kind"]]
    m = cls(raw)
    for a in case.get("attrs", []):
        cont = getattr(m, a["cont"], None)
        if cont is None:
            continue
        n = len(cont)
        attr = cont.create_attribute(a["name"], PYTYPE[a["type"]], a["dim"], dense=bool(a["dense"]), default_value=a["default"])
        if n == 0:
            continue
        if a["fill"] is not None:
            for i in range(n):
                attr[i] = fill_value(a["type"], a["dim"], a["fill"], i)
        for iseed, val in a["vals"]:
            attr[iseed % n] = val
    return m


def pyval(x):
    """attribute value -> plain python (scalar or list)"""
    import numpy as np
    if isinstance(x, (list, tuple, np.ndarray)):
        return [pyval(y) for y in x]
    if isinstance(x, (bool, np.bool_)):
        return bool(x)
    if isinstance(x, (int, np.integer)):
        return int(x)
    if isinstance(x, (float, np.floating)):
        return float(x)
    if isinstance(x, (complex, np.complexfloating)):
        return complex(x)
    return str(x) if isinstance(x, str) else x


def attr_table(m, case):
    """total map of every user attribute of the case as stored on mesh m: {(cont,name): [value_i]}"""
    res = {}
    for a in case.get("attrs", []):
        cont = getattr(m, a["cont"], None)
        if cont is None or not cont.has_attribute(a["name"]):
            continue
        attr = cont.get_attribute(a["name"])
        res[(a["cont"], a["name"])] = [pyval(attr[i]) for i in range(len(cont))]
    return res


def snapshot(m):
    """plain-python view of a loaded mesh; raises ValueError with a description if the object is malformed"""
    cls = type(m).__name__
    V = []
    for i, v in enumerate(m.vertices):
        try:
            V.append([float(x) for x in v])
        except Exception as e:
            raise ValueError(f"vertex {i} is not a coordinate triple: {v!r}")
    def rows(name):
        cont = getattr(m, name, None)
        if cont is None:
            return []
        out = []
        for i, r in enumerate(cont):
            try:
                out.append([int(x) for x in r])
                if any(int(x) != x for x in r):
                    raise ValueError
            except Exception:
                raise ValueError(f"{name}[{i}] is not a tuple of integer indices: {r!r}")
        return out
    E, F, C = rows("edges"), rows("faces"), rows("cells")
    hard = None
    if hasattr(m, "edges") and m.edges.has_attribute("hard_edges"):
        ha = m.edges.get_attribute("hard_edges")
        hard = [bool(ha[i]) for i in range(len(E))]
    return {"cls": cls, "V": V, "E": [tuple(e) for e in E], "F": F, "C": C, "hard": hard}


CHILD = r'''
import sys, json
sys.path.insert(0, sys.argv[1])
sys.dont_write_bytecode = True
import warnings; warnings.filterwarnings("ignore")
import mouette as M
m = M.mesh.load(sys.argv[2])
out = {"cls": type(m).__name__, "V": [[float(x) for x in v] for v in m.vertices],
       "E": [[int(x) for x in e] for e in getattr(m, "edges", [])],
       "F": [[int(x) for x in f] for f in getattr(m, "faces", [])],
       "C": [[int(x) for x in c] for c in getattr(m, "cells", [])], "hard": None}
print("RESULT" + json.dumps(out))
'''


def load_in_child(path, ctx, sig):
    """load a file in a child interpreter (a load that can abort the process). Returns a snapshot or None."""
    env = dict(os.environ, PYTHONDONTWRITEBYTECODE="1")
    try:
        p = subprocess.run([sys.executable, "-W", "ignore", "-c", CHILD, REPO, path], capture_output=True, timeout=90, env=env)
    except subprocess.TimeoutExpired:
        ctx.fail(sig + ":hangs", "loading the file in a child interpreter did not finish within 90 s")
        return None
    out = p.stdout.decode("utf-8", "replace")
    err = p.stderr.decode("utf-8", "replace").strip().split("\n")
    if p.returncode < 0 or (p.returncode != 0 and "Traceback" not in "\n".join(err)):
        ctx.fail(sig + ":crash", f"loading the file killed the interpreter (return code {p.returncode}; stderr: {' | '.join(err[-3:])[:300]})")
        return None
    if p.returncode != 0:
        ctx.fail(sig + ":raises", f"load raised in the child interpreter: {err[-1][:300]}")
        return None
    for line in out.split("\n"):
        if line.startswith("RESULT"):
            s = json.loads(line[6:])
            s["E"] = [tuple(e) for e in s["E"]]
            return s
    raise AssertionError("child produced no result: " + out[:200] + " / " + "\n".join(err)[:500])


def stl_is_risky(data):
    """True when the file has no facet or an inconsistent size: the C reader may abort the interpreter"""
    if len(data) < 84:
        return True
    (n,) = struct.unpack_from("<I", data, 80)
    return n == 0 or len(data) != 84 + 50 * n


def guarded_load(path, fmt, ctx, sig):
    """mouette.mesh.load + snapshot; returns snapshot dict or None (a failure has been reported)"""
    import mouette as M
    if fmt == "stl":
        data = open(path, "rb").read()
        head = data[:256].split(b"\n")[0].split()
        if b"solid" not in head and stl_is_risky(data):
            return load_in_child(path, ctx, sig)
    ok, m = ctx.call(sig, M.mesh.load, path)
    if not ok:
        return None
    if not ctx.check(m is not None and type(m).__name__ in CLS, sig + ":class", f"load returned {type(m).__name__}"):
        return None
    try:
        return snapshot(m), m
    except ValueError as e:
        ctx.fail(sig + ":malformed", f"loaded {type(m).__name__} is malformed: {e}")
        return None


# ================================================================================================ projection (format vocabulary)

def project(N, fmt, cfg, ignore):
    """Content of the file that saving normal-form mesh N must produce: dict(V, E (list of candidate edge lists), F, C, ...).
    Only the kinds the format expresses are kept."""
    ignore = set(ignore or [])
    E, hard, F, C = list(N["E"]), N["hard"], list(N["F"]), list(N["C"])
    if "edges" in ignore:
        E, hard = [], None
    if "faces" in ignore:
        F = []
    if "cells" in ignore:
        C = []
    declared = [e for e, h in zip(E, hard) if h] if hard is not None else list(E)
    P = {"V": N["V"], "E": [[]], "F": [], "C": [], "hard_attr": None}
    if fmt in ("obj", "mesh"):
        remaining_dim = 3 if C else 2 if F else 1 if E else 0
        if fmt == "obj":
            # edges derivable from the faces / cells that are written are left out (only the declared = hard ones are kept);
            # what remains after ignore_elements with edges as its top element kind is a polyline: all its edges are written
            if not cfg["export_edges_in_obj"]:
                cands = [[]]
            elif remaining_dim == 1 or not cfg["complete_edges_from_faces"]:
                cands = [E]
            else:
                cands = [declared]
        else:
            cands = [declared]
            if remaining_dim == 1 and hard is not None and declared != E:
                # medit keeps writing the declared edges only once the faces are dropped; the whole wireframe (what obj
                # does) is the other defensible reading -> both accepted (stated in the report, not asserted)
                cands.append(E)
        P["E"] = cands
        if fmt == "obj":
            P["F"] = F
        else:
            P["F"] = [f for f in F if len(f) == 3] + [f for f in F if len(f) == 4]
            P["C"] = [c for c in C if len(c) == 8] + [c for c in C if len(c) == 4]
    elif fmt == "geogram_ascii":
        P["E"] = [E]; P["F"] = F; P["C"] = C; P["hard_attr"] = hard
    elif fmt == "off":
        P["F"] = F
    elif fmt == "tet":
        P["C"] = C
    elif fmt == "stl":
        P["F"] = F
    return P


def stl_soup(V, F):
    """What an stl file of faces F must hold: one entry per face = list of acceptable triangle lists (coordinates rounded to
    float32). A triangle keeps its vertex order; a quad becomes two triangles along either diagonal, each in any rotation.
    None if a face has > 4 vertices."""
    def co(t):
        return [[f32(x) for x in V[v]] for v in t]
    out = []
    for f in F:
        if len(f) == 3:
            out.append({"n": 1, "exact": [co(f)]})
        elif len(f) == 4:
            a, b, c, d = f
            out.append({"n": 2, "splits": [[co((a, b, c)), co((a, c, d))], [co((b, c, d)), co((b, d, a))]]})
        else:
            return None
    return out


def rot_eq(t, u):
    return any(same_coords(t[k:] + t[:k], u) for k in range(3))


def soup_matches(tris, soup):
    """(ok, message): list of triangles (coordinate triples) against stl_soup()"""
    if len(tris) != sum(e["n"] for e in soup):
        return False, f"{len(tris)} triangles, expected {sum(e['n'] for e in soup)}"
    k = 0
    for i, e in enumerate(soup):
        if e["n"] == 1:
            if not same_coords(tris[k], e["exact"][0]):
                return False, f"triangle {k} (face {i}): corners {tris[k]}, expected {e['exact'][0]}"
        else:
            t1, t2 = tris[k], tris[k + 1]
            if not any((rot_eq(t1, s[0]) and rot_eq(t2, s[1])) or (rot_eq(t1, s[1]) and rot_eq(t2, s[0])) for s in e["splits"]):
                return False, f"triangles {k},{k + 1} (quad face {i}): {t1}, {t2} are not a split of the quad {e['splits'][0]}"
        k += e["n"]
    return True, ""


def soup_corners(soup):
    return [v for e in soup for t in (e["exact"] if e["n"] == 1 else e["splits"][0]) for v in t]


# ================================================================================================ comparisons

def _trim(x, k=40):
    """the head of big containers only (messages are built even when the check holds: keep that cheap on large cases)"""
    if isinstance(x, (list, tuple)) and len(x) > k:
        return list(x[:k]) + ["...(%d in all)" % len(x)]
    if isinstance(x, dict):
        return {a: _trim(b, k) for a, b in x.items()}
    return x


def short(x, n=260):
    s = repr(_trim(x))
    return s if len(s) <= n else s[:n] + "..."


def by_kind(rows):
    """stable partition by arity (medit stores one block per element kind: order is kept within a kind only)"""
    return sorted(rows, key=len)


def compare_loaded(ctx, pre, snap, exp, what, per_kind=False):
    """loaded mesh (snapshot) against the expected normal form. Returns True if everything agreed."""
    ok = True
    kind = by_kind if per_kind else list
    ok &= bool(ctx.check(same_coords(snap["V"], exp["V"]), pre + ":coords", f"{what}: {first_coord_diff(snap['V'], exp['V'])}"))
    ok &= bool(ctx.check(kind(snap["C"]) == kind(exp["C"]), pre + ":cells", f"{what}: cells {short(snap['C'])}, expected {short(exp['C'])}"))
    nF = exp["nF_decl"]
    okf = kind(snap["F"][:nF]) == kind(exp["F"][:nF]) and sorted(map(skey, snap["F"])) == sorted(map(skey, exp["F"]))
    ok &= bool(ctx.check(okf, pre + ":faces", f"{what}: faces {short(snap['F'])}, expected {short(exp['F'])} (first {nF} in this order, the rest as a set)"))
    nE = exp["nE_decl"]
    oke = [skey(e) for e in snap["E"][:nE]] == exp["E"][:nE] and sorted(map(skey, snap["E"])) == sorted(exp["E"]) \
        and all(a < b for a, b in snap["E"])
    ok &= bool(ctx.check(oke, pre + ":edges", f"{what}: edges {short(snap['E'])}, expected {short(exp['E'])} (first {nE} in this order, the rest as a set)"))
    if oke and (snap["hard"] is not None or exp["hard"] is not None):
        got = set(skey(e) for e, h in zip(snap["E"], snap["hard"] or []) if h)
        want = set(e for e, h in zip(exp["E"], exp["hard"] or []) if h)
        ok &= bool(ctx.check(got == want, pre + ":hard-edges", f"{what}: edges flagged hard {short(sorted(got))}, expected {short(sorted(want))}"))
    ok &= bool(ctx.check(snap["cls"] == exp["cls"], pre + ":class", f"{what}: loaded object is a {snap['cls']}, content implies {exp['cls']}"))
    return ok


def compare_soup(ctx, pre, snap, soup, what, merged, exact64=None):
    """stl: per-face corner coordinates against the expected triangle soup"""
    want_cls = "SurfaceMesh" if soup else "PointCloud"
    got = []
    nV = len(snap["V"])
    for f in snap["F"]:
        if len(f) != 3 or any(not 0 <= v < nV for v in f):
            ctx.fail(pre + ":faces", f"{what}: loaded face {f} is not a triangle over {nV} vertices")
            return False
        got.append([snap["V"][v] for v in f])
    same, msg = soup_matches(got, exact64 if exact64 is not None else soup)
    ok = bool(ctx.check(same, pre + ":soup", f"{what}: {msg}"))
    if ok and merged:
        corners = soup_corners(soup)
        lo = len(set(tuple(0.0 if x == 0 else x for x in v) for v in corners))
        hi = len(set(tuple(bits(x) for x in v) for v in corners))
        ok &= bool(ctx.check(lo <= nV <= hi, pre + ":merge", f"{what}: {nV} vertices loaded for {hi} distinct corner positions (coincident corners must be merged, nothing else)"))
    if not soup:
        ok &= bool(ctx.check(nV == 0, pre + ":coords", f"{what}: {nV} vertices loaded from a file without facets"))
    ok &= bool(ctx.check(snap["cls"] == want_cls, pre + ":class", f"{what}: loaded object is a {snap['cls']}, content implies {want_cls}"))
    return ok


def pairs(E):
    return [skey(e) for e in E]


# ================================================================================================ labels

def label_case(case, ctx, N):
    fmt, kind = case["fmt"], case["kind"]
    ctx.label("kind=" + kind)
    for t in case.get("tags", []):
        if t.startswith(("base=", "declared", "polyline=", "coords=", "unused-vertex=")):
            ctx.label(t)
    ar = sorted(set(len(f) for f in case["F"])) if kind == "surface" else []
    if ar:
        ctx.label("arity=" + ("tri" if ar == [3] else "quad" if ar == [4] else "tri+quad" if ar == [3, 4] else "polygon"))
    flat = [x for v in case["V"] for x in v]
    if any(abs(x) >= 1e100 for x in flat): ctx.label("coord:huge")
    if any(0 < abs(x) < 1e-100 for x in flat): ctx.label("coord:tiny")
    if any(0 < abs(x) < 2.3e-308 for x in flat): ctx.label("coord:subnormal")
    if any(x < 0 for x in flat): ctx.label("coord:negative")
    if any(x == 0 and math.copysign(1, x) < 0 for x in flat): ctx.label("coord:-0.0")
    if any(len(repr(x).replace("-", "").replace(".", "").split("e")[0].strip("0")) >= 16 for x in flat): ctx.label("coord:17digits")
    ctx.label("complete_edges=" + str(case["cfg"]["complete_edges_from_faces"]))
    if fmt == "obj":
        ctx.label("export_edges=" + str(case["cfg"]["export_edges_in_obj"]))
    vf = case.get("vform", "list")
    ctx.label("vertices=" + ("int-numpy" if vf == "int" and integral_coords(case) else "float-numpy" if vf in ("numpy", "int") else "float-list"))
    for a in case.get("attrs", []):
        if a["type"] == "str" and any(len(x) > 32 for _, v in a["vals"] for x in (v if isinstance(v, list) else [v])):
            ctx.label("attr:str:long>32:" + ("dense" if a["dense"] else "sparse"))
    if case["F"] or case["C"]:
        ctx.label("rows=" + rows_form_of(case))
    nf = case.get("name_form", "m")
    ctx.label("name=" + (nf if nf.isascii() else "non-ascii:" + nf.encode("ascii", "backslashreplace").decode("ascii")))
    for a in case.get("attrs", []):
        if a["type"] == "int" and any(abs(x) > 2 ** 53 for _, v in a["vals"] for x in (v if isinstance(v, list) else [v])):
            ctx.label("attr:int:>2**53:" + ("dense" if a["dense"] else "sparse") + f":x{a['dim']}")
    if case["cfg"].get("display_duplicate_attribute_warning"):
        ctx.label("cfg:duplicate-attribute-warning")
    if not case["cfg"].get("sort_neighborhoods", True):
        ctx.label("cfg:sort_neighborhoods=False")
    if case.get("ext_upper"):
        ctx.label("extension=UPPER")
    if case.get("ignore") is not None:
        ctx.label("ignore=" + "+".join(case["ignore"]))
    for a in case.get("attrs", []):
        ctx.label(f"attr:{a['type']}x{a['dim']}:{'dense' if a['dense'] else 'sparse'}")
        ctx.label("attr-on:" + a["cont"])
        if a["default"] is not None:
            ctx.label("attr:custom-default")
            ctx.label(f"attr:custom-default:x{a['dim']}:{'dense' if a['dense'] else 'sparse'}")
            aflat = [x for _, v in a["vals"] for x in (v if isinstance(v, list) else [v])]
            if any((not x) for x in aflat) and a["default"]:
                ctx.label("attr:falsy-value-vs-nonfalsy-default")
    nonint = any(x != int(x) for x in flat if abs(x) < 1e18) if flat else False
    expr = {"obj": bool(N["E"] or N["F"]), "mesh": bool(N["E"] or N["F"] or N["C"]), "geogram_ascii": bool(N["E"] or N["F"] or N["C"]),
            "off": bool(N["F"]), "tet": bool(N["C"]), "xyz": len(case["V"]) >= 2,
            "stl": any(len(f) in (3, 4) for f in N["F"])}[fmt]
    ctx.nontrivial(expr and nonint)


# ================================================================================================ oracle 1 + 2 + 4

def prelude(case, ctx):
    """Build a *different* mesh with the same element counts (mirrored coordinates, other attribute values), save and load it, then
    drop every object and collect: a result remembered per object identity / address would resurface in the case proper."""
    import gc
    import mouette as M
    ctx.label("prelude:sibling-mesh-dropped")
    sib = dict(case)
    lim = 3e38 if case["fmt"] == "stl" else 1e308
    sib["V"] = [[max(-lim, min(lim, 0.25 - x)) for x in v][::-1] for v in case["V"]][::-1]
    sib["attrs"] = [dict(a, fill=(a["fill"] or 0) + 1, vals=[[i + 1, v] for i, v in a["vals"]]) for a in case.get("attrs", [])]
    d = tempfile.mkdtemp(prefix="c04p_")
    try:
        for _ in range(2):
            ms = build_mesh(sib)
            p = file_path(d, case, "pre")
            try:
                if case.get("ignore") is None:
                    M.mesh.save(ms, p)
                else:
                    M.mesh.save(ms, p, ignore_elements=set(case["ignore"]))
                if case["fmt"] != "stl" or not stl_is_risky(open(p, "rb").read()):
                    ls = M.mesh.load(p)
                    del ls
            except Exception:
                pass            # (whatever is wrong here is reported by the case proper)
            del ms
            gc.collect()
    finally:
        shutil.rmtree(d, ignore_errors=True)


def fn_roundtrip(case, ctx):
    import mouette as M
    if not utf8_process():
        case = without_non_ascii(case)
        ctx.label("env:not-utf8(non-ascii text left out)")
    fmt = case["fmt"]
    cfg = case["cfg"]
    set_config(case)
    N = normalise(case["V"], case["E"], case["F"], case["C"], cfg["complete_edges_from_faces"])
    label_case(case, ctx, N)
    if case.get("prelude"):
        prelude(case, ctx)
    m = build_mesh(case)
    via = case.get("save_via", "direct")
    if via != "direct":
        import copy, pickle
        ctx.label("save-via=" + via)
        ok, m = ctx.call("copy:" + via, (lambda: copy.deepcopy(m)) if via == "deepcopy" else (lambda: M.mesh.copy(m, copy_attributes=True)) if via == "mesh.copy"
                         else (lambda: pickle.loads(pickle.dumps(m))))
        if not ok:
            return
    try:
        s0 = snapshot(m)
    except ValueError as e:
        if via != "direct":
            ctx.fail("copy:" + via + ":malformed", str(e))
            return
        raise AssertionError(f"built mesh malformed: {e}")
    # the normal form the harness computes must be the one the library builds (precondition of every expectation below)
    built_ok = (s0["cls"] == N["cls"] and same_coords(s0["V"], N["V"]) and list(s0["E"]) == N["E"] and s0["F"] == N["F"] and s0["C"] == N["C"]
                and [bool(h) for h in (s0["hard"] or [])] == [bool(h) for h in (N["hard"] or [])])
    if not ctx.check(built_ok, "build:normal-form", f"mesh built from raw data is not in the documented normal form: {short(s0, 400)} vs {short(N, 400)}"):
        return
    orig_attrs = attr_table(m, case)
    ignore = case.get("ignore")
    for (cont, name), vals in orig_attrs.items():
        a = [x for x in case["attrs"] if x["name"] == name][0]
        if a["type"] == "str":
            flat = [x for v in vals for x in (v if isinstance(v, list) else [v])]
            last = max([i for i, x in enumerate(flat) if x != ""], default=-1)
            for k in sorted(set(k for x in flat for k in str_classes(x))):
                ctx.label("attr:str:" + k)
                if k == "nonascii":
                    ctx.label(f"attr:str:nonascii:x{a['dim']}:{'dense' if a['dense'] else 'sparse'}")
                    if any(len(x) > 32 and not x.isascii() for x in flat):
                        ctx.label("attr:str:nonascii:long>32")
            if any(x == "" for x in flat[:last]):
                ctx.label("attr:str:empty-before-nonempty")
                ctx.label(f"attr:str:gap:x{a['dim']}:{'dense' if a['dense'] else 'sparse'}")
                ctx.label("attr:str:gap-on:" + cont)
    if ignore and case["kind"] in ("surface", "tets", "hexes") and ("faces" in ignore or "cells" in ignore):
        rem = "cells" if (N["C"] and "cells" not in ignore) else "faces" if (N["F"] and "faces" not in ignore) else "edges" if (N["E"] and "edges" not in ignore) else "vertices"
        ctx.label(f"ignore:{case['kind']}->top={rem}")
    P = project(N, fmt, cfg, ignore)
    d = tempfile.mkdtemp(prefix="c04_")
    try:
        path = file_path(d, case, "m")
        soup = stl_soup(N["V"], P["F"]) if fmt == "stl" else None
        if case.get("after_raise"):
            # a call that must fail (unsupported / unimplemented format) followed by the real one on the same mesh
            ctx.label("after-raise")
            for bad in ("bad.ply", "bad.unknownext"):
                try:
                    M.mesh.save(m, os.path.join(d, bad))
                    raised = False
                except Exception:
                    raised = True
                ctx.check(raised, "save:unsupported-accepted", f"save to '{bad}' did not raise")
            try:
                M.mesh.load(os.path.join(d, "missing." + fmt))
            except Exception:
                pass
            ctx.check(M.config.export_edges_in_obj == bool(cfg["export_edges_in_obj"]) and M.config.complete_edges_from_faces == bool(cfg["complete_edges_from_faces"]),
                      "config-changed", "a failing save / load changed a library-wide switch")
        ig_form = case.get("ig_form", "set")
        ig_arg = None if ignore is None else {"set": set, "frozenset": frozenset, "list": list, "tuple": tuple}[ig_form](ignore)
        ig_copy = None if ignore is None else type(ig_arg)(ig_arg)
        if ignore is not None:
            ctx.label("ignore-arg=" + ig_form)
        try:
            if ignore is None:
                M.mesh.save(m, path)
            else:
                M.mesh.save(m, path, ignore_elements=ig_arg)
        except ValueError as e:
            if fmt == "stl" and soup is None and "Only triangular and quad" in str(e):
                ctx.label("stl:polygon-refused")
                return
            if ignore is not None and ig_form in ("list", "tuple"):
                ctx.label("ignore-arg:non-set-rejected")
                return
            ctx.fail("save:raises", f"ValueError: {e}", exc="ValueError")
            return
        except Exception as e:
            from vlib.runner import innermost_mouette_frame, Violation, Inconclusive, HarnessError
            if isinstance(e, (Violation, HarnessError)):
                raise
            if isinstance(e, TypeError) and ignore is not None and ig_form in ("list", "tuple"):
                # the signature says `ignore_elements: set`; a list / tuple works on the pinned library (membership is all save needs),
                # a library that rejects it is within its rights ("rejected or right", DESIGN 2.6)
                ctx.label("ignore-arg:non-set-rejected")
                return
            where = innermost_mouette_frame(e.__traceback__)
            ctx.fail("save:raises", f"{type(e).__name__}: {e} (at {where})", exc=type(e).__name__, where=where)
            return
        if fmt == "stl" and soup is None:
            ctx.fail("save:polygon", "stl export of a face with more than 4 vertices neither refused nor documented")
            return
        if not ctx.check(os.path.isfile(path), "save:no-file", "save returned without writing a file"):
            return
        # saving must leave the saved mesh as it was (else 'lossless' fails on the source side)
        try:
            s1 = snapshot(m)
        except ValueError as e:
            s1 = {"malformed": str(e)}
        ctx.check(s1 == s0 and attr_table(m, case) == orig_attrs, "save:source-mesh-changed",
                  f"after save(ignore_elements={ignore}) the mesh that was saved holds {short(s1, 300)}, before {short(s0, 300)}")
        data = open(path, "rb").read()
        ctx.check(ig_arg is None or ig_arg == ig_copy, "save:argument-changed", f"save changed its ignore_elements argument to {ig_arg!r} (was {ig_copy!r})")
        second = case.get("second") or {}
        if second.get("save"):
            # the same mesh object (and the same ignore set) saved a second time must give the same file
            ctx.label("second:save")
            path2 = file_path(d, case, "again")
            ok2, _ = ctx.call("save2", (lambda: M.mesh.save(m, path2)) if ignore is None else (lambda: M.mesh.save(m, path2, ignore_elements=ig_arg)))
            if ok2 and ctx.check(os.path.isfile(path2), "save2:no-file", "second save wrote no file"):
                data2 = open(path2, "rb").read()
                ctx.check(data2 == data, "save2:differs", f"saving the same mesh a second time wrote a different file ({len(data2)} bytes vs {len(data)}): "
                          f"first difference at byte {next((i for i, (x, y) in enumerate(zip(data, data2)) if x != y), min(len(data), len(data2)))}")

        # ---------------- oracle 2: the independent reader
        Pe = P["E"][0]
        file_ok = True
        try:
            if fmt == "stl":
                r = R.read_stl(data)
                file_ok &= bool(ctx.check(r["kind"] == "binary", "file:kind", "stl file is not a consistent binary stl"))
                same, msg = soup_matches(r["tris"], soup)
                file_ok &= bool(ctx.check(same, "file:soup", f"triangles in the file: {msg}"))
            else:
                text = data.decode("utf-8")
                r = {"obj": R.read_obj, "mesh": R.read_medit, "geogram_ascii": R.read_geogram, "off": R.read_off, "tet": R.read_tet,
                     "xyz": R.read_xyz}[fmt](text)
                file_ok &= bool(ctx.check(same_coords(r["V"], P["V"]), "file:coords", f"coordinates in the file: {first_coord_diff(r['V'], P['V'])}"))
                if fmt in ("obj", "mesh", "geogram_ascii"):
                    fe = pairs(r["Edges"] if fmt == "mesh" else r["E"])
                    hit = [c for c in P["E"] if fe == c]
                    if hit:
                        Pe = hit[0]
                    file_ok &= bool(ctx.check(bool(hit), "file:edges", f"edges in the file {short(fe)}, expected {short(P['E'][0])}"
                                              + (f" (or {short(P['E'][1])})" if len(P["E"]) > 1 else "")))
                if fmt == "mesh":
                    got_f = r["Triangles"] + r["Quadrilaterals"]
                    got_c = r["Hexahedra"] + r["Tetrahedra"]
                    file_ok &= bool(ctx.check(got_f == P["F"], "file:faces", f"Triangles+Quadrilaterals in the file {short(got_f)}, expected {short(P['F'])}"))
                    file_ok &= bool(ctx.check(got_c == P["C"], "file:cells", f"Hexahedra+Tetrahedra in the file {short(got_c)}, expected {short(P['C'])}"))
                if fmt in ("obj", "geogram_ascii", "off"):
                    file_ok &= bool(ctx.check(r["F"] == P["F"], "file:faces", f"faces in the file {short(r['F'])}, expected {short(P['F'])}"))
                if fmt in ("geogram_ascii", "tet"):
                    file_ok &= bool(ctx.check(r["C"] == P["C"], "file:cells", f"cells in the file {short(r['C'])}, expected {short(P['C'])}"))
                if fmt == "xyz":
                    na = orig_attrs.get(("vertices", "normals"))
                    nok = (r["N"] is None) if na is None else (len(na) == 0 or (r["N"] is not None and same_coords(r["N"], na)))
                    file_ok &= bool(ctx.check(nok, "file:normals", f"normals in the file {short(r['N'])}, attribute {short(na)}"))
                if fmt == "geogram_ascii":
                    for (cont, name), vals in sorted(orig_attrs.items()):
                        if attr_dropped(cont, ignore) or not vals:
                            continue        # (an attribute over an empty container is an empty map: nothing to carry)
                        a = [x for x in case["attrs"] if x["name"] == name][0]
                        g = r["attrs"].get((GEO_SET[cont], name))
                        if not ctx.check(g is not None, "file:attr-missing", f"attribute {name} of {cont} is not in the file as an attribute of {GEO_SET[cont]}"):
                            file_ok = False
                            continue
                        tyok = (a["type"] == "float" and g["type"] in ("double", "float")) or (a["type"] == "int" and g["type"] in R._GEO_INT) \
                            or (a["type"] == "bool" and g["type"] == "bool")
                        rowsv = [v if isinstance(v, list) else [v] for v in vals]
                        if a["type"] in ("complex", "str") and not g["known_type"]:
                            # not a geogram type: a geogram reader skips the attribute; the text must still be the value
                            try:
                                g = dict(g, values=[[complex(x) if a["type"] == "complex" else x for x in row] for row in g["values"]])
                                tyok = True
                            except ValueError:
                                pass
                        file_ok &= bool(ctx.check(tyok and g["dim"] == a["dim"] and g["values"] == rowsv, "file:attr",
                                                  f"attribute {name} of {cont} in the file: type {g['type']} dim {g['dim']} values {short(g['values'])}; "
                                                  f"stored: {a['type']} x{a['dim']} {short(rowsv)}"))
        except R.RefFormatError as e:
            file_ok = False
            ctx.fail("file:unreadable", f"the independent {fmt} reader rejects the file mouette wrote: {e}")
        except UnicodeDecodeError as e:
            file_ok = False
            ctx.fail("file:unreadable", f"file is not text: {e}")

        # ---------------- oracle 1: load(save(m))
        res = guarded_load(path, fmt, ctx, "rt:load")
        if res is None:
            return
        snap, loaded = res if isinstance(res, tuple) else (res, None)
        if fmt == "stl":
            compare_soup(ctx, "rt", snap, soup, "load(save(m))", merged=True)
            return
        exp = normalise(P["V"], Pe, P["F"], P["C"], cfg["complete_edges_from_faces"], hard_attr=P["hard_attr"])
        same = compare_loaded(ctx, "rt", snap, exp, "load(save(m))", per_kind=(fmt == "mesh"))
        if same and loaded is not None and second.get("load"):
            second_load(ctx, path, second["load"], snap, exp, P)
            try:
                again = snapshot(loaded)
            except ValueError as e:
                again = {"malformed": str(e)}
            ctx.check(again == snap, "load2:first-changed", f"the mesh returned by the first load changed when the file was loaded again: {short(again, 300)} vs {short(snap, 300)}")

        # ---------------- oracle 4: attributes (geogram) / normals (xyz)
        if loaded is None:
            return
        for (cont, name), vals in sorted(orig_attrs.items()):
            if fmt not in ("geogram_ascii", "xyz") or attr_dropped(cont, ignore) or not vals:
                continue
            a = [x for x in case["attrs"] if x["name"] == name][0]
            lc = getattr(loaded, cont, None)
            if lc is None or len(lc) != len(vals):
                ctx.check(not same, "attr:container", f"container {cont} has {None if lc is None else len(lc)} elements after loading, {len(vals)} before")
                continue
            if not ctx.check(lc.has_attribute(name), "attr:missing", f"attribute {name} ({a['type']} x{a['dim']}) of {cont} is absent after loading"):
                continue
            la = lc.get_attribute(name)
            tn = getattr(getattr(la, "type", None), "name", None)
            if not ctx.check(tn == TYPENAME[a["type"]] and la.elemsize == a["dim"], "attr:type",
                             f"attribute {name} of {cont}: loaded as {tn} x{getattr(la, 'elemsize', None)}, saved as {TYPENAME[a['type']]} x{a['dim']}"):
                continue
            ok, got = ctx.call("attr:read", lambda: [pyval(la[i]) for i in range(len(vals))])
            if not ok:
                continue
            bad = [i for i in range(len(vals)) if not (got[i] == vals[i])]
            ctx.check(not bad, "attr:values", f"attribute {name} of {cont} ({a['type']} x{a['dim']}, {'dense' if a['dense'] else 'sparse'}, default {a['default']!r}): "
                      f"element {bad[0] if bad else None} loaded as {got[bad[0]] if bad else None!r}, saved as {vals[bad[0]] if bad else None!r}")
    finally:
        shutil.rmtree(d, ignore_errors=True)


def second_load(ctx, path, mode, snap, exp, P):
    """the same file loaded a second time in the same process, plain or with the documented options of load (dim, raw)"""
    import mouette as M
    ctx.label("second:load=" + mode)
    if mode == "raw":
        ok, r = ctx.call("load2:raw", lambda: M.mesh.load(path, raw=True))
        if not ok:
            return
        if not ctx.check(type(r).__name__ == "RawMeshData", "load2:raw", f"load(raw=True) returned a {type(r).__name__}"):
            return
        try:
            V = [[float(x) for x in v] for v in r.vertices]
            F = [[int(x) for x in f] for f in r.faces]
            C = [[int(x) for x in c] for c in r.cells]
        except Exception as e:
            ctx.fail("load2:raw", f"raw data malformed: {e}")
            return
        ctx.check(same_coords(V, P["V"]) and F == exp["F"][:exp["nF_decl"]] and C == exp["C"], "load2:raw",
                  f"load(raw=True): {len(V)} vertices, faces {short(F)}, cells {short(C)}; the file holds {len(P['V'])} vertices, faces {short(exp['F'][:exp['nF_decl']])}, cells {short(exp['C'])}")
        return
    k = None if mode == "same" else int(mode[3:])
    ok, m2 = ctx.call("load2", (lambda: M.mesh.load(path)) if k is None else (lambda: M.mesh.load(path, k)))
    if not ok:
        return
    try:
        s2 = snapshot(m2)
    except ValueError as e:
        ctx.fail("load2:malformed", f"second load (dim={k}): {e}")
        return
    d0 = CLS.index(exp["cls"])
    want = [exp["cls"]] if k is None else [CLS[k]] if k >= d0 else [CLS[k], CLS[d0]]   # (dim below the data's own: docstring and code differ, both accepted)
    ctx.check(s2["cls"] in want, "load2:class", f"second load of the same file with dim={k} gives a {s2['cls']}, expected {' or '.join(want)}")
    if s2["cls"] == snap["cls"]:
        ctx.check({x: s2[x] for x in ("V", "E", "F", "C", "hard")} == {x: snap[x] for x in ("V", "E", "F", "C", "hard")}, "load2:differs",
                  f"second load of the same file (dim={k}) differs from the first: {short(s2, 300)} vs {short(snap, 300)}")
    else:
        ctx.check(same_coords(s2["V"], snap["V"]) and s2["C"] == snap["C"] and s2["F"][:exp["nF_decl"]] == snap["F"][:exp["nF_decl"]],
                  "load2:differs", f"load(dim={k}) changed the content: {short(s2, 300)} vs {short(snap, 300)}")


# file and directory names outside ASCII ({} = the stem)
NAME_FORMS_NA = {"m\u00e9": "{}\u00e9", "\u00e9t\u00e9/m": "\u00e9t\u00e9/{}", "\u89d2 m": "\u89d2 {}"}


def file_path(d, case, stem):
    fmt = case["fmt"]
    nf = case.get("name_form", "m")
    ext = fmt.upper() if case.get("ext_upper") else fmt
    if nf == "Mixed":
        ext = fmt[:1].upper() + fmt[1:]
        nf = "m"
    if nf in NAME_FORMS_NA:
        name = NAME_FORMS_NA[nf].format(stem)
    else:
        name = nf.replace("m", stem, 1) if nf != "my mesh" else stem + " mesh"
    full = os.path.join(d, name + "." + ext)
    os.makedirs(os.path.dirname(full), exist_ok=True)
    return full


def attr_dropped(cont, ignore):
    ig = set(ignore or [])
    return (cont == "edges" and "edges" in ig) or (cont in ("faces", "face_corners") and "faces" in ig) \
        or (cont in ("cells", "cell_corners", "cell_faces") and "cells" in ig)


# ================================================================================================ oracle 3

# free text a foreign program may leave in a file (comments, names): accents, other scripts, typographic signs, beyond the BMP, combining mark
NA_TEXTS = ["cr\u00e9\u00e9 par l'\u00e9diteur", "W\u00fcrfel gr\u00f6\u00dfe", "\u043d\u0430\u0437\u0432\u0430\u043d\u0438\u0435 \u043e\u0431\u044a\u0435\u043a\u0442\u0430",
            "\u90e8\u54c1 \u89d2", "na\u00efve \u2013 \u2116 5 \u20ac", "pi\u00e8ce \U0001F600 \U0001D49C", "cafe\u0301 mode\u0300le"]
_EXP_RE = re.compile(r'(?<![\w."+-])([-+]?(?:\d+\.?\d*|\.\d+))[eE]([-+]?)(\d+)(?![\w."])')


def respell_exponents(text, mode):
    """(text, count): every number written with an exponent gets the exponent spelled another way, same decimal value:
    'E' 1.5E-07 | 'short' 1.5e-7, 1e22 | 'E-short' 1.5E-7 | 'pad3' 1.5e-007, 1e+022 (all accepted by float() / strtod)"""
    n = [0]

    def sub(m):
        mant, sign, digs = m.group(1), m.group(2), m.group(3)
        e = "E" if mode.startswith("E") else "e"
        if mode.endswith("short"):
            sign = "" if sign == "+" else sign
            digs = digs.lstrip("0") or "0"
        elif mode == "pad3":
            digs = digs.zfill(3)
        n[0] += 1
        return mant + e + sign + digs
    return _EXP_RE.sub(sub, text), n[0]


def vary_text(content, fmt, var, ctx):
    """Layout / spelling variations applied to the content the independent writer produced; none changes what the file means.
    str or bytes in, bytes out."""
    ti = var.get("text")
    txt = NA_TEXTS[ti % len(NA_TEXTS)] if ti is not None else None
    if isinstance(content, bytes) and fmt == "stl" and var.get("stl_kind") == "binary":
        if txt is not None and len(content) >= 84:
            # the 80 header bytes are free: text in UTF-8 (possibly cut inside a character) or in a one-byte code page
            enc = "utf-8" if (var.get("seed", 0) + ti) % 2 == 0 else "latin-1"
            head = ((txt + " ") * 6).encode(enc, "replace")[:80].ljust(80, b" ")
            content = head + content[80:]
            ctx.label("var:text=nonascii:stl-binary-header:" + enc)
        return content
    text = content.decode("ascii") if isinstance(content, bytes) else content
    if txt is not None:
        where = None
        if fmt == "obj":
            text = f"# {txt}\nmtllib {txt}.mtl\n" + text
            where = "obj-comment+mtllib"
            if "o object0\n" in text:
                text = text.replace("o object0\n", f"o {txt}\nusemtl {txt}\n").replace("\ng part", "\ng " + txt.split()[0] + "_")
                where += "+o+g+usemtl"
        elif fmt == "mesh":
            text = f"# {txt}\n" + text
            where = "medit-head-comment"
        elif fmt == "geogram_ascii" and var.get("comments"):
            text = re.sub(r"# c(\d+)", lambda m: "# " + txt + " " + m.group(1), text)
            where = "geogram-comments"
        elif fmt == "stl":
            text = text.replace("solid ref", "solid " + txt)
            where = "stl-ascii-solid-name"
        if where:
            ctx.label("var:text=nonascii:" + where)
    if var.get("exp"):
        text, n = respell_exponents(text, var["exp"])
        if n:
            ctx.label("var:exp=" + var["exp"])
    if var.get("tabs"):
        text = re.sub(r"(?<=\S) +(?=\S)", "\t", re.sub(r"(?m)^ +", "\t", text))
        if "\t" in text:
            ctx.label("var:tabs")
    if var.get("eol") == "crlf":
        text = text.replace("\n", "\r\n")
        ctx.label("var:eol=crlf")
    if var.get("final_newline") is False and text.endswith("\n"):
        text = text[:-2] if text.endswith("\r\n") else text[:-1]
        ctx.label("var:no-final-newline")
    return text.encode("utf-8")


def fn_ext(case, ctx):
    if not utf8_process():
        case = without_non_ascii(case)
        ctx.label("env:not-utf8(non-ascii text left out)")
    fmt = case["fmt"]
    cfg = case["cfg"]
    var = case["var"]
    set_config(case)
    V, E, F, C = case["V"], case["E"], case["F"], case["C"]
    label_case(case, ctx, normalise(V, E, F, C, cfg["complete_edges_from_faces"]))
    for k in ("blank", "spaces", "comments", "refs", "extra_blocks", "dim_two_lines"):
        if var.get(k) and k in {"obj": ("blank",), "mesh": ("blank", "refs", "extra_blocks", "dim_two_lines"), "geogram_ascii": ("comments",),
                                "off": ("blank", "spaces"), "tet": ("blank", "spaces"), "xyz": ("blank", "spaces"), "stl": ()}[fmt]:
            ctx.label("var:" + k)
    ctx.label("var:floats=" + var["floats"])
    if fmt == "obj" and var.get("groups"):
        ctx.label("var:obj-groups")
    if fmt == "off" and var.get("off_colors") and F:
        ctx.label("var:off-face-colours=" + var["off_colors"])
    d = tempfile.mkdtemp(prefix="c04_")
    try:
        path = file_path(d, case, "x")
        extra = {}
        if fmt == "obj":
            ctx.label("var:face_style=" + var["face_style"])
            text, VN, VT = R.write_obj(V, E, F, var)
            exp = normalise(V, E, F, [], cfg["complete_edges_from_faces"])
            extra = {"VN": VN, "VT": VT}
        elif fmt == "mesh":
            tris, quads = [f for f in F if len(f) == 3], [f for f in F if len(f) == 4]
            tets, hexes = [c for c in C if len(c) == 4], [c for c in C if len(c) == 8]
            text = R.write_medit(V, E, tris, quads, tets, hexes, var)
            exp = normalise(V, E, tris + quads, tets + hexes, cfg["complete_edges_from_faces"])
        elif fmt == "geogram_ascii":
            sizes = {"vertices": len(V), "edges": len(E), "faces": len(F), "face_corners": sum(len(f) for f in F), "cells": len(C),
                     "cell_corners": sum(len(c) for c in C)}
            wattrs = []
            for a in case.get("attrs", []):
                n = sizes.get(a["cont"], 0)
                if a["type"] not in ("float", "int", "bool") or n == 0:
                    continue
                zero = {"float": 0.0, "int": 0, "bool": False}[a["type"]]
                rows = [[zero] * a["dim"] for _ in range(n)]
                if a["fill"] is not None:
                    for i in range(n):
                        v = fill_value(a["type"], a["dim"], a["fill"], i)
                        rows[i] = list(v) if isinstance(v, list) else [v]
                for iseed, val in a["vals"]:
                    rows[iseed % n] = list(val) if isinstance(val, list) else [val]
                wattrs.append({"set": GEO_SET[a["cont"]], "cont": a["cont"], "name": a["name"], "type": {"float": "double", "int": "int", "bool": "bool"}[a["type"]],
                               "dim": a["dim"], "rows": rows, "pytype": a["type"]})
            text = R.write_geogram(V, E, F, C, wattrs, var)
            exp = normalise(V, E, F, C, cfg["complete_edges_from_faces"])
            extra = {"attrs": wattrs}
        elif fmt == "off":
            text = R.write_off(V, F, var)
            exp = normalise(V, [], F, [], cfg["complete_edges_from_faces"])
        elif fmt == "tet":
            text = R.write_tet(V, C, var)
            exp = normalise(V, [], [], C, cfg["complete_edges_from_faces"])
        elif fmt == "xyz":
            Nrm = None
            na = [a for a in case.get("attrs", []) if a["name"] == "normals"]
            if na and V:
                Nrm = [[0.0, 0.0, 0.0] for _ in V]
                if na[0]["fill"] is not None:
                    Nrm = [fill_value("float", 3, na[0]["fill"], i) for i in range(len(V))]
                for iseed, val in na[0]["vals"]:
                    Nrm[iseed % len(V)] = list(val)
            text = R.write_xyz(V, Nrm, var)
            exp = normalise(V, [], [], [], True)
            extra = {"N": Nrm}
        else:
            tris = []
            for f in F:
                for k in range(1, len(f) - 1):
                    tris.append([V[f[0]], V[f[k]], V[f[k + 1]]])
            ctx.label("var:stl=" + var["stl_kind"])
            if var["stl_kind"] == "ascii":
                ctx.label("var:stl-ascii-solids=" + str(var.get("solids", 1)) + ("" if len(tris) >= var.get("solids", 1) else "(some empty)"))
            if var["stl_kind"] == "binary":
                text = R.write_stl_binary(tris)
            else:
                text = R.write_stl_ascii(tris, "ref", var)
        with open(path, "wb") as f:
            f.write(vary_text(text, fmt, var, ctx))
        res = guarded_load(path, fmt, ctx, "ext:load")
        if res is None:
            return
        snap, loaded = res if isinstance(res, tuple) else (res, None)
        what = f"file written by the independent {fmt} writer"
        if fmt == "stl":
            soup32 = [{"n": 1, "exact": [[[f32(x) for x in v] for v in t]]} for t in tris]
            if var["stl_kind"] == "binary":
                compare_soup(ctx, "ext", snap, soup32, what, merged=True)
            else:
                compare_soup(ctx, "ext", snap, soup32, what, merged=False,
                             exact64=[{"n": 1, "exact": [[list(map(float, v)) for v in t]]} for t in tris])
            return
        same = compare_loaded(ctx, "ext", snap, exp, what, per_kind=(fmt == "mesh"))
        if not same or loaded is None:
            return
        # side data carried by the foreign file
        if fmt == "obj" and extra["VN"] is not None and F:
            if ctx.check(loaded.vertices.has_attribute("normals"), "ext:normals", "vn records referenced by the faces give no 'normals' vertex attribute"):
                la = loaded.vertices.get_attribute("normals")
                used = sorted(set(v for f in F for v in f))
                ok, got = ctx.call("ext:normals", lambda: [pyval(la[v]) for v in used])
                if ok:
                    ctx.check(got == [extra["VN"][v] for v in used], "ext:normals", f"vertex normals {short(got)}, file says {short([extra['VN'][v] for v in used])}")
        if fmt == "obj" and extra["VT"] is not None and F:
            if ctx.check(loaded.face_corners.has_attribute("uv_coords"), "ext:uv", "vt records referenced by the faces give no 'uv_coords' corner attribute"):
                la = loaded.face_corners.get_attribute("uv_coords")
                ok, got = ctx.call("ext:uv", lambda: [pyval(la[c]) for c in range(len(extra["VT"]))])
                if ok:
                    ctx.check(got == extra["VT"], "ext:uv", f"corner uv {short(got)}, file says {short(extra['VT'])}")
        if fmt == "xyz" and extra["N"] is not None:
            if ctx.check(loaded.vertices.has_attribute("normals"), "ext:normals", "six-column xyz file gives no 'normals' vertex attribute"):
                la = loaded.vertices.get_attribute("normals")
                ok, got = ctx.call("ext:normals", lambda: [pyval(la[v]) for v in range(len(V))])
                if ok:
                    ctx.check(same_coords(got, extra["N"]), "ext:normals", f"normals {short(got)}, file says {short(extra['N'])}")
        if fmt == "geogram_ascii":
            for a in extra["attrs"]:
                lc = getattr(loaded, a["cont"], None)
                if lc is None or len(lc) < len(a["rows"]):
                    ctx.fail("ext:attr-container", f"container {a['cont']} has {None if lc is None else len(lc)} elements, the file gives {len(a['rows'])} attribute rows")
                    continue
                if not ctx.check(lc.has_attribute(a["name"]), "ext:attr-missing", f"attribute {a['name']} of {a['cont']} is absent after loading"):
                    continue
                la = lc.get_attribute(a["name"])
                tn = getattr(getattr(la, "type", None), "name", None)
                if not ctx.check(tn == TYPENAME[a["pytype"]] and la.elemsize == a["dim"], "ext:attr-type",
                                 f"attribute {a['name']}: loaded as {tn} x{getattr(la, 'elemsize', None)}, file says {a['type']} x{a['dim']}"):
                    continue
                ok, got = ctx.call("ext:attr-read", lambda: [pyval(la[i]) for i in range(len(a["rows"]))])
                if ok:
                    got = [g if isinstance(g, list) else [g] for g in got]
                    ctx.check(got == a["rows"], "ext:attr-values", f"attribute {a['name']} of {a['cont']}: loaded {short(got)}, file says {short(a['rows'])}")
    finally:
        shutil.rmtree(d, ignore_errors=True)


# ================================================================================================ registration

NAMES = {"obj": "obj", "mesh": "medit", "geogram_ascii": "geogram", "off": "off", "tet": "tet", "xyz": "xyz", "stl": "stl"}
# ================================================================================================ size regime: files of several MiB

# vertices needed for a file comfortably above 1 MiB (and above 2 MiB for the larger class), per format
LARGE_NV = {"obj": 20000, "mesh": 20000, "geogram_ascii": 15000, "off": 21000, "tet": 24000, "xyz": 30000, "stl": 15000}


@st.composite
def large_case(draw):
    fmt = draw(st.sampled_from(FORMATS))
    nv = int(LARGE_NV[fmt] * draw(st.sampled_from([1.0, 1.0, 1.0, 1.9])))
    nu = draw(st.integers(40, 220))
    return {"fmt": fmt, "large": {"nu": nu, "nv": max(2, -(-nv // nu)), "tri": draw(st.booleans()) or fmt == "off",   # (off: triangles, see F-C04-1)
                                  "box": draw(st.integers(4, 9)), "scale": draw(st.sampled_from([1.0, 1 / 3, 1e-7, 12345.678])),
                                  "mix": draw(st.integers(1, 50))},
            "cfg": {"export_edges_in_obj": True, "complete_edges_from_faces": draw(st.sampled_from([True, True, False]))},
            "var": {"blank": False, "spaces": False, "floats": draw(st.sampled_from(["repr", "17g"])), "seed": draw(st.integers(0, 11)),
                    "face_style": draw(st.sampled_from(["v", "v//vn"])), "dim_two_lines": False, "refs": draw(st.booleans()), "extra_blocks": False,
                    "comments": False, "end": True, "stl_kind": draw(st.sampled_from(["binary", "ascii"])), "indent": True,
                    "solids": draw(st.sampled_from([1, 2])), "groups": draw(st.booleans()),
                    "eol": draw(st.sampled_from(["lf", "crlf"])), "tabs": draw(st.sampled_from([False, False, True])),
                    "final_newline": draw(st.booleans())},
            "vform": draw(st.sampled_from(["list", "numpy"]))}


def realise_large(rec):
    """the full case of a large-file recipe: a nu x nv grid surface (quads or triangles) with 17-digit coordinates; for .tet (and
    half of the medit cases) a Kuhn-subdivided box of tetrahedra followed by as many free vertices as the size needs"""
    L = rec["large"]
    nu, nv, s, mix = L["nu"], L["nv"], L["scale"], L["mix"]
    fmt = rec["fmt"]
    V = [[(i * 0.1 + ((i * j) % 7) / 3.0) * s, (j / 3.0 - 5.0) * s, (((i * 31 + j * 17 + mix) % 101) / 7.0) * s] for j in range(nv) for i in range(nu)]
    E, F, C = [], [], []
    kind = "surface"
    if fmt == "xyz":
        kind = "pointcloud"
    elif fmt == "tet" or (fmt == "mesh" and mix % 2 == 0):
        kind = "tets"
        b = L["box"]
        def vid(i, j, k):
            return (k * (b + 1) + j) * (b + 1) + i
        for k in range(b):
            for j in range(b):
                for i in range(b):
                    c = [vid(i + di, j + dj, k + dk) for dk in (0, 1) for dj in (0, 1) for di in (0, 1)]
                    for p in ((1, 3), (1, 5), (2, 3), (2, 6), (4, 5), (4, 6)):        # the six tetrahedra around the diagonal 0-7
                        C.append([c[0], c[p[0]], c[p[1]], c[7]])
        for k in range(b + 1):
            for j in range(b + 1):
                for i in range(b + 1):
                    V[vid(i, j, k)] = [i * s * 1.1, j * s / 3.0, k * s * 0.7]
    else:
        for j in range(nv - 1):
            for i in range(nu - 1):
                a = j * nu + i; b_, c, d = a + 1, a + nu + 1, a + nu
                if L["tri"]:
                    F += [[a, b_, c], [a, c, d]]
                else:
                    F.append([a, b_, c, d])
        E = [[1, 0], [nu, 0], [len(V) - 1, len(V) - 2]]
    return {"fmt": fmt, "kind": kind, "V": V, "E": E, "F": F, "C": C, "cfg": rec["cfg"], "ignore": None, "attrs": [], "var": rec["var"],
            "ext_upper": False, "vform": rec.get("vform", "list"), "second": {"save": False, "load": "same" if mix % 3 == 0 else None},
            "ig_form": "set", "tags": []}


# ---- element counts sampled sparsely over a wide range (powers of two and their neighbours: 255, 256, 257, 512, 65536 ...)

COUNTS = [253, 254, 255, 256, 257, 511, 512, 513, 768, 1024, 1280, 2048, 4096, 4097, 65535, 65536, 65537]


@st.composite
def counts_case(draw):
    fmt = draw(st.sampled_from(["stl", "stl", "stl", "obj", "mesh", "geogram_ascii", "off", "tet", "xyz"]))
    n = draw(st.one_of(st.sampled_from(COUNTS[:14]), st.sampled_from(COUNTS[:14]), st.integers(1, 3000), st.integers(1, 40).map(lambda k: 256 * k)))
    big = draw(st.integers(0, 39)) == 23       # 65535 .. 65537 elements: each such case costs 5 - 20 s, so about 1 case in 40 (23: not a value Hypothesis favours)
    if big:
        n = draw(st.sampled_from(COUNTS[14:]))
    return {"fmt": fmt, "strip": {"n": n, "quads": draw(st.booleans()) and fmt != "off" and not big, "scale": draw(st.sampled_from([1.0, 1 / 3, 1e-5]))},
            "cfg": {"export_edges_in_obj": True, "complete_edges_from_faces": draw(st.sampled_from([True, True, False]))},
            "var": {"blank": False, "spaces": False, "floats": "repr", "seed": draw(st.integers(0, 11)), "face_style": "v", "dim_two_lines": False,
                    "refs": False, "extra_blocks": False, "comments": False, "end": True, "stl_kind": draw(st.sampled_from(["binary", "binary", "ascii"])),
                    "indent": False, "solids": draw(st.sampled_from([1, 2])), "groups": False, "off_colors": draw(st.sampled_from([None, "rgb"]))},
            "rows_form": draw(st.sampled_from(["list", "int32", "uint8"]))}


def realise_strip(rec):
    """a strip with exactly n elements: n triangles (n+2 vertices) or n quads (2n+2 vertices) for the surface formats - stl then
    holds n resp. 2n facets -, a chain of n tetrahedra for .tet, n points for .xyz"""
    fmt, n, s = rec["fmt"], rec["strip"]["n"], rec["strip"]["scale"]
    E, F, C = [], [], []
    if fmt == "xyz":
        kind, nv = "pointcloud", n
    elif fmt == "tet":
        kind, nv = "tets", n + 3
        C = [[i, i + 1, i + 2, i + 3] if i % 2 == 0 else [i + 1, i, i + 2, i + 3] for i in range(n)]
    elif rec["strip"]["quads"]:
        kind, nv = "surface", 2 * n + 2
        F = [[2 * i, 2 * i + 2, 2 * i + 3, 2 * i + 1] for i in range(n)]
    else:
        kind, nv = "surface", n + 2
        F = [[i, i + 1, i + 2] if i % 2 == 0 else [i + 1, i, i + 2] for i in range(n)]
    V = [[(i // 2) * s * 0.7, (i % 2) * s + ((i * 13) % 11) * s / 9.0, ((i * 29) % 17) * s / 3.0] for i in range(nv)]
    return {"fmt": fmt, "kind": kind, "V": V, "E": E, "F": F, "C": C, "cfg": rec["cfg"], "ignore": None, "attrs": [], "var": rec["var"],
            "ext_upper": False, "vform": "list", "rows_form": rec.get("rows_form", "list"), "second": {"save": False, "load": None},
            "ig_form": "set", "tags": []}


def count_label(n):
    return "=256k" if n % 256 == 0 else "=256k+-1" if (n + 1) % 256 == 0 or (n - 1) % 256 == 0 else "other"


def fn_counts(case, ctx):
    full = realise_strip(case)
    fn_roundtrip(full, ctx)
    nf = len(full["F"]) * (2 if case["strip"]["quads"] else 1)
    ctx.label(f"count:{case['fmt']}:{count_label(nf if case['fmt'] == 'stl' else case['strip']['n'])}")
    if case["strip"]["n"] >= 65535:
        ctx.label("count:>=65535")


def fn_counts_ext(case, ctx):
    full = realise_strip(case)
    fn_ext(full, ctx)
    ctx.label(f"count:{case['fmt']}:{count_label(case['strip']['n'])}")
    if case["strip"]["n"] >= 65535:
        ctx.label("count:>=65535")


# ---- more than 65536 entries in one field, every text format, in every quick run: a point cloud is the cheapest mesh that has them

@st.composite
def counts_big_case(draw):
    # (the first example of every shard is the simplest one = 65537 points)
    return {"n": draw(st.sampled_from([65537, 65536, 65538])), "scale": draw(st.sampled_from([1.0, 1 / 3, 1e-5])),
            "fmt": "all-text-formats"}


def fn_counts_big(case, ctx):
    ctx.label(f"count-big:points={case['n']}")
    ctx.nontrivial(True)
    for fmt in ("mesh", "obj", "geogram_ascii", "off", "tet", "xyz"):
        rec = {"fmt": "xyz", "strip": {"n": case["n"], "quads": False, "scale": case["scale"]},
               "cfg": {"export_edges_in_obj": True, "complete_edges_from_faces": True},
               "var": {"blank": False, "spaces": False, "floats": "repr", "seed": 0, "face_style": "v", "dim_two_lines": False, "refs": False,
                       "extra_blocks": False, "comments": False, "end": True, "stl_kind": "binary", "indent": False, "solids": 1, "groups": False,
                       "off_colors": None}}
        full = realise_strip(rec)
        full["fmt"] = fmt
        fn_roundtrip(full, ctx)     # (mouette's writer and reader both; foreign files of this size are the business of large_ext)


def fn_large(case, ctx):
    full = realise_large(case)
    ctx.label("large:" + case["fmt"])
    fn_roundtrip(full, ctx)
    ctx.label("large:rt:" + case["fmt"] + (":>2MiB" if case["large"]["nu"] * case["large"]["nv"] > 1.5 * LARGE_NV[case["fmt"]] else ":>1MiB"))


def fn_large_ext(case, ctx):
    full = realise_large(case)
    ctx.label("large:" + case["fmt"])
    fn_ext(full, ctx)
    ctx.label("large:ext:" + case["fmt"] + (":>2MiB" if case["large"]["nu"] * case["large"]["nv"] > 1.5 * LARGE_NV[case["fmt"]] else ":>1MiB"))


SUBCHECKS = []
# (off last: a shard stops at its first failing sub-check, and off carries the quad/tetrahedron dialect finding)
for _f in ["obj", "mesh", "geogram_ascii", "tet", "xyz", "stl", "off"]:
    SUBCHECKS.append(SubCheck(NAMES[_f], case_strategy(_f), fn_roundtrip, quick=160 if _f == "stl" else 240, thorough=1500))
    SUBCHECKS.append(SubCheck(NAMES[_f] + "_ext", case_strategy(_f), fn_ext, quick=96 if _f == "stl" else 176, thorough=1000))
# files well above any plausible buffer / chunk size of the readers and writers (1 - 5 MiB); few cases, each costs seconds
SUBCHECKS.insert(0, SubCheck("counts_big", counts_big_case(), fn_counts_big, quick=8, thorough=3, watchdog=(300, 600)))
SUBCHECKS.insert(0, SubCheck("counts_ext", counts_case(), fn_counts_ext, quick=32, thorough=60, watchdog=(180, 400)))
SUBCHECKS.insert(0, SubCheck("counts", counts_case(), fn_counts, quick=48, thorough=80, watchdog=(180, 400)))
SUBCHECKS.insert(0, SubCheck("large_ext", large_case(), fn_large_ext, quick=16, thorough=12, watchdog=(180, 400)))
SUBCHECKS.insert(0, SubCheck("large", large_case(), fn_large, quick=16, thorough=12, watchdog=(180, 400)))


# ---------------------------------------------------------------------------------------------- proposed known findings

_ELEMENT_SIGS = {"cells", "faces", "edges", "hard-edges", "class"}


def kf_off_quad_read_as_tet(case, violation):
    """OFF: the exporter writes a 4-vertex face as the line '4 a b c d', the importer reads every such line as a
    tetrahedron (its docstring documents that dialect), so a surface with quads comes back as a VolumeMesh.
    Narrow: format off, a quad is among the faces written, symptom = elements / class differ (never coordinates)."""
    if case.get("fmt") != "off":
        return False
    pre, _, what = violation.signature.partition(":")
    if what not in _ELEMENT_SIGS:
        return False
    if pre == "ext":
        return any(len(f) == 4 for f in case.get("F", []))
    if pre == "rt":
        if "faces" in (case.get("ignore") or []):
            return False
        # (the quad faces completed from hexahedra when the mesh was built are written too)
        return any(len(c) == 8 for c in case.get("C", [])) or any(len(f) == 4 for f in case.get("F", []))
    return False


def kf_geogram_text_attribute(case, violation):
    """geogram_ascii: complex / str attributes are exported with element size 'None' and cannot be read back (only relevant
    if fix C04-7 is not taken). Narrow: format geogram, the mesh carries a complex or str attribute, symptom = the file is
    unreadable / load raises."""
    if case.get("fmt") != "geogram_ascii":
        return False
    if not any(a.get("type") in ("complex", "str") for a in case.get("attrs", [])):
        return False
    return violation.signature in ("file:unreadable", "rt:load:raises")


MATCHERS = {"kf_off_quad_read_as_tet": kf_off_quad_read_as_tet, "kf_geogram_text_attribute": kf_geogram_text_attribute}
