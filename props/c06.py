"""C06 - value semantics: copy, merge and transforms never alias (history-driven)."""
import os, math, tempfile, shutil, copy as _copy
import numpy as np
from hypothesis import strategies as st
from vlib.runner import SubCheck
from vlib import gen_surface as G, gen_tets as GT
from vlib.topo import key
from vlib.build import ints

PROPERTY = "C06"
RULE = ("Generated histories over a pool of meshes, each shadowed by a model (coordinate array + element lists) kept by the "
        "harness. Producers: constructors, from_arrays (two meshes may be built from the same numpy array), save+load, "
        "procedural generators (incl. the open ring), merge (lists with repeats and mixed classes), copy (all flag "
        "combinations), boundary extraction (surface and volume), subdivision results. Operations: translate, rotate (matrix / "
        "Euler / Rotation, with origin), scale, scale_xyz, normalize, fit_into_unit_cube, translate_to_origin, flatten, "
        "inverse round trips, in-place and rebinding coordinate edits, vertex append, attribute writes, connectivity queries. "
        "Options and scalar arguments are spelled the ways callers spell them: boolean options (normalize's center_at_zero, copy's "
        "copy_attributes / copy_connectivity) as the Python singleton, a numpy.bool_ (result of a numpy comparison), 0 / 1, each "
        "positionally or by keyword, or left out (default); scale factors as float / int / numpy.float64; flatten's axis as int / "
        "numpy.int64; Euler angles as list or tuple. Attributes (5 kinds: float / int / bool scalars, float 2- and 3-vectors, sparse "
        "and dense storage) are created, written, edited in place (component of a stored vector) and deleted on ANY container of a "
        "mesh - vertices, edges, faces, cells and the corner containers face_corners, cell_corners, cell_faces - and are part of the "
        "model: a copy made with copy_attributes carries all of them with equal values, a copy made without carries none, and no later "
        "attribute operation on one mesh may show on another one. 'copy scenarios' (attribute writes, copy, then an attribute / "
        "element-record / coordinate edit of the copy or of its source) make edits right after a copy frequent. "
        "After EVERY step every mesh of the pool must equal its model (bit-for-bit when it was not the target); every produced mesh's "
        "corner / cell-face records must list its own elements; element lists handed out by a copy are edited in place and the "
        "source's lists re-read. non-trivial = "
        "the history applies a transform or edit to a mesh derived from (or source of) another mesh still in the pool; "
        "distinct = distinct histories.")
ASSUMPTIONS = ["normalize is only applied to meshes with non-zero extent", "rotation parameters are finite; scale factors in [0.1, 10]",
               "after a subdivision the source object is dropped from the pool (C13 covers its state)",
               "truthy / falsy option values are limited to bool, numpy.bool_ and the integers 1 / 0; integer scale factors are the integral ones of the factor list",
               "generated attributes are not modelled on loaded meshes and subdivision results (and their copies); merge and boundary extraction are "
               "not assumed to carry or to drop attributes (only that attribute operations on their result never show on their inputs)",
               "a copy made without copy_attributes carries no attribute (docstring of mesh.copy)"]

TOL = 1e-11   # relative to max(1e-30, largest model coordinate), see verify()


# ------------------------------------------------------------------ strategies

small = st.integers(-8, 8).map(lambda k: k / 4)
vec3 = st.tuples(small, small, small).map(list)
angle = st.integers(-12, 12).map(lambda k: k * math.pi / 12 + 0.01 * k)
factor = st.sampled_from([0.5, 2.0, 0.25, 4.0, 1.5, 3.0, 0.1, 10.0, -1.0, -2.0])
# how a boolean option is spelled by the caller: the Python singleton, a numpy.bool_ (what a numpy comparison / reduction yields), 0 / 1,
# each positionally or by keyword ("kw-"); "default" = the option is left out (only used where the wanted value is the default)
FLAG_FORMS = ["literal", "numpy", "int", "kw-literal", "kw-numpy", "kw-int"]
flagform = st.sampled_from(FLAG_FORMS)
# attributes: one fixed name per kind (type, values per element, dense storage)
ATTR_KINDS = {"f1s": (float, 1, False), "f2d": (float, 2, True), "i1d": (int, 1, True), "b1s": (bool, 1, False), "f3s": (float, 3, False)}
ATTR_TAGS = sorted(ATTR_KINDS)
CONTAINERS = ["vertices", "edges", "faces", "face_corners", "cells", "cell_corners", "cell_faces"]
attr_mode = st.sampled_from(["write", "write", "inplace", "inplace", "delete"])


@st.composite
def attr_op(draw, i, reuse=None, mode=None):
    # [op, mesh, container selector, kind selector, reuse an attribute the mesh already carries, element selector, value, mode]
    return ["attr_any", i, draw(st.integers(0, 20)), draw(st.integers(0, len(ATTR_TAGS) - 1)), draw(st.booleans()) if reuse is None else reuse,
            draw(st.integers(0, 200)), draw(vec3), draw(attr_mode) if mode is None else mode]


@st.composite
def spec(draw):
    kind = draw(st.sampled_from(["surface", "surface", "tets", "polyline", "points", "hexes"]))
    if kind == "hexes":
        a, b = draw(st.integers(1, 2)), draw(st.integers(1, 2))
        idx = lambda i, j, k: (k * (b + 1) + j) * (a + 1) + i
        V = [[float(i), float(j), float(k)] for k in range(2) for j in range(b + 1) for i in range(a + 1)]
        C = [[idx(i, j, 0), idx(i + 1, j, 0), idx(i + 1, j + 1, 0), idx(i, j + 1, 0), idx(i, j, 1), idx(i + 1, j, 1), idx(i + 1, j + 1, 1), idx(i, j + 1, 1)]
             for j in range(b) for i in range(a)]
        return {"kind": kind, "V": V, "E": [], "F": [], "C": C}
    if kind == "surface":
        s = draw(G.surfaces(max_faces=14, max_ops=2, allow_sum=False))
        return {"kind": kind, "V": s["V"], "E": [], "F": s["F"], "C": []}
    if kind == "tets":
        t = draw(GT.tets(max_cells=8))
        return {"kind": kind, "V": t["V"], "E": [], "F": [], "C": t["C"]}
    n = draw(st.integers(2, 6))
    V = [draw(vec3) for _ in range(n)]
    if kind == "polyline":
        return {"kind": kind, "V": V, "E": [[i, i + 1] for i in range(n - 1)], "F": [], "C": []}
    return {"kind": kind, "V": V, "E": [], "F": [], "C": []}


PROC = ["triangle", "quad", "unit_grid", "tetrahedron_vol", "tetrahedron", "cube", "octahedron", "ring_open", "ring_closed", "flat_ring",
        "chain", "chain_loop", "icosphere0", "cylinder", "torus"]


@st.composite
def history(draw):
    specs = draw(st.lists(spec(), min_size=1, max_size=3))
    ops = []
    n_pool = 0
    producers = ["build", "from_arrays", "procedural"]
    for _ in range(draw(st.integers(2, 25))):
        choices = list(producers)
        if n_pool:
            choices += ["merge", "copy", "copy", "boundary", "load", "subdiv", "translate", "translate", "rotate", "scale", "scale_xyz",
                        "normalize", "fit", "to_origin", "flatten", "edit_inplace", "edit_rebind", "append_vertex", "attr_write",
                        "query", "roundtrip", "translate", "merge", "add_face", "add_face", "rotate_record", "rotate_record", "bad_call",
                        "attr_any", "attr_any", "copy_scenario", "copy_scenario"]
        op = draw(st.sampled_from(choices))
        i = draw(st.integers(0, 50))
        if op == "build":
            ops.append([op, draw(st.integers(0, len(specs) - 1))]); n_pool += 1
        elif op == "from_arrays":
            ops.append([op, draw(st.integers(0, len(specs) - 1)), draw(st.booleans())]); n_pool += 1
        elif op == "procedural":
            ops.append([op, draw(st.sampled_from(PROC)), draw(st.integers(3, 6)), draw(vec3)]); n_pool += 1
        elif op == "merge":
            ops.append([op, draw(st.lists(st.integers(0, 50), min_size=1, max_size=3))]); n_pool += 1
        elif op == "copy":
            # last field: the source is asked for its border / interior element lists BEFORE it is copied (0 = no, else which lists)
            ops.append([op, i, draw(st.booleans()), draw(st.booleans()), draw(st.sampled_from([0, 0, 1, 2, 3])), draw(flagform)]); n_pool += 1
        elif op == "attr_any":
            ops.append(draw(attr_op(i)))
        elif op == "copy_scenario":
            # attributes are written on a mesh, the mesh is copied, then the copy (-1 = newest mesh of the pool) or the source (-2 = source
            # of the latest copy) is edited: an attribute is written / edited in place / deleted, an element record or a vertex is
            # edited in place
            with_attr = draw(st.sampled_from([True, True, False]))
            ops.append(draw(attr_op(i, reuse=draw(st.sampled_from([False, False, True])), mode="write")))
            if draw(st.booleans()):
                ops.append(draw(attr_op(i, reuse=False, mode="write")))
            ops.append(["copy", i, with_attr, draw(st.booleans()), 0, draw(flagform)]); n_pool += 1
            for _ in range(draw(st.integers(1, 2))):
                j = draw(st.sampled_from([-1, -2]))
                what = draw(st.sampled_from(["attr", "attr", "record", "vertex"] if with_attr else ["attr", "record", "record", "vertex"]))
                if what == "attr":
                    ops.append(draw(attr_op(j, reuse=True)))
                elif what == "record":
                    ops.append(["rotate_record", j, draw(st.integers(0, 50)), "faces"])
                else:
                    ops.append(["edit_inplace", j, draw(st.integers(0, 50)), draw(st.integers(0, 2)), draw(small)])
        elif op == "boundary":
            ops.append([op, i, draw(st.booleans())]); n_pool += 1
        elif op == "load":
            ops.append([op, i, draw(st.sampled_from(["mesh", "obj", "geogram_ascii"]))]); n_pool += 1
        elif op == "subdiv":
            ops.append([op, i])
        elif op == "translate":
            ops.append([op, i, draw(vec3), draw(st.sampled_from(["vec", "numpy", "list"]))])
        elif op == "rotate":
            ops.append([op, i, draw(st.sampled_from(["euler", "euler_tuple", "matrix", "rotation"])), [draw(angle), draw(angle), draw(angle)],
                        draw(st.one_of(st.none(), vec3))])
        elif op == "scale":
            ops.append([op, i, draw(factor), draw(st.one_of(st.none(), vec3)), draw(st.sampled_from(["float", "float", "int", "numpy"]))])
        elif op == "scale_xyz":
            ops.append([op, i, [draw(factor), draw(factor), draw(factor)], draw(st.one_of(st.none(), vec3))])
        elif op == "normalize":
            ops.append([op, i, draw(st.booleans()), draw(st.sampled_from(FLAG_FORMS + ["default"]))])
        elif op in ("fit", "to_origin", "query"):
            ops.append([op, i])
        elif op == "add_face":
            ops.append([op, i, draw(st.integers(0, 50)), draw(vec3)])
        elif op == "rotate_record":
            ops.append([op, i, draw(st.integers(0, 50)), draw(st.sampled_from(["faces", "cells_swap"]))])
        elif op == "bad_call":
            ops.append([op, i, draw(st.integers(0, 5))])
        elif op == "flatten":
            ops.append([op, i, draw(st.sampled_from([None, 0, 1, 2])), draw(st.sampled_from(["int", "numpy"]))])
        elif op == "edit_inplace":
            ops.append([op, i, draw(st.integers(0, 50)), draw(st.integers(0, 2)), draw(small)])
        elif op == "edit_rebind":
            ops.append([op, i, draw(st.integers(0, 50)), draw(vec3)])
        elif op == "append_vertex":
            ops.append([op, i, draw(vec3)])
        elif op == "attr_write":
            ops.append([op, i, draw(st.integers(0, 50)), draw(small)])
        elif op == "roundtrip":
            ops.append([op, i, draw(st.sampled_from(["translate", "rotate", "scale"])), draw(vec3), [draw(angle), draw(angle), draw(angle)], draw(factor)])
    return {"specs": specs, "ops": ops, "scale": draw(st.sampled_from([1.0, 1.0, 1.0, 1e-12, 1e-9, 1e-6, 1e-3, 1e3, 1e6]))}


# ------------------------------------------------------------------ model

class Model:
    def __init__(self, V, E, F, C, cls):
        self.V = np.array(V, dtype=float).reshape(-1, 3)
        self.E = [tuple(e) for e in E]
        self.F = [tuple(f) for f in F]
        self.C = [tuple(c) for c in C]
        self.cls = cls
        self.attr = None         # model of the test attribute on vertices: dict index -> float
        self.family = set()      # ids of meshes this one was derived from / is source of
        self.attrs = {}          # model of the generated attributes: (container, kind tag) -> {element index -> value}
        self.attrs_known = False # the mesh can carry no generated attribute but the modelled ones (fresh mesh, or copy of such a mesh)
        self.no_attrs = False    # attributes of this mesh are another property's business (loaded file, subdivision result)


def read_mesh(m):
    V = np.array([[float(x) for x in v] for v in m.vertices], dtype=float).reshape(-1, 3)
    E = [tuple(ints(e)) for e in m.edges] if hasattr(m, "edges") else []
    F = [tuple(ints(f)) for f in m.faces] if hasattr(m, "faces") else []
    C = [tuple(ints(c)) for c in m.cells] if hasattr(m, "cells") else []
    return V, E, F, C


def corner_records(m):
    out = {}
    for name in ("face_corners", "cell_corners", "cell_faces"):
        if hasattr(m, name):
            c = getattr(m, name)
            out[name] = ([int(x) for x in c._elem] if hasattr(c, "_elem") else None, [int(x) for x in c._adj] if hasattr(c, "_adj") else None)
    return out


def flagval(v, form):
    f = form[3:] if form.startswith("kw-") else form
    if f == "numpy":
        return np.array([1, 2, 3]).sum() > (0 if v else 100)     # a numpy.bool_, as a comparison / reduction yields it
    if f == "int":
        return 1 if v else 0
    return bool(v)


def attr_default(tag):
    typ, n, _ = ATTR_KINDS[tag]
    d = {float: 0.0, int: 0, bool: False}[typ]
    return d if n == 1 else [d] * n


def read_attr(m, cont, tag):
    c = getattr(m, cont)
    at = c.get_attribute("c06_" + tag)
    out = []
    for i in range(len(c)):
        x = at[i]
        out.append(x.tolist() if hasattr(x, "tolist") else x)
    return out


def snapshot(m):
    V, E, F, C = read_mesh(m)
    mdl = Model(V, E, F, C, type(m).__name__)
    if m.vertices.has_attribute("c06"):      # carried over from the object this one was produced from
        at = m.vertices.get_attribute("c06")
        mdl.attr = {i: float(at[i]) for i in range(len(V)) if float(at[i]) != 0.0}
    return mdl


def euler_matrix(a):
    ax, ay, az = a
    Rx = np.array([[1, 0, 0], [0, math.cos(ax), -math.sin(ax)], [0, math.sin(ax), math.cos(ax)]])
    Ry = np.array([[math.cos(ay), 0, math.sin(ay)], [0, 1, 0], [-math.sin(ay), 0, math.cos(ay)]])
    Rz = np.array([[math.cos(az), -math.sin(az), 0], [math.sin(az), math.cos(az), 0], [0, 0, 1]])
    return Rz @ Ry @ Rx     # extrinsic x, then y, then z  (scipy "xyz")


def fn(case, ctx):
    # uniform scale of every generated coordinate (the model's tolerances are relative to the data)
    sc = case.get("scale", 1.0)
    if sc != 1.0:
        case = dict(case, specs=[dict(sp, V=[[x * sc for x in v] for v in sp["V"]]) for sp in case["specs"]])
        ctx.label("scale=%g" % sc)
    import mouette as M
    from mouette.mesh.mesh_data import RawMeshData
    from mouette.geometry import transform as T
    from mouette.geometry import Vec
    from scipy.spatial.transform import Rotation
    pool = []      # list of (mesh, model)
    arrays = {}    # spec index -> numpy array handed to from_arrays (+ pristine copy)
    uid = [0]

    def records_ok(m, model, where):
        # the derived corner records of a produced mesh describe ITS elements: one corner per (face, vertex) / (cell, vertex) in
        # order, one cell-face record per face of each cell (a merge of two volumes must carry the records of both)
        F, C = model.F, model.C
        if hasattr(m, "face_corners") and F:
            fc = m.face_corners
            exp = [(v, i) for i, f in enumerate(read_mesh(m)[2]) for v in f]
            got = [(int(fc.element(k)), int(fc.adj(k))) for k in range(len(fc))]
            ctx.check(got == exp, "records:face_corners", f"{where}: face corners (vertex, face) {got[:6]}.. ({len(got)}) do not list the faces' vertices {exp[:6]}.. ({len(exp)})")
        if hasattr(m, "cell_corners") and C:
            cc = m.cell_corners
            exp = [(v, i) for i, c in enumerate(C) for v in c]
            got = [(int(cc.element(k)), int(cc.adj(k))) for k in range(len(cc))]
            ctx.check(got == exp, "records:cell_corners", f"{where}: cell corners (vertex, cell) {got[:6]}.. ({len(got)}) do not list the cells' vertices ({len(exp)} expected)")
            cf = m.cell_faces
            nface = {4: 4, 8: 6, 5: 5, 6: 5}
            expn = sum(nface.get(len(c), 0) for c in C)
            Fm = read_mesh(m)[2]
            good = len(cf) == expn
            if good:
                for k in range(len(cf)):
                    f, c = int(cf.element(k)), int(cf.adj(k))
                    if not (0 <= c < len(C) and 0 <= f < len(Fm) and set(Fm[f]) <= set(C[c])):
                        good = False
                        break
            ctx.check(good, "records:cell_faces", f"{where}: {len(cf)} cell-face records for {len(C)} cells ({expn} expected), or a record that is not a face of its cell")

    def add(m, model, parents=()):
        if not getattr(model, "no_conn", False):
            try:
                records_ok(m, model, f"mesh produced at step {uid[0]}")
            except Exception as e:
                if type(e).__name__ in ("Violation", "HarnessError", "Inconclusive", "MalformedAnswer"):
                    raise
                ctx.fail("records:unreadable", f"corner records of a produced mesh cannot be read: {type(e).__name__}: {e}")
        model.id = uid[0]; uid[0] += 1
        for p in parents:
            model.family.add(p.id); p.family.add(model.id)
        pool.append((m, model))
        if len(pool) > 7:
            pool.pop(0)

    def verify(where, target=None, opmag=None):
        for (m, mdl) in pool:
            try:
                V, E, F, C = read_mesh(m)
            except Exception as e:
                ctx.fail("state:unreadable", f"{where}: a pool mesh cannot be read any more: {type(e).__name__}: {e}")
                continue
            exact = mdl is not target
            ok = V.shape == mdl.V.shape and (np.array_equal(V, mdl.V) if exact else bool(np.all(np.abs(V - mdl.V) <= TOL * max(opmag or 0.0, float(np.max(np.abs(mdl.V))) if mdl.V.size else 0.0, 1e-300))))
            if not ok:
                bad = None
                if V.shape == mdl.V.shape:
                    d = np.abs(V - mdl.V).max(axis=1)
                    bad = int(np.argmax(d))
                ctx.fail("coords:" + ("other-mesh-changed" if exact else "wrong-map"),
                         f"{where}: mesh #{mdl.id} ({mdl.cls}{', NOT the target of this step' if exact else ', target'}) has vertex {bad} = "
                         f"{V[bad].tolist() if bad is not None else V.shape} but the requested maps give {mdl.V[bad].tolist() if bad is not None else mdl.V.shape}")
                mdl.V = V.copy()     # re-synchronise so that the search can continue behind a known finding
            elif not exact:
                mdl.V = V.copy()     # within tolerance: adopt the library's own round-off so that later non-target comparisons are bit-exact
            if not ctx.check(E == mdl.E and F == mdl.F and C == mdl.C, "elements:changed", f"{where}: element lists of mesh #{mdl.id} changed"):
                mdl.E, mdl.F, mdl.C = E, F, C
            ctx.check(type(m).__name__ == mdl.cls, "class", f"{where}: mesh #{mdl.id} is a {type(m).__name__}, expected {mdl.cls}")
            if mdl.attr is not None:
                if ctx.check(m.vertices.has_attribute("c06"), "attr:lost", f"{where}: vertex attribute of mesh #{mdl.id} disappeared"):
                    at = m.vertices.get_attribute("c06")
                    got = {i: float(at[i]) for i in range(len(mdl.V))}
                    exp = {i: mdl.attr.get(i, 0.0) for i in range(len(mdl.V))}
                    if not ctx.check(got == exp, "attr:changed", f"{where}: vertex attribute of mesh #{mdl.id} reads {got}, expected {exp}"):
                        mdl.attr = {i: v for i, v in got.items() if v != 0.0}
            if not mdl.no_attrs:
                for cont in CONTAINERS:
                    if not hasattr(m, cont):
                        continue
                    c = getattr(m, cont)
                    for tag in ATTR_TAGS:
                        k = (cont, tag)
                        has = bool(c.has_attribute("c06_" + tag))
                        if k in mdl.attrs:
                            if not has and not ctx.check(False, "attr:lost", f"{where}: attribute c06_{tag} on the {cont} of mesh #{mdl.id} disappeared"):
                                del mdl.attrs[k]
                                continue
                            try:
                                got = read_attr(m, cont, tag)
                            except Exception as e:
                                ctx.fail("attr:unreadable", f"{where}: attribute c06_{tag} on the {cont} of mesh #{mdl.id} cannot be read: {type(e).__name__}: {e}")
                                del mdl.attrs[k]
                                continue
                            d = attr_default(tag)
                            exp = [mdl.attrs[k].get(i, d) for i in range(len(got))]
                            if got == exp:
                                ctx.check(True, "attr:changed", "")
                            elif not ctx.check(False, "attr:changed", f"{where}: attribute c06_{tag} on the {cont} of mesh #{mdl.id}"
                                               f"{' (NOT the target of this step)' if exact else ''} reads {got}, expected {exp}"):
                                mdl.attrs[k] = {i: v for i, v in enumerate(got) if v != d}
                        elif mdl.attrs_known and has:
                            ctx.check(False, "attr:unexpected", f"{where}: mesh #{mdl.id} carries an attribute c06_{tag} on its {cont} that was never created on it "
                                      f"nor on a mesh it was copied from with attributes")
                            try:
                                mdl.attrs[k] = {i: v for i, v in enumerate(read_attr(m, cont, tag)) if v != attr_default(tag)}
                            except Exception:
                                mdl.attrs_known = False
            # a light connectivity sample: answers must describe this mesh's own faces
            if mdl.cls == "SurfaceMesh" and mdl.F and not getattr(mdl, "no_conn", False):
                Cn = m.connectivity
                for f in sorted(set(list(range(min(2, len(mdl.F)))) + [len(mdl.F) - 1])):
                    ok1, r = ctx.call("conn:face_to_vertices", Cn.face_to_vertices, f)
                    if ok1:
                        ctx.check(tuple(ints(r)) == mdl.F[f], "conn:stale", f"{where}: mesh #{mdl.id} connectivity.face_to_vertices({f}) = {r} but its face is {mdl.F[f]}")
                for v in sorted(set(mdl.F[0]))[:2] + [max(mdl.F[-1])]:
                    ok1, r = ctx.call("conn:vertex_to_faces", Cn.vertex_to_faces, v)
                    if ok1 and r is not None:
                        exp = sorted(i for i, f in enumerate(mdl.F) if v in f)
                        ctx.check(sorted(ints(r)) == exp, "conn:stale", f"{where}: mesh #{mdl.id} connectivity.vertex_to_faces({v}) = {sorted(ints(r))}, its faces give {exp}")
        for k, (arr, pristine, users) in arrays.items():
            pass

    def related(mdl):
        live = {x.id for _, x in pool}
        return bool(mdl.family & live)

    last_src = [None]

    def pick(i):
        if i == -1:
            return pool[-1]                      # the newest mesh
        if i == -2:                              # the source of the latest copy (if it is still in the pool)
            for x in pool:
                if x[1] is last_src[0]:
                    return x
            return pool[0]
        return pool[i % len(pool)]

    for step, op in enumerate(case["ops"]):
        kind = op[0]
        where = f"step {step} {op if len(str(op)) < 160 else str(op)[:160]}"
        target = None
        if kind == "build":
            sp = case["specs"][op[1] % len(case["specs"])]
            raw = RawMeshData()
            raw.vertices += [list(v) for v in sp["V"]]
            raw.edges += [tuple(e) for e in sp["E"]]
            raw.faces += [list(f) for f in sp["F"]]
            raw.cells += [list(c) for c in sp["C"]]
            ok, m = ctx.call("produce:build", M.mesh.mesh._instanciate_raw_mesh_data, raw)
            if not ok: return
            mdl = snapshot(m)
            ctx.check(np.array_equal(mdl.V, np.array(sp["V"], dtype=float).reshape(-1, 3)), "produce:build", f"{where}: built mesh does not have the input coordinates")
            mdl.attrs_known = True
            add(m, mdl)
            ctx.label("producer=build")
        elif kind == "from_arrays":
            k = op[1] % len(case["specs"])
            sp = case["specs"][k]
            if op[2] and k in arrays:
                arr = arrays[k][0]
                ctx.label("from_arrays-shared-array")
            else:
                arr = np.array(sp["V"], dtype=float).reshape(-1, 3)
                arrays[k] = (arr, arr.copy(), [])
            kw = {}
            if sp["E"]: kw["E"] = np.array(sp["E"])
            if sp["F"] and len(set(len(f) for f in sp["F"])) == 1: kw["F"] = np.array(sp["F"])
            if sp["C"]: kw["C"] = np.array(sp["C"])
            ok, m = ctx.call("produce:from_arrays", M.mesh.from_arrays, arr, **kw)
            if not ok: return
            mdl = snapshot(m)
            sharers = [x for x in arrays[k][2] if any(x is y for _, y in pool)]
            mdl.via_boundary = True    # rows of the caller's array are numpy views: direct in-place edits are issued as rebinding writes
            mdl.attrs_known = True
            add(m, mdl, parents=sharers)
            arrays[k][2].append(mdl)
            ctx.label("producer=from_arrays")
        elif kind == "procedural":
            name, n, p = op[1], op[2], op[3]
            P = M.procedural
            p0 = Vec(*p)
            makers = {
                "triangle": lambda: P.triangle(Vec(0., 0., 0.) + p0, Vec(1., 0., 0.) + p0, Vec(0., 1., 0.) + p0),
                "quad": lambda: P.quad(Vec(0., 0., 0.) + p0, Vec(1., 0., 0.) + p0, Vec(0., 1., 0.) + p0),
                "unit_grid": lambda: P.unit_grid(n, n),
                "tetrahedron": lambda: P.tetrahedron(Vec(0., 0., 0.), Vec(1., 0., 0.), Vec(0., 1., 0.), Vec(0., 0., 1.) + p0),
                "tetrahedron_vol": lambda: P.tetrahedron(Vec(0., 0., 0.), Vec(1., 0., 0.), Vec(0., 1., 0.), Vec(0., 0., 1.) + p0, volume=True),
                "cube": lambda: P.axis_aligned_cube(),
                "octahedron": lambda: P.octahedron(),
                "ring_open": lambda: P.ring(n, 0.5, open=True),
                "ring_closed": lambda: P.ring(n, 0.5, open=False),
                "flat_ring": lambda: P.flat_ring(n, 0.5),
                "chain": lambda: P.chain_of_vertices(np.array([[i, i * i * 0.5, 0.] for i in range(n)]) + np.array(p)),
                "chain_loop": lambda: P.chain_of_vertices(np.array([[math.cos(i), math.sin(i), 0.] for i in range(n)]), loop=True),
                "icosphere0": lambda: P.icosphere(0, center=p0, radius=2.),
                "cylinder": lambda: P.cylinder(Vec(0., 0., 0.), Vec(0., 0., 1.) + p0, N=n),
                "torus": lambda: P.torus(n, n + 1, 2., 0.5),
            }
            ok, m = ctx.call("produce:procedural:" + name, makers[name])
            if not ok: continue
            pm = snapshot(m)
            pm.attrs_known = True
            add(m, pm)
            ctx.label("producer=procedural:" + name)
        elif kind == "merge":
            items = [pick(i) for i in op[1]]
            ok, m = ctx.call("produce:merge", M.mesh.merge, [x[0] for x in items])
            if not ok: continue
            # compare with the inputs' *actual* current coordinates (their models are only equal to them up to round-off)
            Vs = [read_mesh(x[0])[0] for x in items]
            Vexp = np.concatenate(Vs) if Vs else np.zeros((0, 3))
            off = 0
            Eexp, Fexp, Cexp = [], [], []
            for _, mdl in items:
                Eexp += [key(a + off, b + off) for a, b in mdl.E]
                Fexp += [tuple(v + off for v in f) for f in mdl.F]
                Cexp += [tuple(v + off for v in c) for c in mdl.C]
                off += len(mdl.V)
            got = snapshot(m)
            dim = 3 if Cexp else 2 if Fexp else 1 if Eexp else 0
            # the class: by the highest-dimensional element present (what construction yields), or - the docstring's wording - the type of
            # the input with the largest dimensionality (they differ for inputs that hold no element of their own dimension)
            order = ["PointCloud", "PolyLine", "SurfaceMesh", "VolumeMesh"]
            by_inputs = max((order.index(mdl.cls) for _, mdl in items if mdl.cls in order), default=dim)
            ctx.check(got.cls in (order[dim], order[by_inputs]), "merge:class",
                      f"{where}: merge gave a {got.cls}; highest dimension present is {dim}, largest input class {order[by_inputs]}")
            ctx.check(got.V.shape == Vexp.shape and np.array_equal(got.V, Vexp), "merge:vertices", f"{where}: merged vertices are not the concatenation of the inputs")
            ctx.check(got.F[:len(Fexp)] == Fexp and got.C == Cexp, "merge:elements", f"{where}: merged faces/cells are not the inputs' shifted by the running vertex count: {got.F[:6]} vs {Fexp[:6]}")
            ctx.check(got.E[:len(Eexp)] == Eexp, "merge:edges", f"{where}: merged edges {got.E[:8]} are not the inputs' edges shifted {Eexp[:8]}")
            add(m, got, parents=[x[1] for x in items])
            ctx.label("producer=merge", f"merge-repeats={len(set(id(x[0]) for x in items)) < len(items)}")
        elif kind == "copy":
            m0, mdl0 = pick(op[1])
            LISTS = ("boundary_vertices", "interior_vertices", "boundary_edges", "interior_edges", "boundary_faces", "interior_faces")
            preq = op[4] if len(op) > 4 else 0
            shared_ok = not getattr(mdl0, "no_conn", False) and mdl0.cls in ("SurfaceMesh", "VolumeMesh")
            if preq and shared_ok:
                for nm in LISTS[:2 * preq]:
                    try: getattr(m0, nm)
                    except Exception: shared_ok = False
            form = op[5] if len(op) > 5 else "literal"
            fa, fc = flagval(op[2], form), flagval(op[3], form)
            if form.startswith("kw-"):
                ok, m = ctx.call("produce:copy", lambda: M.mesh.copy(m0, copy_connectivity=fc, copy_attributes=fa))
            else:
                ok, m = ctx.call("produce:copy", M.mesh.copy, m0, fa, fc)
            if not ok: continue
            last_src[0] = mdl0
            if preq and shared_ok:
                # lists handed out by the copy are the copy's: editing one in place must not change what the source hands out
                ctx.label("copy-after-border-lists-were-queried")
                for nm in LISTS:
                    try:
                        lc = getattr(m, nm); before = list(getattr(m0, nm))
                    except Exception:
                        continue
                    if isinstance(lc, list):
                        lc.append(-7); lc.reverse()
                        after = list(getattr(m0, nm))
                        lc.reverse(); lc.pop()
                        ctx.check(after == before, "copy:shared-element-list", f"{where}: editing the copy's {nm} list in place changed the source's {nm}: {after[:8]} (was {before[:8]})")
            got = snapshot(m)
            ctx.check(np.array_equal(got.V, read_mesh(m0)[0]) and got.E == mdl0.E and got.F == mdl0.F and got.C == mdl0.C and got.cls == mdl0.cls,
                      "copy:differs", f"{where}: the copy does not equal its source")
            if op[2] and mdl0.attr is not None:
                ctx.check(got.attr == mdl0.attr, "copy:attributes", f"{where}: copy with attributes reads {got.attr}, source {mdl0.attr}")
            elif not op[2]:
                ctx.check(got.attr is None, "copy:attributes", f"{where}: copy without attributes carries the attribute")
            got.no_conn = getattr(mdl0, "no_conn", False)
            got.no_attrs = mdl0.no_attrs
            if op[2]:
                # the copy carries every attribute of its source, with equal values (that they are its own is checked by the later steps)
                for (cont, tag), vals in sorted(mdl0.attrs.items()):
                    if mdl0.no_attrs: break
                    try:
                        a_src = read_attr(m0, cont, tag)
                    except Exception:
                        continue
                    if ctx.check(hasattr(m, cont) and getattr(m, cont).has_attribute("c06_" + tag), "copy:attributes",
                                 f"{where}: copy with attributes lacks the attribute c06_{tag} of the source's {cont}"):
                        ok1, a_cp = ctx.call("copy:attributes", read_attr, m, cont, tag)
                        if ok1:
                            ctx.check(a_cp == a_src, "copy:attributes", f"{where}: attribute c06_{tag} on the {cont} of the copy reads {a_cp}, source {a_src}")
                got.attrs = _copy.deepcopy(mdl0.attrs)
                got.attrs_known = mdl0.attrs_known
                if mdl0.attrs: ctx.label("copy-carries-generated-attributes")
            else:
                got.attrs = {}
                got.attrs_known = True       # "copy_attributes: whether to also copy attributes data" - without it the copy carries none
            ctx.check(corner_records(m) == corner_records(m0), "copy:corner-records",
                      f"{where}: corner records (element, owner) of the copy differ from its source: {str(corner_records(m))[:200]} vs {str(corner_records(m0))[:200]}")
            add(m, got, parents=[mdl0])
            ctx.label("producer=copy", f"copy-attributes={op[2]}", f"copy-connectivity={op[3]}", "copy-flags=" + form)
        elif kind == "boundary":
            m0, mdl0 = pick(op[1])
            from mouette.processing import border as B
            res = None
            if mdl0.cls == "SurfaceMesh":
                ok, res = ctx.call("produce:boundary_of_surface", B.extract_boundary_of_surface, m0)
                if not ok: continue
                res = res[0]
            elif (mdl0.cls == "VolumeMesh" and mdl0.C and all(len(c) == 4 for c in mdl0.C)
                  and set(key(f) for f in mdl0.F) <= set(key(c[:i] + c[i + 1:]) for c in mdl0.C for i in range(4))
                  and set(mdl0.E) <= set(key(c[i], c[j]) for c in mdl0.C for i in range(4) for j in range(i))):
                # (a merge of a volume with a surface / polyline has faces or edges that bound no cell: its boundary is not defined)
                if op[2]:
                    ok, res = ctx.call("produce:boundary_of_volume", B.extract_boundary_of_volume, m0)
                    if not ok: continue
                    res = res[0]
                else:
                    ok, _ = ctx.call("produce:boundary_mesh", m0.enable_boundary_connectivity)
                    if not ok: continue
                    res = m0.boundary_mesh
                    if m0.vertices.has_attribute("border") or True:
                        pass
            if res is None:
                continue
            bm = snapshot(res)
            # a boundary mesh is documented as an indirection onto its source: the statement demands that *transforms* of it
            # behave, not that direct in-place edits of one stay invisible in the other -> such edits are issued as rebinding writes
            bm.via_boundary = True; mdl0.via_boundary = True
            add(res, bm, parents=[mdl0])
            ctx.label("producer=boundary:" + mdl0.cls)
        elif kind == "load":
            m0, mdl0 = pick(op[1])
            fmt = op[2]
            d = tempfile.mkdtemp(prefix="c06_")
            try:
                p = os.path.join(d, "m." + fmt)
                try:
                    M.mesh.save(m0, p)
                    m = M.mesh.load(p)
                except Exception:
                    continue      # what saves / loads is C04's business
            finally:
                shutil.rmtree(d, ignore_errors=True)
            lm = snapshot(m)
            lm.no_conn = True      # whether a loaded mesh is well-formed is C04's business, not sampled here
            lm.no_attrs = True     # ... and so is which attributes a file carries
            add(m, lm, parents=[mdl0])
            ctx.label("producer=load:" + fmt)
        elif kind == "subdiv":
            m0, mdl0 = pick(op[1])
            if mdl0.cls != "SurfaceMesh" or not mdl0.F:
                continue
            from mouette.mesh.subdivision import SurfaceSubdivision
            try:
                with SurfaceSubdivision(m0) as sub:
                    sub.triangulate()
                res = sub.mesh
            except Exception:
                continue          # C13's business
            # the source shares its containers with the result by design: drop it, keep the result
            idx = [k for k, (mm, _) in enumerate(pool) if mm is m0]
            for k in idx:
                pool.pop(k)
            got = snapshot(res)
            got.family = set(mdl0.family)
            got.via_boundary = getattr(mdl0, "via_boundary", False)   # the result keeps the source's vertex arrays
            got.no_conn = getattr(mdl0, "no_conn", False)
            got.no_attrs = True    # what a subdivision does with the attributes of the containers it rebuilds is not stated here
            add(res, got)
            ctx.label("producer=subdivision")
        elif kind == "query":
            m0, mdl0 = pick(op[1])
            if hasattr(m0, "connectivity") and mdl0.E:
                try:
                    m0.connectivity.vertex_to_vertices(0)
                    if mdl0.F: m0.connectivity.vertex_to_faces(0)
                except Exception:
                    pass
        else:
            m0, mdl0 = pick(op[1])
            target = mdl0
            if len(mdl0.V) == 0:
                continue
            # round-off of an operation is relative to the largest magnitude it handles: coordinates before / after, vector
            # arguments, intermediate states of a round trip
            argmag = max([float(np.max(np.abs(np.array(a, dtype=float)))) for a in op[2:] if isinstance(a, list) and a and all(isinstance(x, (int, float)) for x in a)] or [0.0])
            opmag_before = max(float(np.max(np.abs(mdl0.V))), argmag * (sc if sc != 1.0 else 1.0), argmag if kind in ("roundtrip",) else 0.0)
            if kind == "roundtrip":
                opmag_before = max(opmag_before, float(np.max(np.abs(mdl0.V))) * max(abs(op[5]), 1 / abs(op[5])))
            if related(mdl0) and kind not in ("attr_write", "attr_any"):
                ctx.nontrivial()
            if kind == "translate":
                t = np.array(op[2], dtype=float)
                if sc != 1.0 and step % 2 == 0:
                    t = t * sc          # a translation of the size of the (scaled) mesh itself
                    ctx.label("translate-at-mesh-scale")
                arg = Vec(t) if op[3] == "vec" else t.copy() if op[3] == "numpy" else Vec(list(t))
                before = np.array(arg, dtype=float).copy()
                ok, r = ctx.call("op:translate", T.translate, m0, arg)
                if not ok: continue
                ctx.check(np.array_equal(np.array(arg, dtype=float), before), "arg:changed", f"{where}: translate changed its argument vector")
                mdl0.V = mdl0.V + t
            elif kind == "rotate":
                Rm = euler_matrix(op[3])
                orig = None if op[4] is None else Vec(*op[4])
                if op[2] == "euler":
                    arg = list(op[3])
                elif op[2] == "euler_tuple":
                    arg = tuple(op[3])
                    ctx.label("rotate-euler-tuple")
                elif op[2] == "matrix":
                    arg = Rm.copy()
                else:
                    arg = Rotation.from_matrix(Rm)
                o_before = None if orig is None else np.array(orig, dtype=float).copy()
                ok, r = ctx.call("op:rotate", T.rotate, m0, arg, orig)
                if not ok: continue
                if orig is not None:
                    ctx.check(np.array_equal(np.array(orig, dtype=float), o_before), "arg:changed", f"{where}: rotate changed its origin argument")
                if op[2] == "matrix":
                    ctx.check(np.array_equal(arg, Rm), "arg:changed", f"{where}: rotate changed its matrix argument")
                o = np.zeros(3) if op[4] is None else np.array(op[4], dtype=float)
                mdl0.V = o + (mdl0.V - o) @ Rm.T
            elif kind == "scale":
                orig = None if op[3] is None else Vec(*op[3])
                o_before = None if orig is None else np.array(orig, dtype=float).copy()
                fform = op[4] if len(op) > 4 else "float"
                fac = op[2]
                if fform == "int" and float(fac) == int(fac):
                    fac = int(fac); ctx.label("scale-factor=int")
                elif fform == "numpy":
                    fac = np.float64(fac); ctx.label("scale-factor=numpy.float64")
                ok, r = ctx.call("op:scale", T.scale, m0, fac, orig)
                if not ok: continue
                if orig is not None:
                    ctx.check(np.array_equal(np.array(orig, dtype=float), o_before), "arg:changed", f"{where}: scale changed its origin argument")
                o = np.zeros(3) if op[3] is None else np.array(op[3], dtype=float)
                mdl0.V = o + op[2] * (mdl0.V - o)
            elif kind == "scale_xyz":
                orig = None if op[3] is None else Vec(*op[3])
                fx, fy, fz = op[2]
                if orig is None:
                    ok, r = ctx.call("op:scale_xyz", T.scale_xyz, m0, fx, fy, fz)
                    ctx.label("scale_xyz-default-origin")
                else:
                    ok, r = ctx.call("op:scale_xyz", T.scale_xyz, m0, fx, fy, fz, orig)
                if not ok: continue
                o = np.zeros(3) if op[3] is None else np.array(op[3], dtype=float)
                mdl0.V = o + (mdl0.V - o) * np.array([fx, fy, fz])
            elif kind in ("normalize", "fit"):
                span = mdl0.V.max(axis=0) - mdl0.V.min(axis=0)
                if span.max() < 1e-6:
                    ctx.discard("normalize-zero-extent"); target = None
                    continue
                centered = (kind == "normalize" and op[2])
                if kind == "normalize":
                    form = op[3] if len(op) > 3 else "literal"
                    if form == "default" and not op[2]:
                        form = "literal"
                    fv = flagval(op[2], form)
                    call = (lambda: T.normalize(m0)) if form == "default" else (lambda: T.normalize(m0, center_at_zero=fv)) if form.startswith("kw-") else (lambda: T.normalize(m0, fv))
                    ctx.label("normalize-flag=" + form + ("/centred" if centered else "/origin"))
                else:
                    call = lambda: T.fit_into_unit_cube(m0)
                ok, r = ctx.call("op:" + kind, call)
                if not ok: continue
                mn, mx = mdl0.V.min(axis=0), mdl0.V.max(axis=0)
                # round-off of the translation is relative to the coordinates' magnitude BEFORE normalising (a mesh far from the
                # origin compared with its size cannot be centred more precisely than eps * magnitude / extent)
                tolb = 1e-12 + 64 * 2.3e-16 * float(np.abs(mdl0.V).max()) / float(span.max())
                if centered:
                    mdl0.V = (mdl0.V - (mn + mx) / 2) * (2 / span.max())
                else:
                    mdl0.V = (mdl0.V - mn) / span.max()
                # documented bounding box, measured on the library's own result
                V, _, _, _ = read_mesh(m0)
                bmn, bmx = V.min(axis=0), V.max(axis=0)
                if centered:
                    ctx.check(np.allclose((bmn + bmx) / 2, 0, atol=tolb) and abs((bmx - bmn).max() - 2) <= 2 * tolb, "normalize:bbox",
                              f"{where}: bounding box after normalize is [{bmn.tolist()}, {bmx.tolist()}], expected centred with largest extent 2")
                else:
                    ctx.check(np.allclose(bmn, 0, atol=tolb) and abs((bmx - bmn).max() - 1) <= 2 * tolb, "normalize:bbox",
                              f"{where}: bounding box is [{bmn.tolist()}, {bmx.tolist()}], expected anchored at the origin with largest extent 1")
            elif kind == "to_origin":
                ok, r = ctx.call("op:translate_to_origin", T.translate_to_origin, m0)
                if not ok: continue
                mdl0.V = mdl0.V - mdl0.V.mean(axis=0)
            elif kind == "flatten":
                dim = op[2]
                if dim is None:
                    var = mdl0.V.var(axis=0)
                    srt = np.sort(var)
                    if srt[1] - srt[0] <= 1e-9 * max(1.0, srt[2]):
                        ctx.discard("flatten-ambiguous-axis"); target = None
                        continue
                    dim = int(np.argmin(var))
                    ok, r = ctx.call("op:flatten", T.flatten, m0)
                else:
                    if len(op) > 3 and op[3] == "numpy":
                        ok, r = ctx.call("op:flatten", T.flatten, m0, np.int64(dim)); ctx.label("flatten-dim=numpy.int64")
                    else:
                        ok, r = ctx.call("op:flatten", T.flatten, m0, dim)
                if not ok: continue
                mdl0.V = mdl0.V.copy(); mdl0.V[:, dim] = 0.0
            elif kind == "edit_inplace":
                v = op[2] % len(mdl0.V)
                if getattr(mdl0, "via_boundary", False):
                    nv = Vec(m0.vertices[v]).copy(); nv[op[3]] = op[4]
                    m0.vertices[v] = nv
                else:
                    m0.vertices[v][op[3]] = op[4]
                mdl0.V = mdl0.V.copy(); mdl0.V[v, op[3]] = op[4]
                ctx.label("edit=inplace")
            elif kind == "edit_rebind":
                v = op[2] % len(mdl0.V)
                m0.vertices[v] = Vec(*[float(x) for x in op[3]])
                mdl0.V = mdl0.V.copy(); mdl0.V[v] = op[3]
                ctx.label("edit=rebind")
            elif kind == "append_vertex":
                ok, _ = ctx.call("op:append_vertex", m0.vertices.append, Vec(*[float(x) for x in op[2]]))
                if not ok: continue
                mdl0.V = np.concatenate([mdl0.V, np.array([op[2]], dtype=float)])
            elif kind == "add_face":
                # user-level raw edit: glue a new triangle onto a border edge, then reset the lazy connectivity
                if mdl0.cls != "SurfaceMesh" or not mdl0.F:
                    target = None; continue
                he = set()
                for f in mdl0.F:
                    for j in range(len(f)):
                        he.add((f[j], f[(j + 1) % len(f)]))
                border = sorted((a, b) for (a, b) in he if (b, a) not in he)
                if not border:
                    target = None; continue
                a, b = border[op[2] % len(border)]
                nv = len(mdl0.V)
                nf = len(mdl0.F)
                m0.vertices.append(Vec(*[float(x) for x in op[3]]))
                m0.faces.append((b, a, nv))
                for vv in (b, a, nv):
                    m0.face_corners.append(vv, nf)
                m0.edges.append(key(a, nv)); m0.edges.append(key(b, nv))
                m0.connectivity.clear()
                m0.clear_boundary_data()
                mdl0.V = np.concatenate([mdl0.V, np.array([op[3]], dtype=float)])
                mdl0.F = mdl0.F + [(b, a, nv)]
                mdl0.E = mdl0.E + [key(a, nv), key(b, nv)]
                ctx.label("op=add_face")
            elif kind == "bad_call":
                # calls that are expected to raise: afterwards every mesh (the target included) must still equal its model
                bad = [lambda: T.rotate(m0, [0.1, 0.2]), lambda: T.rotate(m0, np.eye(2)), lambda: T.rotate(m0, "xyz"),
                       lambda: T.translate(m0, Vec(1., 2.)), lambda: T.scale(m0, 2.0, Vec(1., 2.)), lambda: M.mesh.merge([m0, None])]
                try:
                    bad[op[2] % len(bad)]()
                    ctx.label("bad-call-returned")
                    target = None
                    # a call that unexpectedly succeeds may have changed the target legitimately: re-synchronise it
                    mdl0.V = read_mesh(m0)[0]
                except Exception:
                    ctx.label("bad-call-raised")
                    target = None
                continue_verify = True
            elif kind == "rotate_record":
                # user-level raw edit of one element record IN PLACE (only possible when the record is a mutable list or a numpy
                # row, as produced by the file importers, from_arrays or list input): cyclic rotation of a face keeps the mesh valid
                if op[3] == "faces" and mdl0.F and mdl0.cls == "SurfaceMesh":
                    f = op[2] % len(mdl0.F)
                    rec = m0.faces[f]
                    if isinstance(rec, (list, np.ndarray)):
                        rot = [int(x) for x in rec][1:] + [int(x) for x in rec][:1]
                        rec[:] = rot
                        # face corners follow the face's vertex order
                        c0 = sum(len(g) for g in mdl0.F[:f])
                        for j, vv in enumerate(rot):
                            m0.face_corners._elem[c0 + j] = vv
                        m0.connectivity.clear(); m0.clear_boundary_data()
                        mdl0.F = mdl0.F[:f] + [tuple(rot)] + mdl0.F[f + 1:]
                        ctx.label("op=rotate_record:" + type(rec).__name__)
                    else:
                        target = None; continue
                else:
                    target = None; continue
            elif kind == "attr_write":
                v = op[2] % len(mdl0.V)
                at = m0.vertices.get_attribute("c06") if m0.vertices.has_attribute("c06") else m0.vertices.create_attribute("c06", float)
                at[v] = float(op[3])
                if mdl0.attr is None: mdl0.attr = {}
                mdl0.attr[v] = float(op[3])
                if mdl0.attr[v] == 0.0: del mdl0.attr[v]
                if related(mdl0): ctx.nontrivial()
            elif kind == "attr_any":
                # create / write / edit in place / delete an attribute on ANY container of the mesh (vertices, edges, faces, cells and
                # the corner containers), through the public container API
                if mdl0.no_attrs:
                    target = None; continue
                csel, ksel, reuse, idx, val, mode = op[2:8]
                keys = sorted(mdl0.attrs)
                if reuse and keys:
                    cont, tag = keys[csel % len(keys)]
                else:
                    avail = [c for c in CONTAINERS if hasattr(m0, c) and len(getattr(m0, c)) > 0]
                    cont, tag = avail[csel % len(avail)], ATTR_TAGS[ksel % len(ATTR_TAGS)]
                c = getattr(m0, cont)
                typ, nval, dense = ATTR_KINDS[tag]
                name = "c06_" + tag
                if len(c) == 0:
                    target = None; continue
                if (cont, tag) not in mdl0.attrs:
                    if c.has_attribute(name):
                        # carried over by a producer that promises nothing about attributes (or reported by verify already)
                        ctx.label("attr-unmodelled-skipped"); target = None; continue
                    ok, at = ctx.call("op:create_attribute", lambda: c.create_attribute(name, typ, nval, dense=dense))
                    if not ok: continue
                    mdl0.attrs[(cont, tag)] = {}
                    if mode == "delete": mode = "write"
                    ctx.label("attr-created")
                else:
                    ok, at = ctx.call("op:get_attribute", c.get_attribute, name)
                    if not ok: continue
                vals = mdl0.attrs[(cont, tag)]
                e = idx % len(c)
                if mode == "inplace" and nval > 1 and not dense and vals:
                    e = sorted(vals)[idx % len(vals)]       # a sparse attribute stores a vector only where one was written
                    if e >= len(c): e = idx % len(c)
                d = attr_default(tag)
                if mode == "delete":
                    ok, _ = ctx.call("op:delete_attribute", c.delete_attribute, name)
                    if not ok: continue
                    del mdl0.attrs[(cont, tag)]
                elif mode == "inplace" and nval > 1 and (dense or e in vals):
                    # component update of a stored vector value (dense: a row of the array; sparse: the stored vector)
                    comp = (idx // 7) % nval
                    x = at[e]
                    x[comp] = float(val[0])
                    new = list(vals.get(e, d)); new[comp] = float(val[0])
                    vals[e] = new
                else:
                    mode = "write"
                    if nval > 1:
                        v = Vec(*[float(t) for t in val[:nval]]); mv = [float(t) for t in val[:nval]]
                    elif typ is float:
                        v = mv = float(val[0])
                    elif typ is int:
                        v = mv = int(val[0] * 4)
                    else:
                        v = mv = bool(val[0] > 0)
                    ok, _ = ctx.call("op:attribute-write", at.__setitem__, e, v)
                    if not ok: continue
                    vals[e] = mv
                live = {x.id: x for _, x in pool}
                if any(r in live and (cont, tag) in live[r].attrs for r in mdl0.family):
                    ctx.label("attr-op-while-a-relative-carries-the-same-attribute"); ctx.nontrivial()
                ctx.label("attr-container=" + cont, "attr-kind=" + tag, "attr-mode=" + mode)
            elif kind == "roundtrip":
                which = op[2]
                before = mdl0.V.copy()
                rsc = max(float(np.abs(before).max()), float(np.max(np.abs(op[3]))) if which == "translate" else 0.0,
                          float(np.abs(before).max()) * max(abs(op[5]), 1 / abs(op[5])) if which == "scale" else 0.0, 1e-300)
                if which == "translate":
                    t = Vec(*op[3])
                    ok, _ = ctx.call("op:translate", T.translate, m0, t); ok2, _ = ctx.call("op:translate", T.translate, m0, -t)
                elif which == "rotate":
                    Rm = euler_matrix(op[4])
                    ok, _ = ctx.call("op:rotate", T.rotate, m0, Rm.copy()); ok2, _ = ctx.call("op:rotate", T.rotate, m0, Rm.T.copy())
                else:
                    ok, _ = ctx.call("op:scale", T.scale, m0, op[5]); ok2, _ = ctx.call("op:scale", T.scale, m0, 1 / op[5])
                if not (ok and ok2): continue
                V, _, _, _ = read_mesh(m0)
                ctx.check(V.shape == before.shape and bool(np.all(np.abs(V - before) <= 1e-12 * rsc * 8)), "roundtrip:" + which,
                          f"{where}: {which} followed by its inverse does not restore the coordinates (max deviation {float(np.abs(V - before).max()) if V.shape == before.shape else 'shape'})")
                ctx.label("roundtrip=" + which)
            ctx.label("op=" + kind)
        verify(where, target, opmag=(locals().get("opmag_before") if target is not None else None))


SUBCHECKS = [SubCheck("value_semantics", history(), fn, quick=1200, thorough=2500)]
MATCHERS = {}
