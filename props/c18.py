"""C18 - surface frame fields are unit, border-aligned and topologically consistent."""
import math, cmath
import numpy as np
from hypothesis import strategies as st
from vlib.runner import SubCheck
from vlib import gen_surface as G
from vlib.topo import SurfRef, key
from vlib.build import surface_from

PROPERTY = "C18"
RULE = ("Well-shaped triangulated surfaces (min angle >= 8 deg): closed bases (tetrahedron, octahedron, icosahedron, bipyramids, "
        "antiprisms, tori; exactly regular, or with 1-3 splits / flips / edge splits and jitter), bordered bases (grids, cylinders, "
        "fans, strips, polygons, Delaunay disks with ear removals and height fields) and 'roof' panels (triangulated grids with "
        "per-quad diagonals, folded along 1-2 grid lines so that the folds are feature edges), jittered, rigidly moved and "
        "randomly renumbered, x order 1-6 x elements vertices/faces x features on/off x n_smooth 0-3 (explicit attach weight) x "
        "cotan/uniform (x smooth_normals / cad_correction for the vertex field). Oracles: constraints are unit frames, unit "
        "modulus everywhere, constraints kept / a branch tangent to the single constrained edge, face-field singularity quantum "
        "4/order and index sum 4*chi, normalised harmonic extension recomputed from the library's connection Laplacian "
        "(n_smooth=0), Hermitian Laplacian whose moduli are the scalar Laplacian's, flat connection = scalar Laplacian and "
        "trivial holonomy on embedded planar meshes, and invariance of the field measured against mesh edges in the connection's "
        "metric under vertex renumbering + face-start rotation (bordered, well-posed constraints). "
        "Every field case also draws a uniform scale (1e-6..1e6, attach weight scaled by 1/scale^2), integer-typed coordinates "
        "where they are integral, and the verbose switch; the mesh argument must come back unchanged. Sub-check 'sequence': 2-5 "
        "fields (orders / elements / options differ, optionally the first one again) computed one after another on the SAME mesh "
        "object, flag_singularities after each; every one of them must pass every oracle above and, on the constrained-solve "
        "path, equal the field and the singularity indices obtained on a fresh mesh. The laplacian sub-check builds both element "
        "kinds and both weightings on one mesh object and compares with a fresh mesh. "
        "Read-out histories: every field case draws the order of the public read-outs (flag_singularities, export_as_mesh "
        "first / twice / in between); every flag must give quantised indices summing to 4*chi and agree with the first one, "
        "every export must be the field's frames (centre, |var| * mean edge length / 3, directions whose order-th power is var in "
        "the basis read before the export), and var / the connection must come back untouched; in 'sequence' the earlier field "
        "objects are re-inspected and re-flagged after the later ones. Sub-check 'large': jittered panels with 2600-3400 free "
        "vertices (or 2700-3300 free faces), n_smooth = 0, harmonic extension recomputed with a sparse direct solve and a "
        "1-norm condition estimate (size regimes above any internal threshold). "
        "Round 4: every field / sequence case also draws the library-wide switch display_duplicate_attribute_warning (create_attribute "
        "then returns an existing attribute), prior calls of the public attribute functions on the mesh, a translation of 300 or "
        "3e5 element sizes, faces given as numpy rows of int64/int32/int16/uint8, unsorted neighbourhoods (face fields), and a "
        "prelude of calls the documentation says are refused (they must raise and leave the switches alone). Sub-check "
        "'custom_connection': caller-built connections (Flat* on an embedded planar mesh turned by an arbitrary angle; "
        "SurfaceConnectionFaces with its default border-only features under a field that uses creases). "
        "Round 6: every field / sequence / custom_connection case also draws HOW THE CALL IS SPELLED - options by keyword, order and features "
        "by position (examples/framefield2D.py), every option by position in signature order, with the three trailing optional "
        "objects given as None, every option whose value is the documented default left out, mesh and elements by keyword; flags as "
        "bool / numpy.bool_ / 0-1; the attach weight as float / numpy.float64 / Python int (unit scale: rounded to a whole number) - and "
        "HOW THE WORKER IS DRIVEN - initialize() + run(), run() alone (README), SurfaceFrameField(...)() (Worker.__call__, must return the "
        "worker), run() twice before anything is read, initialize() + optimize() (+ run()) - and run() again between read-outs. With run() "
        "alone the constraints / operators are read from a twin (same options by keyword, initialize() on a fresh mesh) and run() must "
        "constrain the same elements; a drawn half of the non-plain cases is also compared with that twin after the run (constrained set, "
        "constraints, field on the constrained-solve path under the same conditioning bounds as 'sequence'; not with cad_correction, whose "
        "connection comes out of an iterative QP solve); in 'sequence' the fresh-mesh reference is always spelled the plain way. run() on a "
        "finished field must leave |var| as it is and, on the constrained-solve path, var within 1e-8. Read-outs are spelled too: "
        "flag_singularities() / (singul_attr_name='singuls') / ('singuls') / another attribute name by position or keyword (indices read "
        "from that attribute); export_as_mesh() / (repr_vector=False) / (False) / (0) / (numpy.bool_(False)) and, vertex fields, "
        "repr_vector=True (one tip per vertex in the direction arg(var) of the vertex basis); vertex-field flag_singularities is a history "
        "step that must leave the documented +-1 / 0 attribute on faces; ff.element and ff[i] (i = 0, last, numpy ints) must be the element "
        "kind and var[i]. Prior use of the mesh is drawn in both orders of the attribute calls, plus objects built by the caller beforehand "
        "(a FeatureEdgeDetector with creases and corner_order 6, face / vertex connections, face_near_border, cotan_weights, border queries). "
        "Surfaces include the smallest ones (one triangle, two triangles flat / folded, 3-fan, 3-strip, tetrahedron); labels show how often "
        "element 0 / the last element / edge 0 is constrained or free and whether vertex 0 is an interior singularity. The laplacian sub-check "
        "also spells the operator calls (arguments by position, cotan as numpy.bool_ / 0-1, order as numpy.int64, order / cotan left at "
        "their documented defaults, connection=None given explicitly with an order) and the connection constructors (feat=None by position "
        "/ keyword, vnormals=None / angles=None, the documented default border-only detector given by the caller): same operator / same "
        "bases and transports to 1e-12. Sub-check 'operators_big': a one-quad-wide planar strip with more than 2**16 vertices and more than "
        "2**16 faces, scalar Laplacians with uniform weights: shape, symmetry, constants in the kernel, off-diagonal pattern = mesh edges / "
        "pairs of faces across an interior edge, all negative. "
        "non-trivial = the mesh has >=1 free element and (order != 4 or features on) [large: > 2500 free elements; laplacian sub-check: an interior edge and "
        "order != 4; sequence: >=2 distinct (elements, order) steps and an interior edge]; distinct = distinct realised cases.")
ASSUMPTIONS = [
    "triangulated oriented manifold surfaces, min angle >= 8 deg, max angle <= 170 deg; for a vertex field every vertex has a "
    "tangent plane (angle-weighted sum of incident unit face normals has norm >= 1e-3)",
    "smooth_attach_weight is given explicitly whenever n_smooth > 0 (no ARPACK start vector); numpy.random is seeded per case",
    "a case whose partitioned system is numerically singular (cond > 1e12: negative cotangent weights of a non-Delaunay mesh, "
    "attach weight on an eigenvalue) defines no solution and is discarded",
    "an element left at |var| <= 1e-10 (the library's own 'no direction' threshold) is exempt from the unit-modulus oracle only "
    "where a zero is forced: the harness's own un-normalised solution vanishes there (constrained solve), or every vector of "
    "the lowest eigenspace of L x = lambda A x (vertices) / L x = lambda x (faces) vanishes there (closed surface, no "
    "constraint); such cases are counted under the label 'vanishing-element'",
    "comparisons against a recomputed solve / between two numberings are made only when the linear systems involved have "
    "condition number <= 1e6 and (numberings) no un-normalised value is below 1e-4 (reported as discards otherwise)",
    "numbering invariance is asserted only where the constraints are well posed: no face with two constrained edges, no "
    "vertex angle at a rounding tie of the corner detector, no (near-)cancelling constraint sum, no dihedral angle at "
    "the feature threshold; face order is never permuted",
    "integer-typed coordinate rows are used only for magnitudes below 1e5 (beyond, int64 products in numpy overflow silently)",
    "sequence: a step on the eigen path (closed surface, no constraint) is not compared with a fresh mesh (degenerate lowest "
    "eigenspaces make the vector picked depend on round-off); vertex-field flag_singularities is only a history step",
    "custom_connection: with a caller-supplied connection, tangency of the face-field constraint is asserted for order 4 only "
    "(a caller-supplied connection is not in the property's quantifier; with it the library hard-codes the 4th power whatever the "
    "order - observation C18-6 in DESIGN.md, env C18_ASSERT_CUSTOM_TANGENCY=1 asserts every order); vertex fields "
    "only with the Flat connection (a caller-built SurfaceConnectionVertices carries its own normals)",
    "sequence under display_duplicate_attribute_warning=True draws the `features` value per field (finding F-C18-7, stale 'fixed' "
    "face flags, was fixed in /repo; C18_FIXED_ATTRIBUTE_LOCAL=0 restores the restriction for bisecting); vertex-field meshes with "
    "an edge along a vertex normal are asserted (finding F-C18-8 fixed in /repo; C18_VERTEX_BASIS_ROBUST=0 discards them again)",
    "not drawn: complete_edges_from_faces=False (a surface without edge container has no feature edges to constrain), "
    "sort_neighborhoods=False for vertex fields (the vertex connection walks sorted rings), anisotropic scaling and float32 "
    "coordinates (change the geometry / the accuracy regime of the tangency and export tolerances)",
    "'planar' in the laplacian sub-check means embedded in the plane z=0 with one orientation (edge flips can fold a sheet over)",
    "call spellings: order and n_smooth stay Python ints (the constructor documents and enforces isinstance(int), numpy integers are "
    "refused by the unchanged library); flags may be bool / numpy.bool_ / 0-1 and the attach weight any positive real number type; "
    "positional passing follows the signature SurfaceFrameField(mesh, elements, order, features, verbose, n_smooth, "
    "smooth_attach_weight, use_cotan, cad_correction, smooth_normals, singularity_indices, custom_connection, custom_features)",
    "the same options spelled differently / the worker driven differently define the same field: asserted against the twin only on the "
    "constrained-solve path (a closed surface without constraint goes through a randomly started eigen-solve), with cond <= 1e6, "
    "without cad_correction; optimize() called directly, or run() after it, recomputes the same solve (constrained path) or another "
    "valid eigenvector (then only the invariants are asserted and the flags of one history are compared from that point on)",
    "export_as_mesh(repr_vector=True): only the direction of the exported vector is asserted (the docstring says 'representation "
    "vector', no length), its length must be positive",
    "the frame-field solvers themselves are not run beyond ~3400 elements (a face field on 32768 faces takes minutes): the regime "
    "beyond 2**16 elements is covered for the scalar operators with uniform weights only",
    "not drawn: double initialize() (the vertex field accumulates its constraints into var), custom_features, singularity_indices, "
    "numpy integers for order / n_smooth, one-shot iterables (no argument of these functions is a collection)",
]

# With a caller-supplied connection whose face bases are not on the constrained edge, /repo's face field hard-codes the 4th
# power of the edge direction whatever the order (proposed fix scratch/fixes/C18-6-*.diff): until that is repaired, tangency
# with a custom connection is asserted for order 4 only. Set to True (or C18_ASSERT_CUSTOM_TANGENCY=1) once the fix is in.
ASSERT_CUSTOM_TANGENCY_ANY_ORDER = __import__('os').environ.get('C18_ASSERT_CUSTOM_TANGENCY') == '1'

# With config.display_duplicate_attribute_warning = True, /repo's face field re-uses the 'fixed' face attribute left on the
# mesh by an earlier field (stale flags when the earlier field had more constrained faces; proposed fix
# scratch/fixes/C18-7-*.diff). Until that is repaired, histories under that switch keep one `features` value for all their
# face fields (same constrained faces). Set to True (or C18_FIXED_ATTRIBUTE_LOCAL=1) once the fix is in.
FIXED_ATTRIBUTE_IS_LOCAL = __import__('os').environ.get('C18_FIXED_ATTRIBUTE_LOCAL', '1') == '1'     # F-C18-7 fixed in /repo by 70a16db

# /repo's vertex connection takes the first ring edge as the X axis even when that edge is along the vertex normal (its
# tangent projection is round-off noise: X not orthogonal to the normal, Y not unit, export_as_mesh / project wrong at that
# vertex; e.g. a border vertex of a 3-sided open prism; proposed fix scratch/fixes/C18-8-*.diff). Until that is repaired such
# meshes are discarded for vertex fields. Set to True (or C18_VERTEX_BASIS_ROBUST=1) once the fix is in.
VERTEX_BASIS_ROBUST = __import__('os').environ.get('C18_VERTEX_BASIS_ROBUST', '1') == '1'     # F-C18-8 fixed in /repo by c128373

TOL_UNIT = 1e-9
TOL_SOLVE = 1e-8
COND_MAX = 1e6


# ----------------------------------------------------------------------------------------------- generators

def tri_grid(nu, nv, bits, folds=(), slope=1.0, fix_ears=False):
    """(nu x nv) quads split by per-quad diagonals; folded along the grid columns in `folds` (z piecewise linear in x,
    slope sign flips at every fold).  fix_ears: flip a diagonal whenever a triangle would own two border/fold edges."""
    z = [0.0]
    s = slope
    for i in range(1, nu + 1):
        if (i - 1) in folds and i - 1 > 0:
            s = -s
        z.append(z[-1] + (s if folds else 0.0))
    V = [[float(i), float(j), z[i]] for j in range(nv + 1) for i in range(nu + 1)]
    idx = lambda i, j: j * (nu + 1) + i
    feat = set()
    for i in range(nu):
        feat.add(key(idx(i, 0), idx(i + 1, 0))); feat.add(key(idx(i, nv), idx(i + 1, nv)))
    for j in range(nv):
        feat.add(key(idx(0, j), idx(0, j + 1))); feat.add(key(idx(nu, j), idx(nu, j + 1)))
        for c in folds:
            if 0 < c < nu:
                feat.add(key(idx(c, j), idx(c, j + 1)))

    def tris(q, bit):
        a, b, c, d = q
        return [[a, b, c], [a, c, d]] if bit == 0 else [[a, b, d], [b, c, d]]

    def nfeat(t):
        return sum(1 for k in range(3) if key(t[k], t[(k + 1) % 3]) in feat)

    F = []
    k = 0
    for j in range(nv):
        for i in range(nu):
            q = [idx(i, j), idx(i + 1, j), idx(i + 1, j + 1), idx(i, j + 1)]
            bit = bits[k % len(bits)] & 1 if bits else 0
            k += 1
            if fix_ears and max(nfeat(t) for t in tris(q, bit)) >= 2:
                bit ^= 1
            F += tris(q, bit)
    return V, F


def _angles_ok(V, F, lo=8.0, hi=170.0):
    return G.min_angle_deg(V, F) >= lo and G.max_angle_deg(V, F) <= hi


@st.composite
def panels(draw, roof=None, fix_ears=False, min_size=1):
    """triangulated grid panel, optionally folded into a roof / zig-zag, jittered, relabelled"""
    nu = draw(st.integers(max(min_size, 1), 6)); nv = draw(st.integers(max(min_size, 1), 5))
    bits = draw(st.lists(st.integers(0, 1), min_size=1, max_size=20))
    if roof is None:
        roof = draw(st.booleans())
    folds = []
    tags = ["base=panel"]
    slope = 1.0
    if roof and fix_ears:
        # a fold next to a corner quad always leaves a triangle with two constrained edges: keep folds 2 columns inside
        nu = max(nu, 4); nv = max(nv, 2)
        folds = [draw(st.integers(2, nu - 2))]
    elif roof and nu >= 2:
        c = draw(st.integers(1, nu - 1))
        folds = [c]
        if nu >= 4 and draw(st.booleans()):
            c2 = draw(st.integers(1, nu - 1))
            if abs(c2 - c) >= 2:
                folds.append(c2)
    if folds:
        slope = draw(st.sampled_from([0.8, 1.0, 1.5]))
        tags.append("folds=%d" % len(folds))
    V, F = tri_grid(nu, nv, bits, folds, slope, fix_ears)
    amp = draw(st.sampled_from([0.0, 0.03, 0.08]))
    Vj = G.jitter(V, draw(st.integers(0, 1000)), amp)
    if amp and _angles_ok(Vj, F):
        V = Vj
        tags.append("jitter")
    if draw(st.booleans()):
        V = G.rigid(V, draw(st.integers(0, 1000)))
        tags.append("rigid")
    if draw(st.booleans()):
        V, F, _ = G.relabel(V, F, draw(st.integers(0, 10000)))
        tags.append("relabelled")
    V = [[float(x) for x in v] for v in V]
    return {"V": V, "F": [list(map(int, f)) for f in F], "tags": tags + G.tags_of(V, F)}


@st.composite
def good_delaunay(draw, height=True):
    s = draw(G.delaunay_disks(max_pts=25, ear_removals=3, height=height))
    if not _angles_ok(s["V"], s["F"]):
        s = draw(panels(roof=False, fix_ears=True, min_size=3))
    return s


@st.composite
def regular_closed(draw):
    """exactly regular / symmetric closed polyhedra and tori (no jitter): symmetric spectra, forced zeros, parallel fields"""
    name = draw(st.sampled_from(["tet", "octa", "icosa", "bipyramid", "antiprism", "torus"]))
    V, F = G.compact(*G.op_triangulate_all(*G.build_base(name, draw(st.integers(0, 4)), draw(st.integers(0, 4))), draw(st.integers(0, 1))))
    tags = ["base=" + name, "regular"]
    if not _angles_ok(V, F) or SurfRef(len(V), F).validate() is not None:
        V, F = G.compact(*G.op_triangulate_all(*G.build_base("octa", 0, 0), 0))
        tags = ["base=octa", "regular"]
    if draw(st.booleans()):
        V, F, _ = G.relabel(V, F, draw(st.integers(0, 10000)))
    V = [[float(x) for x in v] for v in V]
    return {"V": V, "F": [list(map(int, f)) for f in F], "tags": tags + G.tags_of(V, F)}


@st.composite
def tiny(draw):
    """the smallest surfaces: one triangle, two triangles (flat or folded along the shared edge), the 3-fan around one interior
    vertex, the tetrahedron; optionally relabelled so that any vertex / face can be number 0 or the last one"""
    kind = draw(st.sampled_from(["one", "two", "two-folded", "fan3", "tet", "strip3"]))
    h = draw(st.sampled_from([0.7, 1.0, 1.9]))
    if kind == "one":
        V, F = [[0.0, 0.0, 0.0], [1.0, 0.0, 0.0], [0.3, h, 0.0]], [[0, 1, 2]]
    elif kind == "two":
        V, F = [[0.0, 0.0, 0.0], [1.0, 0.0, 0.0], [0.4, h, 0.0], [0.5, -h, 0.0]], [[0, 1, 2], [1, 0, 3]]
    elif kind == "two-folded":
        V, F = [[0.0, 0.0, 0.0], [1.0, 0.0, 0.0], [0.4, h, 0.0], [0.5, 0.1 * h, h]], [[0, 1, 2], [1, 0, 3]]
    elif kind == "fan3":
        V, F = G.fan(3, True)
        V = [[v[0], v[1], 0.3 * h if i == 0 else 0.0] for i, v in enumerate(V)]
    elif kind == "strip3":
        V, F = G.strip(3)
    else:
        V, F = G.tetrahedron()
    tags = ["base=tiny-" + kind]
    if draw(st.booleans()):
        V = G.rigid(V, draw(st.integers(0, 1000)))
        tags.append("rigid")
    if draw(st.booleans()):
        V, F, _ = G.relabel(V, F, draw(st.integers(0, 10000)))
        tags.append("relabelled")
    V = [[float(x) for x in v] for v in V]
    F = [list(map(int, f)) for f in F]
    if not _angles_ok(V, F) or SurfRef(len(V), F).validate() is not None:
        V, F = [[0.0, 0.0, 0.0], [1.0, 0.0, 0.0], [0.3, 1.0, 0.0]], [[0, 1, 2]]
        tags = ["base=tiny-one"]
    return {"V": V, "F": F, "tags": tags + G.tags_of(V, F)}


def any_surface():
    return st.one_of(tiny(), regular_closed(), G.well_shaped_trisurf(max_faces=60, bordered=False), G.well_shaped_trisurf(max_faces=60, bordered=False, closed_bases=("icosa", "torus", "antiprism")),
                     G.well_shaped_trisurf(max_faces=60, bordered=True), panels(), panels(min_size=3), panels(roof=True, min_size=3),
                     panels(roof=True, min_size=2), panels(roof=False, min_size=3), good_delaunay())


ORDERS = st.sampled_from([4, 2, 1, 3, 6, 5])


ALPHAS = [1e-3, 0.05, 1.0, 7.5]


@st.composite
def field_case(draw):
    s = draw(any_surface())
    elements = draw(st.sampled_from(["vertices", "faces"]))
    c = {"V": s["V"], "F": s["F"], "tags": s["tags"], "elements": elements, "order": draw(ORDERS),
         "features": draw(st.booleans()), "n_smooth": draw(st.sampled_from([0, 0, 1, 2, 3])),
         "alpha": draw(st.sampled_from(ALPHAS)), "cotan": draw(st.booleans()),
         "smooth_normals": draw(st.booleans()), "cad": False}
    if elements == "vertices":
        c["cad"] = draw(st.integers(0, 3)) == 0
    c.update(draw(extras()))
    c["ops"] = draw(OPS)
    c.update(draw(spelling()))
    c["pre_objs"] = draw(st.integers(0, 3)) == 0
    return c


# read-out histories: the usual one, export first, export twice, flag - export - flag; "run" = run() called again on the same
# field object (before any result is read / after results were read)
OPS = st.sampled_from([["flag"], ["flag"], ["export", "flag"], ["export", "export", "flag"], ["flag", "export", "flag"],
                       ["flag", "export"], ["export", "flag", "export", "flag"], ["run", "flag"], ["flag", "run", "flag"],
                       ["export", "run", "export", "flag"], ["flag", "export", "run", "flag", "export"]])

# how the caller spells the call (round 6): keywords (as before) / order and features by position as examples/framefield2D.py does /
# every option by position in the order of the signature / ... with the three trailing optional objects given as None / every
# argument whose value is the documented default left out / the optional objects passed explicitly as None / mesh and elements by
# keyword too
SPELLS = ["kw", "kw", "pos2", "pos", "pos_all", "omit", "explicit_none", "kw_all"]
# how the worker object is driven: initialize() + run() (as before) / run() alone (README, examples) / ff = SurfaceFrameField(...)()
# (Worker.__call__, the form the repository's tests use) / run() twice / initialize() + optimize() / ... then run()
STYLES = ["init+run", "init+run", "run", "call", "init+run+run", "run+run", "init+optimize", "init+optimize+run"]
RUN_ONLY = ("run", "call", "run+run")
DOC_DEFAULTS = {"order": 4, "features": True, "verbose": False, "n_smooth": 3, "use_cotan": True, "cad_correction": True,
                "smooth_normals": True}


@st.composite
def spelling(draw):
    """spelling of the constructor call, type of the flags / the attach weight, call history of the worker, spelling of the read-outs"""
    return {"spell": draw(st.sampled_from(SPELLS)), "flagform": draw(st.sampled_from([None, None, "npbool", "int"])),
            "numform": draw(st.sampled_from([None, None, "np", "int"])), "style": draw(st.sampled_from(STYLES)),
            "twin": draw(st.booleans()), "rsp": draw(st.integers(0, 3))}


SCALES = [1.0, 1.0, 1.0, 1e-3, 1e3, 1e-6, 1e6]


@st.composite
def extras(draw):
    """uniform scale of the geometry (the field is scale free), integer-typed coordinates, verbose switch"""
    return {"scale": draw(st.sampled_from(SCALES)), "int_coords": draw(st.integers(0, 3)) == 0, "verbose": draw(st.integers(0, 4)) == 0,
            "dup_warning": draw(st.booleans()), "pre_attrs": draw(st.integers(0, 2)) == 0,
            "offset_k": draw(st.sampled_from([0, 0, 0, 300, 300000])), "sort_off": draw(st.integers(0, 3)) == 0,
            "face_dtype": draw(st.sampled_from([None, None, None, "int32", "uint8", "int16", "int64"])),
            "bad_first": draw(st.integers(0, 4)) == 0}


@st.composite
def step(draw):
    elements = draw(st.sampled_from(["faces", "faces", "vertices"]))
    return {"elements": elements, "order": draw(ORDERS), "features": draw(st.booleans()),
            "n_smooth": draw(st.sampled_from([0, 0, 1, 2])), "alpha": draw(st.sampled_from(ALPHAS)), "cotan": draw(st.booleans()),
            "smooth_normals": draw(st.booleans()), "cad": False, "verbose": draw(st.integers(0, 5)) == 0, "ops": draw(OPS),
            **draw(spelling())}


@st.composite
def sequence_case(draw):
    """2-4 fields computed one after another on the SAME mesh object (orders / elements / options differ)"""
    s = draw(st.one_of(panels(min_size=3), panels(roof=True, min_size=3), panels(roof=False, min_size=3), good_delaunay(),
                       G.well_shaped_trisurf(max_faces=60, bordered=True), regular_closed(), G.well_shaped_trisurf(max_faces=60, bordered=False)))
    steps = draw(st.lists(step(), min_size=2, max_size=4))
    ex = draw(extras())
    return {"V": s["V"], "F": s["F"], "tags": s["tags"], "steps": steps, "scale": ex["scale"], "int_coords": ex["int_coords"],
            "dup_warning": ex["dup_warning"], "pre_attrs": ex["pre_attrs"], "offset_k": ex["offset_k"], "face_dtype": ex["face_dtype"],
            "repeat_first": draw(st.booleans()), "pre_objs": draw(st.integers(0, 3)) == 0}


@st.composite
def renumber_case(draw, elements):
    if elements == "faces":
        earfree = lambda s: G.n_ears(s["F"], len(s["V"])) == 0
        s = draw(st.one_of(panels(fix_ears=True, min_size=3), panels(roof=True, fix_ears=True, min_size=3),
                           G.well_shaped_trisurf(max_faces=60, bordered=True, open_bases=("cyl_u", "fan_closed")).filter(earfree),
                           good_delaunay().filter(earfree)))
    else:
        s = draw(st.one_of(panels(), panels(roof=True), G.well_shaped_trisurf(max_faces=60, bordered=True), good_delaunay()))
    return {"V": s["V"], "F": s["F"], "tags": s["tags"], "elements": elements, "order": draw(ORDERS),
            "features": draw(st.booleans()), "n_smooth": draw(st.sampled_from([0, 0, 1, 2])),
            "alpha": draw(st.sampled_from(ALPHAS)), "cotan": draw(st.booleans()),
            "smooth_normals": draw(st.booleans()), "cad": False, "perm_seed": draw(st.integers(0, 10 ** 6))}


@st.composite
def laplacian_case(draw):
    planar = draw(st.booleans())
    if planar:
        s = draw(st.one_of(panels(roof=False), good_delaunay(height=False),
                           G.well_shaped_trisurf(max_faces=60, bordered=True, open_bases=("grid", "fan_closed", "fan_open", "strip", "polygon"))))
        V = [[v[0], v[1], 0.0] for v in s["V"]] if "rigid" not in s["tags"] else s["V"]
        planar = "rigid" not in s["tags"] and all(abs(v[2]) < 1e-12 for v in s["V"])
        if planar:
            s = dict(s, V=V)
    else:
        s = draw(any_surface())
    return {"V": s["V"], "F": s["F"], "tags": s["tags"], "planar": bool(planar), "order": draw(ORDERS),
            "cotan": draw(st.booleans()), "flip": draw(st.booleans()), "lsp": draw(st.integers(0, 4))}


# ----------------------------------------------------------------------------------------------- helpers

def spelled_flag(x, form):
    """a flag as the caller may write it: bool / numpy.bool_ / 0-1"""
    if form == "npbool":
        return np.bool_(bool(x))
    if form == "int":
        return int(bool(x))
    return bool(x)


def canonical(case):
    """the same computation spelled the plain way (keywords, Python bools and floats, initialize() then run())"""
    return dict(case, spell="kw", flagform=None, numform=None, style="init+run", twin=False, alpha_exact=eff_alpha(case))


def make_ff(case, mesh):
    from mouette.processing.framefield.framefield import SurfaceFrameField
    conn = None
    if case.get("custom"):
        # documented option custom_connection: a connection object built by the caller
        from mouette.processing import connection as C
        if case["custom"] == "flat":
            conn = (C.FlatConnectionVertices if case["elements"] == "vertices" else C.FlatConnectionFaces)(mesh)
        else:
            conn = (C.SurfaceConnectionVertices if case["elements"] == "vertices" else C.SurfaceConnectionFaces)(mesh)
    ff_ = case.get("flagform")
    alpha = eff_alpha(case)
    if case.get("numform") == "np":
        alpha = np.float64(alpha)
    elif case.get("numform") == "int" and float(alpha).is_integer() and 0 < alpha < 2 ** 53:
        alpha = int(alpha)                 # (unit scale: eff_alpha made it a whole number)
    vals = [("order", int(case["order"])), ("features", spelled_flag(case["features"], ff_)),
            ("verbose", spelled_flag(case.get("verbose", False), ff_)), ("n_smooth", int(case["n_smooth"])),
            ("smooth_attach_weight", alpha), ("use_cotan", spelled_flag(case["cotan"], ff_)),
            ("cad_correction", spelled_flag(case["cad"], ff_)), ("smooth_normals", spelled_flag(case["smooth_normals"], ff_))]
    el = case["elements"]
    spell = case.get("spell") or "kw"
    ckw = {"custom_connection": conn} if conn is not None else {}
    if spell == "pos2":
        return SurfaceFrameField(mesh, el, vals[0][1], vals[1][1], **dict(vals[2:]), **ckw)
    if spell == "pos":
        return SurfaceFrameField(mesh, el, *[v for _, v in vals], **ckw)
    if spell == "pos_all":
        return SurfaceFrameField(mesh, el, *[v for _, v in vals], None, conn, None)
    if spell == "omit":
        kw = {k: v for k, v in vals if k != "smooth_attach_weight" and not (type(DOC_DEFAULTS[k])(v) == DOC_DEFAULTS[k])}
        if int(case["n_smooth"]) > 0:
            kw["smooth_attach_weight"] = alpha        # (None, the default, would estimate it with ARPACK)
        return SurfaceFrameField(mesh, el, **kw, **ckw)
    if spell == "explicit_none":
        return SurfaceFrameField(mesh, el, **dict(vals), singularity_indices=None, custom_connection=conn, custom_features=None)
    if spell == "kw_all":
        return SurfaceFrameField(mesh=mesh, elements=el, **dict(vals), **ckw)
    return SurfaceFrameField(mesh, el, **dict(vals), **ckw)


def eff_alpha(case):
    """the attach weight multiplies an area matrix: it carries 1/length^2, so the drawn value is given for the unit-scale mesh"""
    if case.get("alpha_exact") is not None:
        return float(case["alpha_exact"])          # (twin of a case whose weight was rounded: the same value)
    a = float(case["alpha"]) / float(case.get("scale", 1.0)) ** 2
    if case.get("numform") == "int" and float(case.get("scale", 1.0)) == 1.0:
        a = float(max(1, round(a)))          # a whole number, so that the caller can hand it over as a Python int
    return a


def quiet(f):
    """run f with stdout swallowed (verbose=True logs through print)"""
    import io, contextlib

    def g(*a, **k):
        with contextlib.redirect_stdout(io.StringIO()):
            return f(*a, **k)
    return g


def realise(case):
    """apply the drawn uniform scale and the translation (offset_k x scale x (1,-2,3): the field is translation invariant; with
    offset/size up to ~1e6 the geometry keeps ~1e-10 relative accuracy, well inside every tolerance used here)"""
    sc = float(case.get("scale", 1.0))
    k = float(case.get("offset_k", 0.0))
    off = (k * sc * 1.0, k * sc * -2.0, k * sc * 3.0)
    V = [[float(x) * sc + o for x, o in zip(v, off)] for v in case["V"]]
    return dict(case, V=V)


def apply_config(case, ctx):
    """library-wide switches drawn per case (the runner restores mouette.config after every case)"""
    import mouette as M
    M.config.display_duplicate_attribute_warning = bool(case.get("dup_warning", False))
    ctx.label("config.dup_warning=%s" % bool(case.get("dup_warning", False)))
    # unsorted neighbourhoods: only where no vertex ring order is needed (face fields; the vertex connection walks the rings)
    if case.get("sort_off") and case.get("elements") == "faces":
        M.config.sort_neighborhoods = False
        ctx.label("config.sort_neighborhoods=False")
    if case.get("face_dtype"):
        ctx.label("face_dtype=" + str(case["face_dtype"]))
    if case.get("offset_k"):
        ctx.label("offset/size=%g" % float(case["offset_k"]))


def prior_use(case, mesh, ctx):
    """the mesh may have been used before: public attribute functions called on it with their default (persistent) settings"""
    import mouette as M
    A = M.attributes
    if case.get("pre_attrs"):
        ctx.label("prior-attribute-calls")
        fs = (A.angle_defects, A.corner_angles, A.cotangent, A.vertex_normals, A.face_normals, A.face_area, A.edge_length)
        if case.get("pre_objs"):
            fs = fs[::-1]          # the other order: cotangents computed from the points first, the angles cached afterwards
        for f in fs:
            ok, _ = ctx.call("prior:" + f.__name__, f, mesh)
            if not ok:
                return False
    if case.get("pre_objs"):
        # objects a caller may have built on the mesh beforehand (round 6): a feature detector with other settings (leaves the
        # 'feature' / 'corners' attributes), connections (leave 'normals' / 'angles'), the face set near the border, border queries
        from mouette.processing import connection as C
        from mouette.processing.features import FeatureEdgeDetector
        ctx.label("prior-objects")
        ok, _ = ctx.call("prior:FeatureEdgeDetector", quiet(lambda: FeatureEdgeDetector(only_border=False, corner_order=6, verbose=False)(mesh)))
        if not ok: return False
        ok, _ = ctx.call("prior:SurfaceConnectionFaces", C.SurfaceConnectionFaces, mesh)
        if not ok: return False
        if case.get("elements") == "vertices":         # (a vertex connection needs the tangent planes the caller checked)
            ok, _ = ctx.call("prior:SurfaceConnectionVertices", C.SurfaceConnectionVertices, mesh)
            if not ok: return False
        for f, a in ((A.face_near_border, (mesh, 2)), (A.mean_edge_length, (mesh,)), (A.cotan_weights, (mesh,))):
            ok, _ = ctx.call("prior:" + f.__name__, f, *a)
            if not ok: return False
        ok, _ = ctx.call("prior:border-queries", lambda: (list(mesh.boundary_edges), list(mesh.boundary_vertices), list(mesh.interior_edges),
                                                          list(mesh.interior_vertices)))
        if not ok: return False
    return True


def build_mesh(case):
    """case geometry already realised; int_coords: coordinates handed over as integer numpy rows when they are integral;
    face_dtype: faces handed over as numpy rows of a (narrow) integer dtype"""
    import mouette as M
    from mouette.mesh.mesh_data import RawMeshData
    V = case["V"]
    # (magnitudes kept below 1e5: int64 products of three coordinates overflow silently beyond, which is numpy's arithmetic)
    as_int = bool(case.get("int_coords")) and all(float(x).is_integer() and abs(x) < 1e5 for v in V for x in v)
    fd = case.get("face_dtype")
    if fd and len(V) > np.iinfo(np.dtype(fd)).max:
        fd = None
    if not as_int and not fd:
        return surface_from(V, case["F"]), False
    raw = RawMeshData()
    if as_int:
        raw.vertices += [np.array([int(x) for x in v], dtype=np.int64) for v in V]
    else:
        raw.vertices += [list(map(float, v)) for v in V]
    if fd:
        raw.faces += [np.array(f, dtype=np.dtype(fd)) for f in case["F"]]
    else:
        raw.faces += [list(f) for f in case["F"]]
    return M.mesh.SurfaceMesh(raw), as_int


class Prefixed:
    """ctx proxy that prefixes every message (which step of a history failed)"""

    def __init__(self, ctx, where):
        self._c, self._w = ctx, where

    def check(self, cond, sig, msg="", **kw):
        return self._c.check(cond, sig, (self._w + msg) if not cond else msg, **kw)

    def __getattr__(self, name):
        return getattr(self._c, name)


def mesh_unchanged(case, mesh, ctx, where=""):
    """the mesh handed to the solver is an argument: geometry and connectivity must come back untouched"""
    try:
        Vm = np.array([[float(x) for x in v] for v in mesh.vertices]).reshape(-1, 3)
        Fm = [[int(x) for x in f] for f in mesh.faces]
    except Exception as e:
        ctx.check(False, "mesh-argument-modified", f"{where}cannot read the mesh back: {type(e).__name__}: {e}")
        return
    V = np.array(case["V"], dtype=float).reshape(-1, 3)
    ctx.check(Vm.shape == V.shape and bool(np.all(Vm == V)) and Fm == [list(map(int, f)) for f in case["F"]], "mesh-argument-modified",
              f"{where}vertices / faces of the mesh passed to SurfaceFrameField differ after the computation")


def vec3(x):
    return np.array([float(x[0]), float(x[1]), float(x[2])])


def lib_edges(mesh):
    return [tuple(int(x) for x in e) for e in mesh.edges]


def face_normals(V, F):
    A = np.array(V)
    N = np.cross(A[[f[1] for f in F]] - A[[f[0] for f in F]], A[[f[2] for f in F]] - A[[f[0] for f in F]])
    return N / np.linalg.norm(N, axis=1)[:, None]


def vertex_angle_sums(V, F):
    A = np.array(V)
    s = np.zeros(len(V))
    for f in F:
        for k in range(3):
            p, q, r = A[f[k]], A[f[(k + 1) % 3]], A[f[(k + 2) % 3]]
            u, w = q - p, r - p
            s[f[k]] += math.atan2(np.linalg.norm(np.cross(u, w)), float(np.dot(u, w)))
    return s


def min_vertex_normal_norm(V, F):
    """smallest norm of the angle-weighted sum of unit face normals around a vertex (0 = the vertex has no tangent plane, or an
    incident edge is (nearly) along the vertex normal and so has no direction in that plane)"""
    A = np.array(V)
    N = face_normals(V, F)
    acc = np.zeros((len(V), 3))
    for iF, f in enumerate(F):
        for k in range(3):
            p, q, r = A[f[k]], A[f[(k + 1) % 3]], A[f[(k + 2) % 3]]
            u, w = q - p, r - p
            acc[f[k]] += math.atan2(np.linalg.norm(np.cross(u, w)), float(np.dot(u, w))) * N[iF]
    used = sorted(set(v for f in F for v in f))
    nrm = np.linalg.norm(acc, axis=1)
    worst = float(np.min(nrm[used]))
    if worst < 1e-3:
        return worst
    # an incident edge along the vertex normal has no direction in the tangent plane either (it may be the reference edge)
    if VERTEX_BASIS_ROBUST:
        return worst
    N = acc / np.maximum(nrm, 1e-300)[:, None]
    for f in F:
        for k in range(3):
            a, b = f[k], f[(k + 1) % 3]
            E = A[b] - A[a]
            le = float(np.linalg.norm(E))
            for u in (a, b):
                if float(np.linalg.norm(np.cross(E, N[u]))) < 0.05 * le:
                    return 0.0
    return worst


def dense(M_):
    return np.asarray(M_.todense()) if hasattr(M_, "todense") else np.asarray(M_)


def library_operators(case, mesh, ff):
    import mouette as M
    if case["elements"] == "vertices":
        L = M.operators.laplacian(mesh, cotan=bool(case["cotan"]), connection=ff.conn, order=int(case["order"]))
        A = M.operators.area_weight_matrix(mesh)
    else:
        L = M.operators.laplacian_triangles(mesh, cotan=bool(case["cotan"]), connection=ff.conn, order=int(case["order"]))
        A = M.operators.area_weight_matrix_faces(mesh)
    return dense(L).astype(complex), dense(A).astype(complex)


EPS = 1e-15


def replicate_solve(L, A, free, fixed, var0, n_smooth, alpha):
    """The documented scheme (harmonic extension, then n_smooth attach-weighted solves) computed densely by the harness.
    Returns (list of un-normalised stage solutions on `free`, max condition number, a-priori bound on the round-off error of
    the final *normalised* values per free element: eps*cond*|x|_inf (+ propagated error of the previous stage) over |x_i|)."""
    LI = L[np.ix_(free, free)]
    LB = L[np.ix_(free, fixed)]
    valB = LB @ var0[fixed]
    conds = [np.linalg.cond(LI)]
    if not np.isfinite(conds[0]) or conds[0] > 1e12:
        return None, conds[0], None
    xs = [np.linalg.solve(LI, -valB)]

    def direction_error(x, dx):
        return dx / np.maximum(np.abs(x), 1e-300)

    err = direction_error(xs[0], EPS * conds[0] * float(np.max(np.abs(xs[0]))) if xs[0].size else 0.0)
    if n_smooth > 0:
        AI = A[np.ix_(free, free)]
        mat = LI - alpha * AI
        conds.append(np.linalg.cond(mat))
        if not np.isfinite(conds[-1]) or conds[-1] > 1e12:
            return xs, max(conds), None
        gain = float(np.linalg.norm(np.linalg.solve(mat, alpha * AI), 2))
        for _ in range(n_smooth):
            x = xs[-1].copy()
            nz = np.abs(x) > 1e-10
            x[nz] = x[nz] / np.abs(x[nz])
            xs.append(np.linalg.solve(mat, -valB - alpha * (AI @ x)))
            prev = float(np.linalg.norm(np.minimum(err, 2.0)))
            err = direction_error(xs[-1], EPS * conds[-1] * float(np.max(np.abs(xs[-1]))) + gain * prev)
    return xs, max(conds), err


def forced_zeros(L, A):
    """elements where every vector of the lowest eigenspace of (L, A) vanishes (A None = identity)"""
    import scipy.linalg as sl
    n = L.shape[0]
    H = (L + L.conj().T) / 2
    try:
        w, U = sl.eigh(H, None if A is None else (A + A.conj().T) / 2)
    except Exception:
        return np.zeros(n, dtype=bool)
    width = max(float(np.median(np.abs(w))), 1e-300)      # not the spectral width: one 1e8 weight would swamp it
    sel = (w - w[0]) <= 1e-6 * width
    amp = np.sqrt(np.sum(np.abs(U[:, sel]) ** 2, axis=1))
    # dense eigenvectors carry an error ~ eps * |H| / gap (cotangent weights of 1e8 occur on right-angled pairs)
    return amp <= max(1e-7, 1e-14 * float(np.max(np.abs(H)))) * float(np.max(amp))


def snapshot_connection(ff, n_el):
    """copies (never views) of the connection's bases and transports"""
    X = np.array([vec3(ff.conn.base(i)[0]) for i in range(n_el)], dtype=float).reshape(-1, 3).copy()
    Y = np.array([vec3(ff.conn.base(i)[1]) for i in range(n_el)], dtype=float).reshape(-1, 3).copy()
    T = {k: float(v) for k, v in ff.conn._transport.items()} if isinstance(getattr(ff.conn, "_transport", None), dict) else None
    return {"X": X, "Y": Y, "T": T}


def spelled_flag_call(ff, spelled):
    """flag_singularities as the caller may write it: () / (singul_attr_name="singuls") / ("singuls") / another attribute name,
    by position or by keyword. Returns (callable, attribute name)."""
    rsp, io = spelled
    if rsp == 1:
        return (lambda: ff.flag_singularities(singul_attr_name="singuls")), "singuls"
    if rsp == 2:
        return (lambda: ff.flag_singularities("singuls")), "singuls"
    if rsp == 3:
        name = ("cones", "s", "singuls2")[io % 3]
        if io % 2:
            return (lambda: ff.flag_singularities(name)), name
        return (lambda: ff.flag_singularities(singul_attr_name=name)), name
    return ff.flag_singularities, "singuls"


def flag_vertex_field(ff, mesh, nF, ctx, hist, spelled):
    f_, name = spelled_flag_call(ff, spelled)
    ok, _ = ctx.call("flag_singularities:vertices", quiet(f_))
    if not ok: return False
    if not ctx.check(mesh.faces.has_attribute(name), "no-singuls-attribute", f"{hist}flag_singularities() of a vertex field created no {name!r} attribute on faces"):
        return False
    at = mesh.faces.get_attribute(name)
    vals = [at[T] for T in range(nF)]
    return ctx.check(all(float(x) in (-1.0, 0.0, 1.0) for x in vals), "vertex-field-singularity-value",
                     f"{hist}vertex field: {name!r} holds {sorted(set(float(x) for x in vals))[:6]}, documented values are +-1 and 0")


def read_singularities(case, ff, mesh, ref, order, ctx, hist="", spelled=(0, 0)):
    """flag_singularities() of a face field + the quantum / index-sum oracles. Returns the index array or None."""
    nV = len(case["V"])
    f_, name = spelled_flag_call(ff, spelled)
    if name != "singuls":
        ctx.label("flag:custom-attribute-name")
    ok, _ = ctx.call("flag_singularities", quiet(f_))
    if not ok: return None
    if not ctx.check(mesh.vertices.has_attribute(name), "no-singuls-attribute", f"flag_singularities() created no {name!r} attribute"):
        return None
    sing = mesh.vertices.get_attribute(name)
    idxs = np.array([float(sing[v]) for v in range(nV)])
    bv = set(ref.border_vertices())
    q = 4.0 / order
    for v in range(nV):
        if v in bv or idxs[v] == 0:
            continue
        r = idxs[v] / q
        if not ctx.check(abs(r - round(r)) <= 1e-6, "index-not-quantised",
                         f"{hist}interior vertex {v}: index {idxs[v]!r} is not a multiple of 4/order = {q:.6g} (order {order})"):
            return None
    chi = ref.euler()
    n_unflagged = int(np.sum(idxs == 0))
    tol = n_unflagged * 1e-3 * 2 / math.pi + 1e-6
    ctx.label("singular-interior>0" if any(idxs[v] != 0 for v in range(nV) if v not in bv) else "singular-interior=0")
    if nV and 0 not in bv and idxs[0] != 0:
        ctx.label("vertex0:interior-singularity")
    if nV and (nV - 1) not in bv and idxs[nV - 1] != 0:
        ctx.label("last-vertex:interior-singularity")
    if not ctx.check(abs(float(np.sum(idxs)) - 4 * chi) <= tol, "index-sum",
                     f"{hist}indices sum to {float(np.sum(idxs))!r}, expected 4*chi = {4 * chi} (tolerance {tol:.2e}, {n_unflagged} "
                     f"unflagged vertices, order {order})"):
        return None
    return idxs


def check_export(case, poly, snap, var, V, medges, order, n_el, elements, ctx, hist=""):
    """export_as_mesh(): per element a centre and `order` branch tips at distance |var|*L (L = mean edge length / 3) in the
    directions (arg var + 2 k pi)/order of the element's tangent basis (bases read BEFORE the export)."""
    A3 = np.array(V, dtype=float)
    L = float(np.mean([np.linalg.norm(A3[b] - A3[a]) for (a, b) in medges])) / 3
    try:
        P = np.array([[float(x) for x in v] for v in poly.vertices], dtype=float).reshape(-1, 3)
        E = [tuple(int(x) for x in e) for e in poly.edges]
    except Exception as e:
        return ctx.check(False, "export-unreadable", f"{hist}export_as_mesh() returned {type(poly).__name__}: {type(e).__name__}: {e}")
    n = order + 1
    if not ctx.check(P.shape == (n_el * n, 3) and len(E) == n_el * order, "export-size",
                     f"{hist}exported polyline has {P.shape[0]} vertices / {len(E)} edges, expected {n_el * n} / {n_el * order}"):
        return False
    if not ctx.check(sorted(tuple(sorted(e)) for e in E) == sorted((n * i, n * i + k) for i in range(n_el) for k in range(1, n)), "export-edges",
                     f"{hist}exported edges are not centre -> branch tip for every element"):
        return False
    if elements == "faces":
        C = np.array([(A3[f[0]] + A3[f[1]] + A3[f[2]]) / 3 for f in case["F"]])
    else:
        C = A3
    big = float(np.max(np.abs(A3)))
    D = P.reshape(n_el, n, 3)
    cen = D[:, 0, :]
    tips = D[:, 1:, :] - cen[:, None, :]                      # (n_el, order, 3)
    dc = np.linalg.norm(cen - C, axis=1)
    i = int(np.argmax(dc)) if n_el else 0
    if not ctx.check(n_el == 0 or float(dc[i]) <= 1e-9 * max(L, big), "export-centre",
                     f"{hist}element {i}: exported centre {cen[i].tolist() if n_el else None} is not the element's reference point "
                     f"{C[i].tolist() if n_el else None}"):
        return False
    m = np.abs(var)
    ln = np.linalg.norm(tips, axis=2)
    dl = np.abs(ln - (m * L)[:, None])
    i, k = np.unravel_index(int(np.argmax(dl)), dl.shape) if dl.size else (0, 0)
    if not ctx.check(dl.size == 0 or float(dl[i, k]) <= 1e-7 * L + 1e-12 * big, "export-branch-length",
                     f"{hist}element {i} branch {k + 1}: length {float(ln[i, k]) if dl.size else None!r}, expected |var| * mean edge length / 3 = "
                     f"{float(m[i] * L) if dl.size else None!r}"):
        return False
    live = m > 1e-10
    if np.any(live):
        zx = np.einsum("ikj,ij->ik", tips, snap["X"]) + 1j * np.einsum("ikj,ij->ik", tips, snap["Y"])
        z = zx[live] / (m[live] * L)[:, None]
        dz = np.abs(z ** order - (var[live] / m[live])[:, None])
        i, k = np.unravel_index(int(np.argmax(dz)), dz.shape)
        if not ctx.check(float(dz[i, k]) <= 1e-6, "export-branch-direction",
                         f"{hist}element {int(np.where(live)[0][i])} branch {k + 1}: direction {z[i, k]} in the element's basis, its power {order} is "
                         f"{z[i, k] ** order} but var = {var[live][i]}"):
            return False
        if order > 1:
            gap = min(float(np.min(np.abs(z[:, a_] - z[:, b_]))) for a_ in range(order) for b_ in range(a_))
            if not ctx.check(gap >= math.sin(math.pi / order), "export-branches-coincide",
                             f"{hist}two of the {order} exported branches of an element coincide (smallest gap {gap:.3e})"):
                return False
    return True


def check_export_vector(case, poly, snap, var, V, medges, n_el, ctx, hist=""):
    """vertex field, export_as_mesh(repr_vector=True): "representation vector only" - per vertex the point and one tip, in the
    direction arg(var) of the vertex's tangent basis (the representation vector itself, not one of the branches)"""
    A3 = np.array(V, dtype=float)
    L = float(np.mean([np.linalg.norm(A3[b] - A3[a]) for (a, b) in medges])) / 3
    try:
        P = np.array([[float(x) for x in v] for v in poly.vertices], dtype=float).reshape(-1, 3)
        E = [tuple(int(x) for x in e) for e in poly.edges]
    except Exception as e:
        return ctx.check(False, "export-unreadable", f"{hist}export_as_mesh(repr_vector=True) returned {type(poly).__name__}: {type(e).__name__}: {e}")
    if not ctx.check(P.shape == (2 * n_el, 3) and len(E) == n_el, "export-size",
                     f"{hist}repr_vector=True: exported polyline has {P.shape[0]} vertices / {len(E)} edges, expected {2 * n_el} / {n_el}"):
        return False
    if not ctx.check(sorted(tuple(sorted(e)) for e in E) == [(2 * i, 2 * i + 1) for i in range(n_el)], "export-edges",
                     f"{hist}repr_vector=True: exported edges are not point -> tip for every vertex"):
        return False
    big = float(np.max(np.abs(A3)))
    D = P.reshape(n_el, 2, 3)
    dc = np.linalg.norm(D[:, 0, :] - A3, axis=1)
    i = int(np.argmax(dc)) if n_el else 0
    if not ctx.check(n_el == 0 or float(dc[i]) <= 1e-9 * max(L, big), "export-centre",
                     f"{hist}repr_vector=True: vertex {i}: exported point {D[i, 0].tolist() if n_el else None} is not the vertex"):
        return False
    tips = D[:, 1, :] - D[:, 0, :]
    m = np.abs(var)
    live = m > 1e-10
    if np.any(live):
        z = (np.einsum("ij,ij->i", tips, snap["X"]) + 1j * np.einsum("ij,ij->i", tips, snap["Y"]))[live]
        ln = np.abs(z)
        if not ctx.check(float(np.min(ln)) >= 1e-3 * L, "export-branch-length", f"{hist}repr_vector=True: a representation vector of length {float(np.min(ln))!r}"):
            return False
        dz = np.abs(z / ln - var[live] / m[live])
        i = int(np.argmax(dz))
        if not ctx.check(float(dz[i]) <= 1e-6 + 1e-12 * big / L, "export-vector-direction",
                         f"{hist}repr_vector=True: vertex {int(np.where(live)[0][i])}: exported direction {z[i] / ln[i]} in the vertex basis, "
                         f"but var / |var| = {var[live][i] / m[live][i]}"):
            return False
    return True


def partition(case, mesh, ff, ref, medges):
    """fixed / free element lists according to the library's feature set"""
    fe = sorted(int(e) for e in ff.feat.feature_edges)
    if case["elements"] == "vertices":
        fixed = sorted(int(v) for v in ff.feat.feature_vertices)
        fs = set(fixed)
        free = [v for v in range(len(case["V"])) if v not in fs]
    else:
        fs = set()
        for e in fe:
            a, b = medges[e]
            for T in (ref.direct_face(a, b), ref.direct_face(b, a)):
                if T is not None:
                    fs.add(T)
        fixed = sorted(fs)
        free = [T for T in range(len(case["F"])) if T not in fs]
    return fe, fixed, free


def common_labels(case, ctx, ref, nfree):
    for t in case.get("tags", []):
        if t.startswith(("base=", "genus=", "folds=", "loops=")) or t in ("closed", "bordered"):
            ctx.label(t)
    ctx.label("elements=" + case["elements"], "order=%d" % case["order"], "features=%s" % bool(case["features"]),
              "n_smooth=%d" % case["n_smooth"], "cotan=%s" % bool(case["cotan"]))
    ctx.nontrivial(nfree >= 1 and (case["order"] != 4 or bool(case["features"])))


def check_surface(case):
    ref = SurfRef(len(case["V"]), case["F"])
    err = ref.validate()
    if err is not None or any(len(f) != 3 for f in case["F"]):
        raise AssertionError("invalid generated case: %s" % err)
    return ref


# ----------------------------------------------------------------------------------------------- sub-check: field

def fn_field(case, ctx):
    ref = check_surface(case)
    case = realise(case)
    if case["elements"] == "vertices" and min_vertex_normal_norm(case["V"], case["F"]) < 1e-3:
        ctx.discard("a vertex without usable tangent plane (face normals cancel / an incident edge along the normal)")
        return
    apply_config(case, ctx)
    mesh, as_int = build_mesh(case)
    ctx.label("scale=%g" % float(case.get("scale", 1.0)), "verbose=%s" % bool(case.get("verbose", False)))
    if as_int:
        ctx.label("int-coords")
    if not prior_use(case, mesh, ctx):
        return
    if case.get("bad_first") and not rejected_calls(case, mesh, ctx):
        return
    if check_field(case, mesh, ref, ctx) is not None:
        mesh_unchanged(case, mesh, ctx)


def rejected_calls(case, mesh, ctx):
    """calls the documentation says are refused (order < 1, n_smooth < 0, attach weight <= 0, unknown element kind, optimize /
    flag_singularities before initialize), made on the mesh before the real computation: they must raise, leave the
    library-wide switches alone, and the ordinary computation afterwards must be unaffected"""
    import mouette as M
    from mouette.processing.framefield.framefield import SurfaceFrameField
    ctx.label("rejected-calls-first")
    cfg0 = {k: getattr(M.config, k) for k in ("complete_edges_from_faces", "sort_neighborhoods", "display_duplicate_attribute_warning")}
    bad = [dict(order=0), dict(order=-3), dict(n_smooth=-1), dict(smooth_attach_weight=-1.0), dict(smooth_attach_weight=0.0)]
    for kw in bad:
        try:
            SurfaceFrameField(mesh, case["elements"], **dict(dict(order=int(case["order"]), verbose=False), **kw))
            raised = False
        except Exception:
            raised = True
        if not ctx.check(raised, "invalid-argument-accepted", f"SurfaceFrameField(mesh, {case['elements']!r}, {kw}) did not raise"):
            return False
    try:
        SurfaceFrameField(mesh, "cells", order=4)
        raised = False
    except Exception:
        raised = True
    if not ctx.check(raised, "invalid-argument-accepted", "SurfaceFrameField(mesh, 'cells') did not raise"):
        return False
    ff = make_ff(case, mesh)
    for name in ("optimize", "flag_singularities"):
        try:
            quiet(getattr(ff, name))()
            raised = False
        except Exception:
            raised = True
        if not ctx.check(raised, "uninitialised-field-accepted", f"{name}() before initialize() did not raise"):
            return False
    cfg1 = {k: getattr(M.config, k) for k in cfg0}
    return ctx.check(cfg0 == cfg1, "config-changed-by-rejected-call", f"library-wide switches changed from {cfg0} to {cfg1} by calls that raised")


def check_field(case, mesh, ref, ctx, where="", rng_seed=None):
    """Compute one field on `mesh` (fresh or already used) and apply every oracle. Returns a dict of results, or None when
    the case was discarded / a (known) violation stopped it."""
    if where:
        ctx = Prefixed(ctx, where)
    V, F = case["V"], case["F"]
    nV, nF = len(V), len(F)
    order = int(case["order"])
    elements = case["elements"]
    n_el = nV if elements == "vertices" else nF
    bordered = len(ref.border_edges()) > 0
    out = {"sing": None}

    # call spelling / call history of the worker object (round 6)
    style = case.get("style") or "init+run"
    if case["cad"] and style in RUN_ONLY:
        style = "init+run"         # (the corrected connection comes out of an iterative QP solve: no twin to read the constraints from)
    spell = case.get("spell") or "kw"
    plain = spell == "kw" and not case.get("flagform") and not case.get("numform") and style == "init+run"
    ctx.label("spell=" + spell, "style=" + style, "flags=" + str(case.get("flagform") or "bool"), "alpha-as=" + ("int" if case.get("numform") == "int" and eff_alpha(case).is_integer() else "np" if case.get("numform") == "np" else "float"))
    ok, ff = ctx.call("construct", make_ff, case, mesh)
    if not ok: return
    # twin: the same field spelled the plain way on a fresh mesh (keywords, initialize() then run()). With run() alone it is where the
    # harness reads the constraints and the operators from before the run; otherwise it is compared with at the end.
    twin = None
    if style in RUN_ONLY or (case.get("twin") and not plain and not case["cad"]):
        mesh_t, _ = build_mesh(case)
        ok, ff_t = ctx.call("construct", make_ff, canonical(case), mesh_t)
        if not ok: return
        ok, _ = ctx.call("initialize", quiet(ff_t.initialize))
        if not ok: return
        twin = {"ff": ff_t, "mesh": mesh_t}
        ctx.label("twin")
    if style in RUN_ONLY:
        src, src_mesh = twin["ff"], twin["mesh"]
    else:
        ok, _ = ctx.call("initialize", quiet(ff.initialize))
        if not ok: return
        src, src_mesh = ff, mesh
    medges = lib_edges(src_mesh)
    if not ctx.check(hasattr(src.var, "shape") and tuple(np.shape(src.var)) == (n_el,), "var-shape",
                     f"after initialize() var has shape {np.shape(src.var)}, expected ({n_el},)"):
        return
    var0 = np.array(src.var, dtype=complex).copy()
    fe, fixed, free = partition(case, src_mesh, src, ref, medges)
    common_labels(case, ctx, ref, len(free))
    ctx.label("cad=%s" % bool(case["cad"]))
    ctx.label("free=0" if not free else "free>0", "fixed=0" if not fixed else "fixed>0")

    # constrained set: with features off (and no cad correction, which switches them on) it is exactly the border
    border_e = set(key(*e) for e in ref.border_edges())
    lib_fe = set(key(*medges[e]) for e in fe)
    if not ctx.check(border_e <= lib_fe, "border-not-constrained",
                     f"border edges {sorted(border_e - lib_fe)[:5]} are not among the constrained edges"):
        return
    if not case["features"] and not case["cad"]:
        if not ctx.check(lib_fe == border_e, "features-off-extra-constraints",
                         f"features are off but interior edges {sorted(lib_fe - border_e)[:5]} are constrained"):
            return

    # a constraint is a frame: unit modulus on every constrained element
    if fixed:
        m0 = np.abs(var0[fixed])
        badc = [fixed[k] for k in np.where(np.abs(m0 - 1.0) > TOL_UNIT)[0]]
        if not ctx.check(not badc, "constraint-not-unit",
                         f"after initialize() the constrained {elements} {badc[:8]} carry |var| = {[float(abs(var0[k])) for k in badc[:8]]} "
                         f"(order {order}, smooth_normals {bool(case['smooth_normals'])})"):
            return

    # vertex field following the edges in the connection's own metric (smooth_normals off, or an odd order): at a border
    # vertex the connection is scaled so that both border edges sit at a multiple of 2pi/order, so the constraint, measured
    # against either border edge, is the trivial frame
    if elements == "vertices" and not case["cad"] and not case["features"] and (not case["smooth_normals"] or order % 2 == 1) \
            and not case.get("custom"):
        for (a, b) in sorted(border_e):
            for (u, v) in ((a, b), (b, a)):
                q = var0[u] * cmath.exp(-1j * order * float(src.conn.transport(u, v)))
                if not ctx.check(abs(q - 1) <= 1e-9, "border-vertex-not-aligned",
                                 f"border vertex {u}: constraint {var0[u]} measured against border edge {(u, v)} is {q}, expected 1 "
                                 f"(order {order}, transport {float(src.conn.transport(u, v))!r})"):
                    return

    # operators as the library defines them (connection may have been corrected by initialize())
    L = A = None
    if free:
        ok, ops = ctx.call("operators", library_operators, case, src_mesh, src)
        if not ok: return
        L, A = ops
        if not ctx.check(L.shape == (n_el, n_el), "laplacian-shape", f"connection Laplacian has shape {L.shape}, expected {(n_el, n_el)}"):
            return
        sc = max(1.0, float(np.max(np.abs(L))))
        ctx.check(float(np.max(np.abs(L - L.conj().T))) <= 1e-12 * sc, "laplacian-not-hermitian",
                  f"max |L - L^H| = {float(np.max(np.abs(L - L.conj().T))):.3e} (scale {sc:.3g})")

    # harness-side replica of the documented scheme (asserted only for n_smooth = 0; otherwise used for exemptions)
    xs = cond = err = None
    if L is not None and fixed:
        xs, cond, err = replicate_solve(L, A, free, fixed, var0, int(case["n_smooth"]), eff_alpha(case))
        if not np.isfinite(cond) or cond > 1e12:
            # negative cotangent weights of a non-Delaunay mesh (or an attach weight hitting an eigenvalue) can make the
            # system exactly singular: no solution is defined, nothing to assert
            ctx.discard("singular linear system (cond > 1e12)")
            ctx.label("singular-system")
            return "discarded"

    if L is not None and not fixed and int(case["n_smooth"]) > 0:
        # eigen path followed by attach-weighted solves with L - alpha A: an attach weight sitting on an eigenvalue of (L, A)
        # (regular polyhedra, round numbers) makes that matrix exactly singular - no solution is defined
        cm = np.linalg.cond(L - eff_alpha(case) * A)
        if not np.isfinite(cm) or cm > 1e12:
            ctx.discard("singular linear system (cond > 1e12)")
            ctx.label("singular-system")
            return "discarded"
    if rng_seed is not None:
        np.random.seed(int(rng_seed))
    if style == "call":
        ok, back = ctx.call("run", quiet(ff))          # Worker.__call__: runs and returns the worker
        if not ok: return
        if not ctx.check(back is ff, "call-does-not-return-worker", f"SurfaceFrameField(...)() returned {type(back).__name__}, not the field object"):
            return
    elif style in ("init+optimize", "init+optimize+run"):
        ok, _ = ctx.call("optimize", quiet(ff.optimize))
        if not ok: return
        if style == "init+optimize+run":
            ok, _ = ctx.call("run", quiet(ff.run))
            if not ok: return
    else:
        ok, _ = ctx.call("run", quiet(ff.run))
        if not ok: return
        if style in ("init+run+run", "run+run"):
            ok, _ = ctx.call("run", quiet(ff.run))      # again, before any result is read
            if not ok: return
    if style in RUN_ONLY:
        # run() alone must have built the same constrained set as initialize() does
        fe2, fixed2, free2 = partition(case, mesh, ff, ref, lib_edges(mesh))
        if not ctx.check(fe2 == fe and fixed2 == fixed, "call-style-changes-constraints",
                         f"run() without initialize() constrains {elements} {fixed2[:8]}... ({len(fixed2)}), initialize() on a fresh mesh "
                         f"{fixed[:8]}... ({len(fixed)})"):
            return
    if not ctx.check(hasattr(ff.var, "shape") and tuple(np.shape(ff.var)) == (n_el,), "var-shape",
                     f"after run() var has shape {np.shape(ff.var)}, expected ({n_el},)"):
        return
    var = np.array(ff.var, dtype=complex)
    if not ctx.check(bool(np.all(np.isfinite(var.real)) and np.all(np.isfinite(var.imag))), "var-not-finite",
                     f"var has non-finite entries at {np.where(~np.isfinite(np.abs(var)))[0][:8].tolist()}"):
        return

    # (1) unit modulus
    mod = np.abs(var)
    vanishing = mod <= 1e-10
    if np.any(vanishing):
        # legitimate only where the un-normalised solution itself vanishes (exact symmetry): confirm with the replica
        legit = np.zeros(n_el, dtype=bool)
        undecided = False
        if not fixed:
            # eigen path (closed, no constraint): legitimate where every vector of the smoothest eigenspace of the documented
            # problem (L x = lambda A x on vertices, L x = lambda x on faces) vanishes, i.e. a zero forced by symmetry
            legit = forced_zeros(L, A if elements == "vertices" else None)
        elif xs is not None and cond is not None and cond <= COND_MAX and len(xs) == 1 + int(case["n_smooth"]):
            legit[np.array(free, dtype=int)[np.abs(xs[-1]) <= 1e-9]] = True
        else:
            undecided = True
        bad_van = np.where(vanishing & ~legit)[0]
        if undecided:
            ctx.discard("vanishing element, replica ill-conditioned")
            bad_van = np.array([], dtype=int)
        ctx.label("vanishing-element")
        if not ctx.check(len(bad_van) == 0, "zero-modulus:" + ("constrained-solve" if fixed else "eigen-solve"),
                         f"|var| = 0 on {elements} {bad_van[:8].tolist()} although the un-normalised solution does not vanish there "
                         f"(order {order})"):
            return
    bad = np.where((np.abs(mod - 1.0) > TOL_UNIT) & ~vanishing)[0]
    if not ctx.check(len(bad) == 0, "not-unit",
                     f"|var| != 1 on {elements} {bad[:8].tolist()}: moduli {mod[bad][:8].tolist()} (order {order}, n_smooth {case['n_smooth']})"):
        return

    # (2) constraints
    if elements == "vertices":
        if fixed:
            d = np.abs(var[fixed] - var0[fixed])
            k = int(np.argmax(d))
            ctx.check(float(d[k]) <= 1e-9, "constraint-moved",
                      f"vertex {fixed[k]} is constrained (value {var0[fixed[k]]} after initialize()) but ends at {var[fixed[k]]}")
    else:
        nfe = [0] * nF
        the_edge = [None] * nF
        for (a, b) in lib_fe:
            for (p, q) in ((a, b), (b, a)):
                T = ref.direct_face(p, q)
                if T is not None:
                    nfe[T] += 1
                    the_edge[T] = (p, q)
        A3 = np.array(V)
        n1 = 0
        for T in range(nF):
            if nfe[T] != 1:
                continue
            n1 += 1
            p, q = the_edge[T]
            e = A3[q] - A3[p]
            e = e / np.linalg.norm(e)
            X, Y = ff.conn.base(T)
            X, Y = vec3(X), vec3(Y)
            th = cmath.phase(complex(var[T]))
            best = min(float(np.linalg.norm(np.cross(math.cos((th + 2 * k * math.pi) / order) * X + math.sin((th + 2 * k * math.pi) / order) * Y, e)))
                       for k in range(order))
            if case.get("custom") and order != 4 and not ASSERT_CUSTOM_TANGENCY_ANY_ORDER:
                ctx.label("custom-connection:tangency-not-asserted(order!=4)")
                continue
            if not ctx.check(best <= 1e-7, "branch-not-tangent",
                             f"face {T} {F[T]} has exactly one constrained edge {(p, q)} but no branch of the order-{order} frame is "
                             f"parallel to it (smallest |sin| = {best:.3e}, var = {var[T]})"):
                break
            if not ctx.check(abs(var[T] - var0[T]) <= 1e-9, "constraint-moved",
                             f"face {T} is constrained (value {var0[T]} after initialize()) but ends at {var[T]}"):
                break
        ctx.label("single-constraint-faces>0" if n1 else "single-constraint-faces=0")

    # (4) n_smooth = 0: normalised harmonic extension of the constrained frames
    if int(case["n_smooth"]) == 0 and fixed and free:
        kind = "bordered" if bordered else "closed-with-features"
        if xs is None or cond > COND_MAX:
            ctx.discard("harmonic extension ill-conditioned (cond > 1e6)")
        else:
            x = xs[0]
            okm = (np.abs(x) >= 1e-6) & (err <= TOL_SOLVE / 10)      # direction determined to better than the tolerance
            if not np.all(okm):
                ctx.label("harmonic-some-elements-exempt")
            exp_ = x[okm] / np.abs(x[okm])
            got = var[np.array(free, dtype=int)[okm]]
            if exp_.size:
                d = np.abs(exp_ - got)
                k = int(np.argmax(d))
                ctx.label("harmonic-checked:" + kind)
                ctx.check(float(d[k]) <= TOL_SOLVE, "not-harmonic-extension",
                          f"{kind}: {elements[:-1]} {np.array(free)[okm][k]}: var = {got[k]}, normalised solution of L_II x = -L_IB var_B "
                          f"is {exp_[k]} (|x| = {abs(x[okm][k]):.3e}, cond {cond:.2e}, order {order})")

    # (5) round 6: the public accessors of the worker, and the twin spelled the plain way
    if not ctx.check(getattr(ff, "element", None) == elements, "field-element-name", f"ff.element is {getattr(ff, 'element', None)!r}, expected {elements!r}"):
        return
    for i in (0, n_el - 1, np.int64(0), np.int32(n_el - 1)):
        ok, zi = ctx.call("getitem", lambda i=i: ff[i])
        if not ok: return
        if not ctx.check(zi is not None and complex(zi) == complex(var[int(i)]), "field-item-access",
                         f"ff[{i!r}] is {zi!r} but ff.var[{int(i)}] is {var[int(i)]!r}"):
            return
    # element 0 / the last element in each role (labels: how often each occurs)
    fx = set(fixed)
    ctx.label("first-element:" + ("constrained" if 0 in fx else "free"), "last-element:" + ("constrained" if n_el - 1 in fx else "free"),
              "edge0:" + ("constrained" if 0 in set(fe) else "free"))
    if twin is not None:
        ff_t = twin["ff"]
        _, fixed_t, _ = partition(case, twin["mesh"], ff_t, ref, lib_edges(twin["mesh"]))
        if not ctx.check(fixed_t == fixed, "spelling-changes-constraints",
                         f"{spell} / {style} / flags as {case.get('flagform') or 'bool'}: constrained {elements} {fixed[:8]}... ({len(fixed)}), "
                         f"but {fixed_t[:8]}... ({len(fixed_t)}) with every option given by keyword on a fresh mesh"):
            return
        v0t = np.array(ff_t.var, dtype=complex)
        if fixed:
            d = np.abs(v0t[fixed] - var0[fixed])
            k = int(np.argmax(d))
            if not ctx.check(float(d[k]) <= 1e-9, "spelling-changes-constraints",
                             f"{spell} / {style}: constraint of {elements[:-1]} {fixed[k]} is {var0[fixed[k]]}, but {v0t[fixed[k]]} with every option "
                             f"given by keyword on a fresh mesh"):
                return
        if rng_seed is not None:
            np.random.seed(int(rng_seed))
        ok, _ = ctx.call("run", quiet(ff_t.run))
        if not ok: return
        vt = np.array(ff_t.var, dtype=complex)
        if fixed and vt.shape == var.shape and (cond is None or cond <= COND_MAX):
            d = np.abs(vt - var)
            k = int(np.argmax(d))
            ctx.label("twin-compared")
            if not ctx.check(float(d[k]) <= TOL_SOLVE, "spelling-changes-field",
                             f"{spell} / {style} / flags as {case.get('flagform') or 'bool'} / attach weight as {case.get('numform') or 'float'}: "
                             f"{elements[:-1]} {k}: var = {var[k]}, but {vt[k]} with every option given by keyword and initialize() + run() on a "
                             f"fresh mesh (order {order}, n_smooth {case['n_smooth']}, cond {cond!r})"):
                return

    # (3) read-out history: export_as_mesh / flag_singularities / run() again in the drawn order (default: flag once). Reading a
    # field out must not change it: every flag gives quantised indices summing to 4*chi, all flags of one history agree, every
    # export is the field's frames, run() on a finished field leaves it as it is, and var / the connection come back untouched
    ops = list(case.get("ops") or ["flag"])
    ctx.label("ops=" + "".join(o[0] for o in ops))
    rsp = int(case.get("rsp") or 0)
    ctx.label("readout-spelling=%d" % rsp)
    small = n_el <= 400
    snap = snapshot_connection(ff, n_el) if small else None
    first_sing = None
    for io, op in enumerate(ops):
        hist = f"after {ops[:io + 1]}: "
        if op == "run":
            ok, _ = ctx.call("run-again", quiet(ff.run))
            if not ok: return
            v2 = np.array(ff.var, dtype=complex)
            if not ctx.check(v2.shape == var.shape and bool(np.all(np.isfinite(np.abs(v2)))), "var-shape", f"{hist}var has shape {v2.shape} / non-finite entries"):
                return
            dm = np.abs(np.abs(v2) - mod)
            if not ctx.check(dm.size == 0 or float(np.max(dm)) <= TOL_UNIT, "rerun-changes-field",
                             f"{hist}run() on a finished field changed |var| of {elements[:-1]} {int(np.argmax(dm)) if dm.size else None} from "
                             f"{float(mod[int(np.argmax(dm))]) if dm.size else None!r} to {float(abs(v2[int(np.argmax(dm))])) if dm.size else None!r}"):
                return
            if fixed and (cond is None or cond <= COND_MAX):
                d = np.abs(v2 - var)
                k = int(np.argmax(d))
                if not ctx.check(float(d[k]) <= TOL_SOLVE, "rerun-changes-field",
                                 f"{hist}run() on a finished field changed {elements[:-1]} {k} from {var[k]} to {v2[k]}"):
                    return
            if not np.all(v2 == var):
                first_sing = None          # (eigen path recomputed from another random start: another valid field)
                ctx.label("rerun-recomputed")
            var = v2
            mod = np.abs(var)
        elif op == "export":
            if not small:
                continue
            vec = elements == "vertices" and rsp == 3 and io % 2 == 0
            if elements == "faces" or rsp == 0:
                f_ = ff.export_as_mesh
            elif vec:
                f_ = lambda: ff.export_as_mesh(repr_vector=True)
            elif rsp == 1:
                f_ = lambda: ff.export_as_mesh(repr_vector=False)
            elif rsp == 2:
                f_ = lambda: ff.export_as_mesh(False)
            else:
                f_ = lambda: ff.export_as_mesh(repr_vector=(0 if io % 4 == 1 else np.bool_(False)))
            ok, poly = ctx.call("export_as_mesh", quiet(f_))
            if not ok: return
            if vec:
                ctx.label("export:repr_vector")
                if not check_export_vector(case, poly, snap, var, V, medges, n_el, ctx, hist):
                    return
            elif not check_export(case, poly, snap, var, V, medges, order, n_el, elements, ctx, hist):
                return
        elif elements == "faces":
            idxs = read_singularities(case, ff, mesh, ref, order, ctx, hist, spelled=(rsp, io))
            if idxs is None:
                return
            if first_sing is None:
                first_sing = idxs
                out["sing"] = idxs
            else:
                j = int(np.argmax(np.abs(idxs - first_sing)))
                if not ctx.check(abs(idxs[j] - first_sing[j]) <= 1e-6, "singularities-change-with-history",
                                 f"{hist}index of vertex {j} is {idxs[j]!r}, the first flag_singularities() gave {first_sing[j]!r}"):
                    return
        elif case.get("rsp") is not None:
            # vertex field: singularity values are not asserted (DESIGN); the call is a step of the history and must produce the
            # documented attribute (+-1 / 0 per face) under the name asked for
            if not flag_vertex_field(ff, mesh, nF, ctx, hist, (rsp, io)):
                return
    if len(ops) > 1 or ops != ["flag"]:
        var2 = np.array(ff.var, dtype=complex)
        if not ctx.check(var2.shape == var.shape and bool(np.all(var2 == var)), "readout-modified-field",
                         f"var changed while reading the field out with {ops}"):
            return
        if snap is not None:
            snap2 = snapshot_connection(ff, n_el)
            dX = float(np.max(np.abs(snap2["X"] - snap["X"]))) if n_el else 0.0
            dY = float(np.max(np.abs(snap2["Y"] - snap["Y"]))) if n_el else 0.0
            if not ctx.check(dX == 0 and dY == 0 and snap2["T"] == snap["T"], "readout-modified-connection",
                             f"the connection's local bases / transports changed while reading the field out with {ops} "
                             f"(max change of X {dX:.3e}, of Y {dY:.3e})"):
                return
    out.update(var=var, var0=var0, fixed=fixed, free=free, cond=cond, ff=ff)
    return out


# ----------------------------------------------------------------------------------------------- sub-check: sequence

def fn_sequence(case, ctx):
    """Several fields on one mesh object: every one of them must satisfy every oracle, and must be the field (and the
    singularity indices) obtained on a fresh mesh with the same options and the same numpy.random state."""
    ref = check_surface(case)
    case = realise(case)
    V, F = case["V"], case["F"]
    steps = [dict(st_) for st_ in case["steps"]]
    if case.get("repeat_first"):
        steps.append(dict(steps[0]))           # a re-computed field after others
    if case.get("dup_warning") and not FIXED_ATTRIBUTE_IS_LOCAL:
        ff_ = [c for c in steps if c["elements"] == "faces"]
        if len(set(bool(c["features"]) for c in ff_)) > 1:
            for c in ff_:
                c["features"] = ff_[0]["features"]
            ctx.label("dup_warning:face-steps-share-features(C18-7)")
    if any(c["elements"] == "vertices" for c in steps) and min_vertex_normal_norm(V, F) < 1e-3:
        ctx.discard("a vertex without usable tangent plane (face normals cancel / an incident edge along the normal)")
        return
    for t in case.get("tags", []):
        if t.startswith("base=") or t in ("closed", "bordered"):
            ctx.label(t)
    ctx.label("steps=%d" % len(steps), "scale=%g" % float(case.get("scale", 1.0)))
    kinds = [(c["elements"], c["order"]) for c in steps]
    ctx.label("mixed-elements" if len(set(k[0] for k in kinds)) > 1 else "one-element-kind")
    nface = sum(1 for k in kinds if k[0] == "faces")
    ctx.label("face-fields>=2" if nface >= 2 else "face-fields<2")
    ctx.nontrivial(len(set(kinds)) >= 2 and any(not ref.edge_on_border(*e) for e in ref.uedges))
    apply_config(case, ctx)
    mesh, as_int = build_mesh(case)
    if as_int:
        ctx.label("int-coords")
    if not prior_use(case, mesh, ctx):
        return
    sing_sets = []
    earlier = []
    for k, cfg in enumerate(steps):
        c = dict(cfg, V=V, F=F, scale=float(case.get("scale", 1.0)), twin=False)      # (the fresh mesh below is the twin)
        where = f"step {k} of {[(x['elements'][0], x['order'], int(x['features'])) for x in steps]} on one mesh object: "
        r = check_field(c, mesh, ref, ctx, where, rng_seed=1000 + k)
        if r is None:
            return
        if r == "discarded":
            continue
        if c["elements"] == "vertices":
            # history step only (vertex-field singularity values are not asserted): must not disturb what follows
            ok, _ = ctx.call("flag_singularities:vertices", quiet(r["ff"].flag_singularities))
            if not ok: return
        earlier.append((k, c, r))
        fresh_mesh, _ = build_mesh(case)
        rf = check_field(canonical(c), fresh_mesh, ref, ctx, f"(fresh mesh, options of step {k}) ", rng_seed=1000 + k)
        if rf is None:
            return
        if rf == "discarded" or (r["cond"] is not None and r["cond"] > COND_MAX):
            continue
        if not r["fixed"]:
            # eigen path: on symmetric closed meshes the lowest eigenspace is degenerate and the vector picked depends on
            # round-off level differences (e.g. cotangents re-used from a cached attribute): nothing to compare
            ctx.label("eigen-step-not-compared")
            continue
        d = np.abs(r["var"] - rf["var"])
        j = int(np.argmax(d)) if d.size else 0
        if not ctx.check(d.size == 0 or float(d[j]) <= TOL_SOLVE, "reused-mesh-field-differs",
                         f"{where}{c['elements']} field differs from the one computed on a fresh mesh with the same options: element {j}: "
                         f"{r['var'][j] if d.size else None} vs {rf['var'][j] if d.size else None}"):
            return
        if r["sing"] is not None and rf["sing"] is not None:
            ds = np.abs(r["sing"] - rf["sing"])
            j = int(np.argmax(ds))
            if not ctx.check(float(ds[j]) <= 1e-6, "reused-mesh-singularities-differ",
                             f"{where}singularity index of vertex {j} is {r['sing'][j]!r}, on a fresh mesh {rf['sing'][j]!r}"):
                return
            sing_sets.append(frozenset(np.where(r["sing"] != 0)[0].tolist()))
    ctx.label("distinct-singular-sets" if len(set(sing_sets)) >= 2 else "same-singular-sets")
    # independent field objects: the earlier ones must be what they were after the later ones were computed on the same mesh
    for (k, c, r) in earlier[:-1]:
        ff = r["ff"]
        v2 = np.array(ff.var, dtype=complex)
        if not ctx.check(v2.shape == r["var"].shape and bool(np.all(v2 == r["var"])), "earlier-field-disturbed",
                         f"var of the field of step {k} changed while later fields were computed on the same mesh"):
            return
        if c["elements"] == "faces" and r["sing"] is not None:
            idxs = read_singularities(c, ff, mesh, ref, int(c["order"]), ctx, f"step {k} flagged again after the later steps: ")
            if idxs is None:
                return
            j = int(np.argmax(np.abs(idxs - r["sing"])))
            if not ctx.check(abs(idxs[j] - r["sing"][j]) <= 1e-6, "earlier-field-disturbed",
                             f"step {k} flagged again after the later steps: index of vertex {j} is {idxs[j]!r}, it was {r['sing'][j]!r}"):
                return
            ctx.label("earlier-field-reflagged")
    mesh_unchanged(case, mesh, ctx)


# ----------------------------------------------------------------------------------------------- sub-check: custom connection

@st.composite
def custom_case(draw):
    """documented option custom_connection: Flat connections on an embedded planar mesh turned by an arbitrary in-plane angle,
    or a SurfaceConnectionFaces built by the caller with its default (border-only) features while the field uses creases"""
    kind = draw(st.sampled_from(["flat", "surface", "flat"]))
    if kind == "flat":
        elements = draw(st.sampled_from(["faces", "vertices", "faces"]))
        s = draw(st.one_of(panels(roof=False, min_size=2), panels(roof=False, fix_ears=True, min_size=3), good_delaunay(height=False)))
        ang = draw(st.floats(0.0, 6.28))
        ca, sa = math.cos(ang), math.sin(ang)
        V = s["V"]
        if "rigid" in s["tags"] or any(abs(v[2]) > 1e-12 for v in V):
            V0, F0 = tri_grid(3, 3, [0, 1, 1], fix_ears=True)
            s = {"V": V0, "F": F0, "tags": ["base=panel"] + G.tags_of(V0, F0)}
            V = s["V"]
        V = [[ca * v[0] - sa * v[1], sa * v[0] + ca * v[1], 0.0] for v in V]
        s = dict(s, V=V)
        features = draw(st.booleans())
    else:
        elements = "faces"
        s = draw(st.one_of(panels(roof=True, min_size=3), panels(roof=True, fix_ears=True, min_size=3), G.well_shaped_trisurf(max_faces=60, bordered=True)))
        features = True
    return {"V": s["V"], "F": s["F"], "tags": s["tags"], "custom": kind, "elements": elements,
            "order": draw(st.sampled_from([4, 4, 2, 1, 3, 6, 5])), "features": features,
            "n_smooth": draw(st.sampled_from([0, 0, 1, 2])), "alpha": draw(st.sampled_from(ALPHAS)), "cotan": draw(st.booleans()),
            "smooth_normals": draw(st.booleans()), "cad": False,
            "ops": draw(OPS) if elements == "faces" else ["flag"], **draw(spelling())}


def fn_custom(case, ctx):
    ref = check_surface(case)
    V, F = case["V"], case["F"]
    if case["custom"] == "flat":
        A3 = np.array(V)
        sa = [float(np.cross(A3[f[1]] - A3[f[0]], A3[f[2]] - A3[f[0]])[2]) for f in F]
        if not (all(x > 1e-9 for x in sa) or all(x < -1e-9 for x in sa)) or any(abs(v[2]) > 1e-12 for v in V):
            ctx.discard("flat connection needs a mesh embedded in the plane z = 0")
            return
    ctx.label("custom=" + case["custom"])
    mesh = surface_from(V, F)
    if check_field(case, mesh, ref, ctx) is not None:
        mesh_unchanged(case, mesh, ctx)


# ----------------------------------------------------------------------------------------------- sub-check: large

@st.composite
def large_case(draw):
    """a jittered panel with more than 2500 free elements (well above any plausible size threshold inside the solver)"""
    elements = draw(st.sampled_from(["vertices", "vertices", "faces"]))
    nu = draw(st.integers(52, 60)); nv = draw(st.integers(52, 56))
    if elements == "faces":
        nu = draw(st.integers(38, 44)); nv = draw(st.integers(38, 42))
    return {"nu": nu, "nv": nv, "bits": draw(st.lists(st.integers(0, 1), min_size=1, max_size=12)), "jitter_seed": draw(st.integers(0, 1000)),
            "amp": draw(st.sampled_from([0.05, 0.0, 0.1])), "roof": draw(st.integers(0, 3)) == 3,
            "elements": elements, "order": draw(ORDERS), "features": draw(st.booleans()), "n_smooth": 0, "alpha": 1.0,
            "cotan": draw(st.booleans()), "smooth_normals": draw(st.booleans()), "cad": False,
            "spell": draw(st.sampled_from(SPELLS)), "flagform": draw(st.sampled_from([None, "npbool", "int"]))}


def fn_large(case, ctx):
    """n_smooth = 0 on a big bordered mesh: unit modulus, constraints kept, and the normalised harmonic extension recomputed
    with a sparse direct solve of the library's connection Laplacian (error bound from the extreme eigenvalues)."""
    import scipy.sparse as sp
    import scipy.sparse.linalg as spl
    import mouette as M
    nu, nv = int(case["nu"]), int(case["nv"])
    folds = [nu // 2] if case.get("roof") else []
    V, F = tri_grid(nu, nv, case["bits"], folds, 1.0, True)
    if case["amp"]:
        Vj = G.jitter(V, int(case["jitter_seed"]), float(case["amp"]))
        if _angles_ok(Vj, F):
            V = Vj
    V = [[float(x) for x in v] for v in V]
    c = dict(case, V=V, F=F)
    ref = SurfRef(len(V), F)
    elements, order = case["elements"], int(case["order"])
    n_el = len(V) if elements == "vertices" else len(F)
    mesh = surface_from(V, F)
    ok, ff = ctx.call("construct", make_ff, c, mesh)
    if not ok: return
    ok, _ = ctx.call("initialize", ff.initialize)
    if not ok: return
    var0 = np.array(ff.var, dtype=complex).copy()
    medges = lib_edges(mesh)
    fe, fixed, free = partition(c, mesh, ff, ref, medges)
    ctx.label("elements=" + elements, "order=%d" % order, "cotan=%s" % bool(case["cotan"]), "features=%s" % bool(case["features"]),
              "free>3500" if len(free) > 3500 else "free>2500" if len(free) > 2500 else "free<=2500", "spell=" + str(case.get("spell") or "kw"))
    ctx.nontrivial(len(free) > 2500)
    if elements == "vertices":
        Ls = M.operators.laplacian(mesh, cotan=bool(case["cotan"]), connection=ff.conn, order=order)
    else:
        Ls = M.operators.laplacian_triangles(mesh, cotan=bool(case["cotan"]), connection=ff.conn, order=order)
    Ls = sp.csc_matrix(Ls).astype(complex)
    fr, fx = np.array(free, dtype=int), np.array(fixed, dtype=int)
    LI = Ls[fr, :][:, fr].tocsc()
    rhs = -(Ls[fr, :][:, fx] @ var0[fx])
    lu = spl.splu(LI)
    x = lu.solve(rhs)
    # 1-norm condition estimate from a few extra solves (Hager / Higham; numpy.random is seeded by the runner)
    try:
        inv = spl.LinearOperator(LI.shape, matvec=lambda b_: lu.solve(np.asarray(b_, dtype=complex).ravel()),
                                 rmatvec=lambda b_: lu.solve(np.asarray(b_, dtype=complex).ravel(), "H"), dtype=complex)
        cond = float(spl.onenormest(LI)) * float(spl.onenormest(inv))
    except Exception:
        cond = float("nan")
    ok, _ = ctx.call("run", ff.run)
    if not ok: return
    var = np.array(ff.var, dtype=complex)
    if not ctx.check(var.shape == (n_el,) and bool(np.all(np.isfinite(np.abs(var)))), "var-shape", f"var has shape {var.shape} / non-finite entries"):
        return
    mod = np.abs(var)
    forced = np.zeros(n_el, dtype=bool)
    forced[fr[np.abs(x) <= 1e-9]] = True          # the harness's own un-normalised solution vanishes there (exact symmetry)
    if np.any(forced & (mod <= 1e-10)):
        ctx.label("vanishing-element")
    bad = np.where((np.abs(mod - 1) > TOL_UNIT) & ~(forced & (mod <= 1e-10)))[0]
    if not ctx.check(len(bad) == 0, "not-unit", f"large mesh ({len(free)} free {elements}): |var| != 1 on {bad[:8].tolist()}: {mod[bad][:8].tolist()}"):
        return
    d = np.abs(var[fx] - var0[fx])
    if not ctx.check(float(np.max(d)) <= 1e-9, "constraint-moved", f"large mesh: constrained {elements[:-1]} {fixed[int(np.argmax(d))]} moved by {float(np.max(d)):.3e}"):
        return
    if not (np.isfinite(cond) and cond <= 1e12):
        ctx.discard("large system: no usable condition estimate")
        return
    err = 10 * EPS * cond * float(np.max(np.abs(x))) / np.maximum(np.abs(x), 1e-300)
    okm = (np.abs(x) >= 1e-6) & (err <= TOL_SOLVE / 10)
    ctx.label("compared>=90%" if np.mean(okm) >= 0.9 else "compared<90%")
    if not np.any(okm):
        ctx.discard("large system: round-off bound above 1e-9 everywhere (cond %.1e)" % cond)
        return
    exp_ = x[okm] / np.abs(x[okm])
    got = var[fr[okm]]
    dd = np.abs(exp_ - got)
    k = int(np.argmax(dd))
    ctx.check(float(dd[k]) <= TOL_SOLVE, "not-harmonic-extension",
              f"large mesh ({len(free)} free {elements}, order {order}, cotan {bool(case['cotan'])}): {elements[:-1]} {int(fr[okm][k])}: var = {got[k]}, "
              f"normalised solution of L_II x = -L_IB var_B is {exp_[k]} (|x| = {abs(x[okm][k]):.3e}, cond ~ {cond:.2e}, difference {float(dd[k]):.3e})")


# ----------------------------------------------------------------------------------------------- sub-check: renumbering

def constraint_well_posed(case, ref, ctx):
    """harness-side preconditions under which the constraints are a continuous function of the geometry"""
    V, F = case["V"], case["F"]
    order = int(case["order"])
    N = face_normals(V, F)
    if case["features"]:
        for (a, b) in ref.uedges:
            f1, f2 = ref.direct_face(a, b), ref.direct_face(b, a)
            if f1 is None or f2 is None:
                continue
            if abs(float(np.dot(N[f1], N[f2])) - 0.5) < 1e-6:
                return "dihedral angle at the feature threshold"
    if case["elements"] == "vertices":
        ang = vertex_angle_sums(V, F)
        for v in range(len(V)):
            t = ang[v] * order / (2 * math.pi)
            if t >= 1 - 1e-6 and abs((t % 1.0) - 0.5) < 1e-6:
                return "vertex angle at a rounding tie of the corner detector"
    return None


def run_field(case, V, F, ctx, tag):
    mesh = surface_from(V, F)
    ok, ff = ctx.call("construct", make_ff, case, mesh)
    if not ok: return None
    ok, _ = ctx.call("initialize", ff.initialize)
    if not ok: return None
    var0 = np.array(ff.var, dtype=complex).copy()
    ref = SurfRef(len(V), F)
    medges = lib_edges(mesh)
    fe, fixed, free = partition(case, mesh, ff, ref, medges)
    xs = cond = err = None
    if fixed and free:
        L, A = library_operators(case, mesh, ff)
        xs, cond, err = replicate_solve(L, A, free, fixed, var0, int(case["n_smooth"]), eff_alpha(case))
    ok, _ = ctx.call("run", ff.run)
    if not ok: return None
    var = np.array(ff.var, dtype=complex)
    return {"mesh": mesh, "ff": ff, "var0": var0, "var": var, "fe": set(key(*medges[e]) for e in fe), "fixed": fixed, "free": free,
            "xs": xs, "cond": cond, "err": err, "ref": ref}


def edge_measure(case, r, V, F, which):
    """the field measured against the mesh's own edges in the connection's metric, keyed by directed edge"""
    order = int(case["order"])
    ff = r["ff"]
    var = r[which]
    out = {}
    if case["elements"] == "vertices":
        for f in F:
            for k in range(3):
                for (u, v) in ((f[k], f[(k + 1) % 3]), (f[(k + 1) % 3], f[k])):
                    out[(u, v)] = var[u] * cmath.exp(-1j * order * float(ff.conn.transport(u, v)))
    else:
        A3 = np.array(V)
        for T, f in enumerate(F):
            X, Y = ff.conn.base(T)
            X, Y = vec3(X), vec3(Y)
            for k in range(3):
                u, v = f[k], f[(k + 1) % 3]
                e = A3[v] - A3[u]
                out[(u, v)] = var[T] * cmath.exp(-1j * order * math.atan2(float(np.dot(e, Y)), float(np.dot(e, X))))
    return out


def _discard(ctx, why):
    ctx.discard(why)
    ctx.label("discarded", "discard:" + why)


def fn_renumber(case, ctx):
    ref = check_surface(case)
    V, F = case["V"], case["F"]
    order = int(case["order"])
    elements = case["elements"]
    if not ref.border_edges():
        raise AssertionError("renumbering sub-check needs a bordered surface")
    V2, F2, perm = G.relabel(V, F, int(case["perm_seed"]), do_vperm=True, do_fperm=False, do_rot=True)
    why = constraint_well_posed(case, ref, ctx)
    if elements == "vertices" and min_vertex_normal_norm(V, F) < 1e-3:
        ctx.discard("a vertex without usable tangent plane (face normals cancel / an incident edge along the normal)")
        return
    r1 = run_field(case, V, F, ctx, "original")
    if r1 is None: return
    common_labels(case, ctx, ref, len(r1["free"]))
    if why is not None:
        _discard(ctx, why)
        return
    # every face owns at most one constrained edge (border or feature): otherwise its constraint is ambiguous
    if elements == "faces":
        for f in F:
            if sum(1 for k in range(3) if key(f[k], f[(k + 1) % 3]) in r1["fe"]) >= 2:
                _discard(ctx, "face with two constrained edges")
                return
    else:
        # a (nearly) cancelling sum of edge constraints at a vertex is decided by summation order
        ff = r1["ff"]
        inc = {}
        for (a, b) in r1["fe"]:
            inc.setdefault(a, []).append(b); inc.setdefault(b, []).append(a)
        A3 = np.array(V)
        for a, nb in inc.items():
            terms = []
            for b in nb:
                if case["smooth_normals"] and order % 2 == 0:
                    X, Y = ff.conn.base(a)
                    e = A3[b] - A3[a]
                    c = complex(float(np.dot(vec3(X), e)), float(np.dot(vec3(Y), e)))
                    terms.append((c / abs(c)) ** order)
                else:
                    terms.append(cmath.exp(1j * order * float(ff.conn.transport(a, b))))
            # the library adds the terms in edge order and skips a term that would cancel the running sum exactly, so an
            # exactly vanishing sub-sum makes the constraint depend on the order; a small total is ill-conditioned
            ill = len(terms) > 8 or abs(sum(terms)) < 1e-3
            for mask in range(1, 2 ** min(len(terms), 8) - 1):
                if abs(sum(t for k, t in enumerate(terms) if mask >> k & 1)) < 1e-8:
                    ill = True
                    break
            if ill:
                _discard(ctx, "cancelling constraint sum at a vertex")
                return
    r2 = run_field(case, V2, F2, ctx, "renumbered")
    if r2 is None: return
    inv = {(perm[a], perm[b]) for (a, b) in r1["fe"]}
    if not ctx.check({key(*e) for e in inv} == r2["fe"], "constrained-edges-differ",
                     f"constrained edge sets differ between the two numberings: {len(r1['fe'])} vs {len(r2['fe'])}"):
        return
    for r in (r1, r2):
        if r["xs"] is None and r["fixed"] and r["free"] or (r["cond"] is not None and r["cond"] > COND_MAX):
            _discard(ctx, "linear system ill-conditioned (cond > 1e6)")
            return
        if r["xs"] is not None and any(float(np.min(np.abs(x))) < 1e-4 for x in r["xs"] if x.size):
            _discard(ctx, "un-normalised value below 1e-4")
            return
        if r["fixed"] and r["free"] and (r["err"] is None or (r["err"].size and float(np.max(r["err"])) > TOL_SOLVE / 10)):
            _discard(ctx, "round-off bound of the normalised solution above 1e-9")
            return
    ctx.label("compared")
    for which, sig in (("var0", "constraints-depend-on-numbering"), ("var", "field-depends-on-numbering")):
        m1 = edge_measure(case, r1, V, F, which)
        m2 = edge_measure(case, r2, V2, F2, which)
        worst, arg = 0.0, None
        for (u, v), z in m1.items():
            z2 = m2.get((perm[u], perm[v]))
            if z2 is None:
                raise AssertionError("edge lost in relabelling")
            d = abs(z - z2)
            if d > worst:
                worst, arg = d, (u, v, z, z2)
        if not ctx.check(worst <= TOL_SOLVE, sig,
                         f"{elements} field ({'after initialize()' if which == 'var0' else 'final'}), order {order}: measured against edge "
                         f"{arg[:2] if arg else None} it is {arg[2] if arg else None} but {arg[3] if arg else None} after renumbering "
                         f"vertices / rotating face starts (difference {worst:.3e})"):
            return


# ----------------------------------------------------------------------------------------------- sub-check: laplacian

def fn_laplacian(case, ctx):
    import mouette as M
    from mouette.processing import connection as C
    ref = check_surface(case)
    V, F = case["V"], case["F"]
    if case.get("flip") and case["planar"]:
        F = [f[::-1] for f in F]           # clockwise planar mesh: normal -z
        ref = SurfRef(len(V), F)
    nV, nF = len(V), len(F)
    order = int(case["order"])
    cotan = bool(case["cotan"])
    planar = bool(case["planar"])
    if planar:
        # an edge flip in a non-convex quad folds the sheet over: "planar" means embedded in the plane (one orientation)
        A3 = np.array(V)
        sa = [float(np.cross(A3[f[1]] - A3[f[0]], A3[f[2]] - A3[f[0]])[2]) for f in F]
        if not (all(x > 1e-9 for x in sa) or all(x < -1e-9 for x in sa)):
            planar = False
            ctx.label("folded-planar")
    for t in case.get("tags", []):
        if t.startswith("base=") or t in ("closed", "bordered"):
            ctx.label(t)
    ctx.label("planar=%s" % planar, "order=%d" % order, "cotan=%s" % cotan)
    has_inner = any(not ref.edge_on_border(*e) for e in ref.uedges)
    ctx.nontrivial(has_inner and order != 4)
    bv = set(ref.border_vertices())

    shared = surface_from(V, F)            # one mesh object for both element kinds and both weightings (cached attributes)
    order_of_use = ("vertices", "faces") if case.get("flip") else ("faces", "vertices")
    for el in order_of_use:
        mesh = shared
        n = nV if el == "vertices" else nF
        lap = M.operators.laplacian if el == "vertices" else M.operators.laplacian_triangles
        ok, conn = ctx.call("connection:" + el, (C.SurfaceConnectionVertices if el == "vertices" else C.SurfaceConnectionFaces), mesh)
        if not ok: continue
        ok, _other = ctx.call("laplacian:" + el, lap, mesh, cotan=not cotan, connection=conn, order=order)   # other weighting first
        if not ok: continue
        ok, Lc = ctx.call("laplacian:" + el, lap, mesh, cotan=cotan, connection=conn, order=order)
        if not ok: continue
        ok, Lfresh = ctx.call("laplacian:" + el, lap, surface_from(V, F), cotan=cotan,
                              connection=(C.SurfaceConnectionVertices if el == "vertices" else C.SurfaceConnectionFaces)(surface_from(V, F)), order=order)
        if ok:
            Lc_, Lf_ = dense(Lc).astype(complex), dense(Lfresh).astype(complex)
            ctx.check(Lc_.shape == Lf_.shape and float(np.max(np.abs(Lc_ - Lf_))) <= 1e-9 * max(1.0, float(np.max(np.abs(Lf_)))),
                      "reused-mesh-laplacian-differs:" + el,
                      f"connection Laplacian built on a mesh already used (other element kind / other weighting) differs from the one "
                      f"built on a fresh mesh (order {order}, cotan {cotan})")
        ok, Ls = ctx.call("laplacian-scalar:" + el, lap, mesh, cotan=cotan)
        if not ok: continue
        if case.get("lsp") is not None and not spelled_operator_calls(case, el, lap, mesh, conn, Lc, Ls, ctx):
            continue
        Lc = dense(Lc).astype(complex); Ls = dense(Ls).astype(complex)
        if not ctx.check(Lc.shape == (n, n) and Ls.shape == (n, n), "laplacian-shape:" + el, f"shapes {Lc.shape} / {Ls.shape}, expected {(n, n)}"):
            continue
        sc = max(1.0, float(np.max(np.abs(Ls))))
        ctx.check(float(np.max(np.abs(Lc - Lc.conj().T))) <= 1e-12 * sc, "laplacian-not-hermitian:" + el,
                  f"max |L - L^H| = {float(np.max(np.abs(Lc - Lc.conj().T))):.3e} (scale {sc:.3g}, order {order})")
        ctx.check(float(np.max(np.abs(Ls.imag))) == 0 and float(np.max(np.abs(Ls - Ls.T))) <= 1e-12 * sc, "scalar-laplacian-not-symmetric:" + el,
                  f"max |L - L^T| = {float(np.max(np.abs(Ls - Ls.T))):.3e}")
        # the connection only rotates: entrywise moduli are those of the scalar operator (any surface)
        d = np.abs(np.abs(Lc) - np.abs(Ls))
        i, j = np.unravel_index(int(np.argmax(d)), d.shape)
        ctx.check(float(d[i, j]) <= 1e-9 * sc, "laplacian-moduli:" + el,
                  f"|L_conn[{i},{j}]| = {abs(Lc[i, j])!r} but |L_scalar[{i},{j}]| = {abs(Ls[i, j])!r} (order {order}, cotan {cotan})")
        if not planar:
            continue
        # flat connection classes: the operator is the scalar one
        ok, fconn = ctx.call("flat-connection:" + el, (C.FlatConnectionVertices if el == "vertices" else C.FlatConnectionFaces), mesh)
        if ok:
            ok, Lf = ctx.call("laplacian-flat:" + el, lap, mesh, cotan=cotan, connection=fconn, order=order)
            if ok:
                Lf = dense(Lf).astype(complex)
                d = np.abs(Lf - Ls) if Lf.shape == Ls.shape else np.array([[np.inf]])
                i, j = np.unravel_index(int(np.argmax(d)), d.shape)
                ctx.check(float(d[i, j]) <= 1e-9 * sc, "flat-laplacian-not-scalar:" + el,
                          f"flat connection, entry [{i},{j}]: {Lf[i, j] if Lf.shape == Ls.shape else Lf.shape} vs scalar {Ls[i, j]} (order {order})")
        # library connection on a planar mesh: trivial holonomy away from the border
        if el == "faces":
            for v in range(nV):
                if v in bv:
                    continue
                closed, rf, rv = ref.ring(v)
                tot = sum(float(conn.transport(rf[k], rf[(k + 1) % len(rf)])) for k in range(len(rf)))
                hol = abs(cmath.exp(1j * tot) - 1)
                if not ctx.check(hol <= 1e-9, "holonomy:faces",
                                 f"planar mesh, interior vertex {v}: face transports around it sum to {tot!r} (not 0 mod 2pi)"):
                    break
            # the connection Laplacian's phases are order x transport
            medges = lib_edges(mesh)
            for (a, b) in medges:
                T1, T2 = ref.direct_face(a, b), ref.direct_face(b, a)
                if T1 is None or T2 is None or abs(Ls[T1, T2]) < 1e-12:
                    continue
                ph = Lc[T1, T2] / Ls[T1, T2]
                expd = cmath.exp(1j * order * float(conn.transport(T1, T2)))
                if not ctx.check(abs(ph - expd) <= 1e-9 or abs(ph - expd.conjugate()) <= 1e-9, "laplacian-phase:faces",
                                 f"L[{T1},{T2}]/L_scalar = {ph} but exp(i*order*transport) = {expd} (order {order})"):
                    break
        else:
            for f in F:
                if any(v in bv for v in f):
                    continue
                tot = sum(float(conn.transport(f[k], f[(k + 1) % 3])) - float(conn.transport(f[(k + 1) % 3], f[k])) - math.pi for k in range(3))
                hol = abs(cmath.exp(1j * tot) - 1)
                if not ctx.check(hol <= 1e-9, "holonomy:vertices",
                                 f"planar mesh, interior triangle {f}: transports around it sum to {tot!r} (not 0 mod 2pi)"):
                    break
                # and the Laplacian carries order x that rotation
                for k in range(3):
                    i, j = f[k], f[(k + 1) % 3]
                    if abs(Ls[i, j]) < 1e-12:
                        continue
                    ph = Lc[i, j] / Ls[i, j]
                    expd = cmath.exp(1j * order * (float(conn.transport(i, j)) - float(conn.transport(j, i)) - math.pi))
                    if not ctx.check(abs(ph - expd) <= 1e-9, "laplacian-phase:vertices",
                                     f"L[{i},{j}]/L_scalar = {ph} but exp(i*order*(t_ij - t_ji - pi)) = {expd}"):
                        break


def spelled_operator_calls(case, el, lap, mesh, conn, Lc, Ls, ctx):
    """Round 6: the operator / connection calls as a caller may spell them must give the same objects: arguments by position
    (mesh, cotan, connection, order), flags as numpy.bool_ / 0-1, the order as a numpy integer, the order left out when it is the
    documented default 4, connection=None given explicitly (then the order 'does nothing'), and connections built with their
    optional arguments given explicitly as None / with the border-only detector the documentation says is the default."""
    from mouette.processing import connection as C
    from mouette.processing.features import FeatureEdgeDetector
    order, cotan = int(case["order"]), bool(case["cotan"])
    lsp = int(case["lsp"])
    ctx.label("operator-spelling=%d" % lsp)

    def same(Lx, Lref, what):
        Lx_, Lr_ = dense(Lx).astype(complex), dense(Lref).astype(complex)
        sc = max(1.0, float(np.max(np.abs(Lr_)))) if Lr_.size else 1.0
        return ctx.check(Lx_.shape == Lr_.shape and (Lr_.size == 0 or float(np.max(np.abs(Lx_ - Lr_))) <= 1e-12 * sc), "operator-spelling:" + el,
                         f"{what} differs from the call with keywords (order {order}, cotan {cotan}): shapes {Lx_.shape} / {Lr_.shape}, max difference "
                         f"{float(np.max(np.abs(Lx_ - Lr_))) if Lx_.shape == Lr_.shape and Lr_.size else None}")

    if lsp == 1:
        ok, L1 = ctx.call("laplacian:" + el, lap, mesh, cotan, conn, order)
        if not ok or not same(L1, Lc, "laplacian(mesh, cotan, connection, order) by position"): return False
        ok, L1 = ctx.call("laplacian-scalar:" + el, lap, mesh, cotan)
        if not ok or not same(L1, Ls, "scalar laplacian(mesh, cotan) by position"): return False
    elif lsp == 2:
        ok, L1 = ctx.call("laplacian:" + el, lap, mesh, cotan=np.bool_(cotan), connection=conn, order=np.int64(order))
        if not ok or not same(L1, Lc, "laplacian with cotan as numpy.bool_ and order as numpy.int64"): return False
        ok, L1 = ctx.call("laplacian:" + el, lap, mesh, int(cotan), conn, order)
        if not ok or not same(L1, Lc, "laplacian with cotan as 0/1"): return False
    elif lsp == 3:
        # connection=None: scalar operator whatever the order
        ok, L1 = ctx.call("laplacian-scalar:" + el, lap, mesh, cotan=cotan, connection=None, order=order)
        if not ok or not same(L1, Ls, "laplacian(connection=None, order=%d)" % order): return False
        ok, L1 = ctx.call("laplacian-scalar:" + el, lap, mesh, cotan, None)
        if not ok or not same(L1, Ls, "laplacian(mesh, cotan, None)"): return False
        if order == 4:
            ok, L1 = ctx.call("laplacian:" + el, lap, mesh, cotan=cotan, connection=conn)
            if not ok or not same(L1, Lc, "laplacian with the order left at its documented default 4"): return False
        if cotan:
            ok, L1 = ctx.call("laplacian:" + el, lap, mesh, connection=conn, order=order)
            if not ok or not same(L1, Lc, "laplacian with cotan left at its documented default True"): return False
    elif lsp == 4:
        # connections: optional arguments given explicitly / the documented default detector given by the caller
        K = C.SurfaceConnectionVertices if el == "vertices" else C.SurfaceConnectionFaces
        variants = [("(mesh, None)", lambda: K(mesh, None)), ("(mesh, feat=None)", lambda: K(mesh, feat=None)),
                    ("(mesh, border-only detector)", lambda: K(mesh, FeatureEdgeDetector(only_border=True, verbose=False)(mesh))),
                    ("(mesh, feat=border-only detector that also built its feature graph)",
                     lambda: K(mesh, feat=FeatureEdgeDetector(only_border=True, flag_corners=True, compute_feature_graph=True, verbose=False)(mesh)))]
        if el == "vertices":
            variants.append(("(mesh, None, vnormals=None, angles=None)", lambda: K(mesh, None, vnormals=None, angles=None)))
        n = len(case["V"]) if el == "vertices" else len(case["F"])
        X0 = np.array([vec3(conn.base(i)[0]) for i in range(n)]).reshape(-1, 3)
        T0 = {k: float(v) for k, v in conn._transport.items()}
        for name, mk in variants:
            ok, c2 = ctx.call("connection:" + el, mk)
            if not ok: return False
            X2 = np.array([vec3(c2.base(i)[0]) for i in range(n)]).reshape(-1, 3)
            T2 = {k: float(v) for k, v in c2._transport.items()}
            dT = max([abs(T2[k] - T0[k]) for k in T0], default=0.0) if set(T2) == set(T0) else float("inf")
            if not ctx.check(X2.shape == X0.shape and (X0.size == 0 or float(np.max(np.abs(X2 - X0))) <= 1e-12) and dT <= 1e-12, "connection-spelling:" + el,
                             f"{K.__name__}{name} differs from {K.__name__}(mesh): max transport difference {dT}"):
                return False
    return True


# ----------------------------------------------------------------------------------------------- sub-check: operators beyond 2**16

@st.composite
def big_case(draw):
    """one-quad-wide planar strip: more than 2**16 vertices AND more than 2**16 faces in one mesh of ~65.6k triangles"""
    return {"nu": draw(st.integers(32780, 32900)), "bits": draw(st.lists(st.integers(0, 1), min_size=1, max_size=9)), "which": draw(st.sampled_from(["both", "both", "faces"]))}


def fn_big(case, ctx):
    """Size regime beyond 2**16 elements (silent caps, narrow index types) for the scalar operators with uniform weights, which
    cost a few seconds there: right shape, symmetric, constants in the kernel, off-diagonal pattern = the mesh's edges (vertices) /
    the pairs of faces across an interior edge (faces), every such entry negative."""
    import scipy.sparse as sp
    import mouette as M
    nu = int(case["nu"])
    V, F = tri_grid(nu, 1, case["bits"])
    nV, nF = len(V), len(F)
    ctx.label("vertices>2**16" if nV > 2 ** 16 else "vertices<=2**16", "faces>2**16" if nF > 2 ** 16 else "faces<=2**16")
    ctx.nontrivial(nV > 2 ** 16 and nF > 2 ** 16)
    mesh = surface_from(V, F)
    Fa = np.array(F, dtype=np.int64)
    und = np.sort(np.concatenate([Fa[:, [0, 1]], Fa[:, [1, 2]], Fa[:, [2, 0]]]), axis=1)
    owner = np.concatenate([np.arange(nF)] * 3)
    keys = und[:, 0] * nV + und[:, 1]
    o = np.argsort(keys, kind="stable")
    ks, ow = keys[o], owner[o]
    twice = np.where(ks[1:] == ks[:-1])[0]                   # interior edges: (ow[k], ow[k+1]) are the two faces
    uk = np.unique(keys)

    def pattern(L, n, pairs, what):
        if not ctx.check(getattr(L, "shape", None) == (n, n), "laplacian-shape:" + what, f"big mesh: shape {getattr(L, 'shape', None)}, expected {(n, n)}"):
            return
        L = sp.csr_matrix(L).astype(float)
        L.sum_duplicates()
        sc = max(1.0, float(abs(L).max()))
        D = (L - L.T)
        if not ctx.check(D.nnz == 0 or float(abs(D).max()) <= 1e-12 * sc, "scalar-laplacian-not-symmetric:" + what, f"big mesh ({n} {what}): max |L - L^T| = {float(abs(D).max()) if D.nnz else 0}"):
            return
        rs = np.abs(np.asarray(L.sum(axis=1)).ravel())
        i = int(np.argmax(rs))
        if not ctx.check(float(rs[i]) <= 1e-9 * sc, "scalar-laplacian-row-sum:" + what, f"big mesh ({n} {what}): row {i} sums to {float(rs[i])!r}, constants are not in the kernel"):
            return
        C = L.tocoo()
        off = (C.row != C.col) & (C.data != 0)
        got = np.unique(np.minimum(C.row[off], C.col[off]).astype(np.int64) * n + np.maximum(C.row[off], C.col[off]))
        exp_ = np.unique(pairs[:, 0].astype(np.int64) * n + pairs[:, 1])
        miss, extra = np.setdiff1d(exp_, got), np.setdiff1d(got, exp_)
        if not ctx.check(miss.size == 0 and extra.size == 0, "scalar-laplacian-pattern:" + what,
                         f"big mesh ({n} {what}): {miss.size} adjacent pairs without an entry (first {[divmod(int(k), n) for k in miss[:3]]}), "
                         f"{extra.size} entries between non-adjacent {what} (first {[divmod(int(k), n) for k in extra[:3]]})"):
            return
        ctx.check(bool(np.all(C.data[off] < 0)), "scalar-laplacian-sign:" + what, f"big mesh ({n} {what}): a positive off-diagonal weight with uniform weights")

    if case.get("which") != "faces":
        ok, L = ctx.call("laplacian-scalar:vertices", M.operators.laplacian, mesh, cotan=False)
        if ok:
            pattern(L, nV, np.stack([uk // nV, uk % nV], axis=1), "vertices")
    ok, L = ctx.call("laplacian-scalar:faces", M.operators.laplacian_triangles, mesh, cotan=False)
    if ok:
        pr = np.stack([np.minimum(ow[twice], ow[twice + 1]), np.maximum(ow[twice], ow[twice + 1])], axis=1)
        pattern(L, nF, pr, "faces")


def self_test():
    for nu, nv, folds in ((1, 1, ()), (3, 2, (1,)), (5, 4, (1, 3)), (4, 3, (2,))):
        for fix in (False, True):
            V, F = tri_grid(nu, nv, [0, 1, 1, 0, 1], folds, 1.0, fix)
            assert SurfRef(len(V), F).validate() is None and len(F) == 2 * nu * nv
            assert _angles_ok(V, F)
    V, F = tri_grid(4, 3, [1, 0, 0, 1], (2,), 1.0, True)
    N = face_normals(V, F)
    ref = SurfRef(len(V), F)
    sharp = [e for e in ref.uedges if ref.direct_face(*e) is not None and ref.direct_face(e[1], e[0]) is not None
             and np.dot(N[ref.direct_face(*e)], N[ref.direct_face(e[1], e[0])]) < 0.5]
    assert len(sharp) == 3, sharp
    feat = set(sharp) | set(key(*e) for e in ref.border_edges())
    assert all(sum(1 for k in range(3) if key(f[k], f[(k + 1) % 3]) in feat) <= 1 for f in F)


SUBCHECKS = [
    SubCheck("field", field_case(), fn_field, quick=1600, thorough=8000),
    SubCheck("sequence", sequence_case(), fn_sequence, quick=280, thorough=1500),
    SubCheck("custom_connection", custom_case(), fn_custom, quick=240, thorough=1000),
    SubCheck("large", large_case(), fn_large, quick=16, thorough=12, watchdog=(240, 900)),
    SubCheck("renumber_vertices", renumber_case("vertices"), fn_renumber, quick=320, thorough=1500),
    SubCheck("renumber_faces", renumber_case("faces"), fn_renumber, quick=320, thorough=1500),
    SubCheck("laplacian", laplacian_case(), fn_laplacian, quick=400, thorough=1500),
    SubCheck("operators_big", big_case(), fn_big, quick=1, thorough=2, watchdog=(240, 900)),
]


def kf_smooth_normals_crease_numbering(case, violation):
    """Vertex field, smooth_normals=True, even order, features on, an *interior* vertex on a sharp crease: the constraint there
    is computed from the edge projected on the tangent plane (embedding metric) while the solver works in the connection's
    rescaled intrinsic metric, so the constraint seen by the solver depends on which edge is the vertex's reference edge."""
    if violation.sub_check != "renumber_vertices":
        return False
    if violation.signature not in ("constraints-depend-on-numbering", "field-depends-on-numbering"):
        return False
    if case["elements"] != "vertices" or not case["smooth_normals"] or int(case["order"]) % 2 != 0:
        return False
    if not (case["features"] or case["cad"]):
        return False
    V, F = case["V"], case["F"]
    ref = SurfRef(len(V), F)
    N = face_normals(V, F)
    bv = ref.border_vertices()
    for (a, b) in ref.uedges:
        f1, f2 = ref.direct_face(a, b), ref.direct_face(b, a)
        if f1 is None or f2 is None:
            continue
        if float(np.dot(N[f1], N[f2])) < 0.5 and (a not in bv or b not in bv):
            return True
    return False


def edge_along_vertex_normal(V, F):
    """True if some vertex has an incident edge within ~3 degrees of its angle-weighted normal"""
    A = np.array(V, dtype=float)
    N = face_normals(V, F)
    acc = np.zeros((len(V), 3))
    for iF, f in enumerate(F):
        for k in range(3):
            p, q, r = A[f[k]], A[f[(k + 1) % 3]], A[f[(k + 2) % 3]]
            u, w = q - p, r - p
            acc[f[k]] += math.atan2(np.linalg.norm(np.cross(u, w)), float(np.dot(u, w))) * N[iF]
    nrm = np.linalg.norm(acc, axis=1)
    Nv = acc / np.maximum(nrm, 1e-300)[:, None]
    for f in F:
        for k in range(3):
            a, b = f[k], f[(k + 1) % 3]
            E = A[b] - A[a]
            for u in (a, b):
                if nrm[u] > 1e-9 and float(np.linalg.norm(np.cross(E, Nv[u]))) < 0.05 * float(np.linalg.norm(E)):
                    return True
    return False


def kf_vertex_basis_edge_along_normal(case, violation):
    """Vertex field on a mesh where an edge is along a vertex normal: the vertex connection's X axis there is the normalised
    round-off of a vanishing projection, so the basis is not orthonormal and export_as_mesh / project are wrong at that vertex
    (only reachable with C18_VERTEX_BASIS_ROBUST=1, otherwise such meshes are discarded)."""
    if not violation.signature.startswith("export-"):
        return False
    steps = case.get("steps") or [case]
    if not any(c.get("elements") == "vertices" for c in steps):
        return False
    return edge_along_vertex_normal(realise(case)["V"], case["F"])


MATCHERS = {"kf_smooth_normals_crease_numbering": kf_smooth_normals_crease_numbering,
            "kf_vertex_basis_edge_along_normal": kf_vertex_basis_edge_along_normal}
