"""C20 - union-find and priority queue conform to their abstract models (history-driven)."""
from hypothesis import strategies as st
from vlib.runner import SubCheck

PROPERTY = "C20"
RULE = ("Generated operation histories (lists of ops interpreted against the implementation and a naive model, "
        "oracle after every step; keys also passed as fresh temporaries equal to the stored elements, the structure cloned by "
        "copy / deepcopy / pickle mid-history, priorities as floats or Python ints of any size). The first step of a union-find history is the "
        "constructor: its `elements` argument is given as list / tuple / set / frozenset / range / dict / dict keys view / dict values view / deque / "
        "one-shot iterator / generator / lazy map / None / omitted (label elements-as=...), the structure is compared with what that iterable yields "
        "right after construction, and in a quarter of the cases the caller's mutable container is changed afterwards (an element removed, a new one "
        "added), which must not show in the structure. Scenarios: free (random ops), tournament (partial balanced tournament of unions over 8 elements), "
        "deep (complete tournament over 8..16 elements naming the block representatives, i.e. uncompressed internal trees of depth 3..4, elements inserted "
        "deepest-first / in random order / shallowest-first / by the unions themselves, sparse read-out, and the FIRST query after the union chain drawn from "
        "components / mapping / roots / component / find / connected / counts / membership / a clone followed by a query; label first-query-after-union-chain=... "
        "counts, for every scenario, which query came first after >= 3 merging unions). "
        "union-find: non-trivial = history contains a union joining two blocks that both "
        "have >=2 elements followed by a query; queue: non-trivial = two pending items tie on priority when one of them is "
        "popped. distinct = distinct realised histories.")
ASSUMPTIONS = ["elements are hashable immutable values (ints of any size, tuples, strings), also passed as temporaries equal to the stored ones",
               "priorities are floats without NaN or Python ints of any size (compared exactly, as Python does)",
               "a union-find that went through copy.copy / copy.deepcopy / pickle is held to the same oracles as the original",
               "the constructor accepts any finite iterable of elements (the docstring says 'container'; the code and in-repo callers use lists and ranges, "
               "and iterators / generators are accepted today): it holds exactly the elements the iterable yields, first occurrence order, also when the "
               "iterable can be traversed only once",
               "the structure does not alias the caller's container: changing that container after the construction does not change the partition"]


# --------------------------------------------------------------------------------- union-find
def dec(e):
    if isinstance(e, list):
        return tuple(dec(x) for x in e[1:])
    return e


def rebuild(e):
    """an equal but NEW object (a temporary that nobody else keeps alive): callers often build their keys on the fly, e.g.
    uf.find((i, i + 1)) in a loop, and CPython then reuses the address of the previous temporary"""
    if isinstance(e, tuple):
        return tuple([rebuild(x) for x in e])
    if isinstance(e, str):
        return "".join(list(e)) if len(e) > 1 else e
    if isinstance(e, int) and not isinstance(e, bool):
        return int(str(e))
    return e


INT_POOL = st.one_of(st.integers(0, 9), st.integers(0, 9), st.sampled_from([257, 1000, 2 ** 40, -1, 10 ** 20]))
STR_POOL = st.sampled_from(["a", "b", "c", "dd", "e", "", "xyz", "0"])
TUP_POOL = st.sampled_from([["t", 0, 1], ["t", 1, 0], ["t", 2, 3], ["t", 0], ["t"], ["t", 1, 2, 3], ["t", "a", 1], ["t", 4, 5],
                            ["t", ["t", 0, 1], 2]])


def uf_ops(pool, max_size=60):
    one = st.tuples(st.sampled_from(["add", "find", "component", "in"]), pool).map(list)
    two = st.tuples(st.sampled_from(["union", "union", "union", "connected"]), pool, pool).map(list)
    zero = st.sampled_from([["components"], ["mapping"], ["roots"], ["len"], ["counts"], ["fresh"], ["fresh"],
                            ["clone", "copy"], ["clone", "deepcopy"], ["clone", "pickle"]])
    idx = st.tuples(st.just("index"), st.integers(-2, 12)).map(list)
    return st.lists(st.one_of(one, two, two, two, zero, zero, idx), min_size=1, max_size=max_size)


# the constructor's `elements` argument: every form of finite iterable a caller may hand over. "range" needs consecutive ints and
# "none" / "noarg" an empty start (otherwise they fall back to "list"); iterator / generator / map can be traversed only ONCE
INIT_FORMS = ["list", "list", "tuple", "set", "frozenset", "range", "range", "dict", "dict_keys", "dict_values", "deque",
              "iterator", "generator", "map", "iterator", "generator", "none", "noarg"]
ONE_SHOT = ("iterator", "generator", "map")
MUTABLE_SOURCES = ("list", "set", "dict", "dict_keys", "dict_values", "deque")
LATE = "__late__"        # an element that is in no pool: put into the caller's container AFTER the constructor returned

VALUES16 = {"int": list(range(14)) + [2 ** 40, -1],
            "str": ["a", "b", "c", "dd", "e", "", "xyz", "0", "f", "g", "hh", "i", "j", "kk", "1", "ab"],
            "tuple": [["t", 0, 1], ["t", 1, 0], ["t", 2, 3], ["t", 0], ["t"], ["t", 1, 2, 3], ["t", "a", 1], ["t", 4, 5], ["t", ["t", 0, 1], 2],
                      ["t", 5, 4], ["t", 6, 7], ["t", 7, 6], ["t", 8], ["t", 9, 9], ["t", "b"], ["t", ["t"], 0]],
            "mixed": [0, 1, 2, 3, "a", "b", "c", "xyz", ["t", 0, 1], ["t"], ["t", 1, 0], 7, 8, "0", ["t", 0], ""]}


def deep_forest(draw, kind):
    """Scenario "deep": a complete tournament of unions over n elements (equal-size merges; the unions name the current
    representatives, so that no path is shortened on the way) leaves internal trees of depth log2(n) = 3..4. The elements are
    handed to the constructor in a drawn order RELATIVE TO THEIR DEPTH (deepest first / random / shallowest first / not at all, i.e.
    inserted by the unions), because every bulk query walks the elements in insertion order. The first query after the union chain
    is drawn from every query type. The small simulation below (weighted quick union with path halving, as the class docstring
    describes) only steers the generation; no oracle depends on it."""
    n = draw(st.sampled_from([8, 8, 8, 9, 12, 16]))
    vals = list(draw(st.permutations(VALUES16[kind])))
    elems, spare = vals[:n], vals[n:]
    par, siz = list(range(n)), [1] * n

    def find(p):
        while p != par[p]:
            q = par[p]; par[p] = par[q]; p = q
        return p

    def root(p):
        while p != par[p]:
            p = par[p]
        return p

    name_roots = draw(st.integers(0, 4)) > 0
    blocks = [[i] for i in range(n)]
    tour = []
    while len(blocks) > 1:
        nxt = []
        for i in range(0, len(blocks) - 1, 2):
            A, B = blocks[i], blocks[i + 1]
            a = root(A[0]) if name_roots else A[draw(st.integers(0, len(A) - 1))]
            b = root(B[0]) if name_roots else B[draw(st.integers(0, len(B) - 1))]
            if draw(st.booleans()):
                a, b = b, a
            tour.append(["union", elems[a], elems[b]])
            ra, rb = find(a), find(b)
            if siz[ra] < siz[rb]:
                par[ra] = rb; siz[rb] += siz[ra]
            else:
                par[rb] = ra; siz[ra] += siz[rb]
            nxt.append(A + B)
        if len(blocks) % 2:
            nxt.append(blocks[-1])
        blocks = nxt

    def depth(i):
        d = 0
        while par[i] != i:
            i = par[i]; d += 1
        return d

    order = draw(st.sampled_from(["deep-first", "deep-first", "perm", "perm", "natural", "shallow-first"]))
    idx = list(range(n))
    if order == "deep-first":
        idx.sort(key=lambda i: -depth(i))
    elif order == "shallow-first":
        idx.sort(key=depth)
    init = [] if order == "natural" else [elems[i] for i in idx]
    for e in spare[:draw(st.integers(0, 2))]:          # a few elements that stay alone
        init.insert(draw(st.integers(0, len(init))), e)
    x, y = elems[draw(st.integers(0, n - 1))], elems[draw(st.integers(0, n - 1))]
    first = draw(st.sampled_from([[["components"]], [["components"]], [["mapping"]], [["mapping"]], [["roots"]], [["component", x]],
                                  [["find", x]], [["connected", x, y]], [["counts"]], [["in", x]], [],
                                  [["clone", "deepcopy"], ["components"]], [["clone", "pickle"], ["mapping"]], [["clone", "copy"], ["component", x]]]))
    return init, tour + first, elems


@st.composite
def uf_case(draw):
    kind = draw(st.sampled_from(["int", "str", "tuple", "mixed"]))
    pool = {"int": INT_POOL, "str": STR_POOL, "tuple": TUP_POOL,
            "mixed": st.one_of(INT_POOL, STR_POOL, TUP_POOL)}[kind]
    init_form = draw(st.sampled_from(INIT_FORMS))
    scenario = draw(st.sampled_from(["free", "free", "free", "tournament", "tournament", "deep", "deep", "deep"]))
    if scenario == "deep":
        init, pre, elems = deep_forest(draw, kind)
        own = st.sampled_from(elems)
        return {"kind": kind, "init": init, "init_form": init_form, "mutate_input": draw(st.integers(0, 3)) == 0, "scenario": scenario,
                "ops": pre + draw(uf_ops(st.one_of(own, own, pool), max_size=14)),
                "readout": "sparse", "order": draw(st.integers(0, 5))}
    init = draw(st.lists(pool, max_size=5))
    if init_form == "range" or (kind == "int" and draw(st.integers(0, 5)) == 0):
        a = draw(st.integers(0, 3))
        init = list(range(a, a + draw(st.integers(1, 8))))
    if init_form in ("none", "noarg") and draw(st.booleans()):
        init = []
    pre = draw(st.lists(st.tuples(st.just("union"), pool, pool).map(list), max_size=12))
    if scenario == "tournament":
        # balanced "tournament" of unions over 8 distinct elements in a drawn order: equal-size merges are what makes the
        # internal trees deep (depth 3 after three rounds); which member of each block is named in the union is drawn too
        values = {"int": list(range(10)), "str": ["a", "b", "c", "dd", "e", "", "xyz", "0"],
                  "tuple": [["t", 0, 1], ["t", 1, 0], ["t", 2, 3], ["t", 0], ["t"], ["t", 1, 2, 3], ["t", "a", 1], ["t", 4, 5], ["t", ["t", 0, 1], 2]],
                  "mixed": [0, 1, 2, "a", "b", ["t", 0, 1], ["t"], "xyz", 7]}[kind]
        perm = list(draw(st.permutations(values)))[:8]
        blocks = [[e] for e in perm]
        tour = []
        while len(blocks) > 1:
            nxt = []
            use_roots = draw(st.integers(0, 3)) > 0      # naming the block representatives keeps the trees uncompressed
            for i in range(0, len(blocks) - 1, 2):
                # each block list starts with its internal root (ties attach the second argument's root under the first's)
                a = blocks[i][0] if use_roots else blocks[i][draw(st.integers(0, len(blocks[i]) - 1))]
                b = blocks[i + 1][0] if use_roots else blocks[i + 1][draw(st.integers(0, len(blocks[i + 1]) - 1))]
                if draw(st.booleans()):
                    tour.append(["union", a, b]); nxt.append(blocks[i] + blocks[i + 1])
                else:
                    tour.append(["union", b, a]); nxt.append(blocks[i + 1] + blocks[i])
            if len(blocks) % 2:
                nxt.append(blocks[-1])
            blocks = nxt
        pre = tour[:draw(st.integers(3, len(tour)))] + pre[:2]
        init = draw(st.sampled_from([[], sorted(perm, key=repr), perm]))
    # readout: "every" = full read-out after every step; "sparse" = only after query ops and at the end, so that chains of
    # unions are NOT interleaved with finds (deep, uncompressed trees survive until the first query); order = which part of
    # the read-out comes first
    return {"kind": kind, "init": init, "init_form": init_form, "mutate_input": draw(st.integers(0, 3)) == 0, "scenario": scenario,
            "ops": pre + draw(uf_ops(pool)),
            "readout": draw(st.sampled_from(["every", "sparse", "sparse"])), "order": draw(st.integers(0, 5))}


class PartitionModel:
    def __init__(self):
        self.order = []       # insertion order
        self.blocks = []      # list of sets

    def has(self, x):
        return any(x in b for b in self.blocks)

    def add(self, x):
        if not self.has(x):
            self.order.append(x)
            self.blocks.append({x})

    def block(self, x):
        for b in self.blocks:
            if x in b:
                return b
        return None

    def union(self, x, y):
        self.add(x); self.add(y)
        bx, by = self.block(x), self.block(y)
        if bx is not by:
            self.blocks.remove(by)
            bx |= by
            return len(bx) - len(by), len(by)
        return None

    def snapshot(self):
        return sorted((sorted(map(repr, b)) for b in self.blocks))

    @staticmethod
    def clone_of(m):
        c = PartitionModel()
        c.order = list(m.order)
        c.blocks = [set(b) for b in m.blocks]
        return c


def observe_partition(uf, ctx, model, where, order=0, chain=None):
    """Full read-out of the implementation compared with the model; must not change anything. The parts are issued in a
    case-dependent order: each of them can be the first query after a chain of unions."""
    ctx.check(len(uf) == len(model.order) and uf.n_elts == len(model.order), "uf:count", f"{where}: len={len(uf)} n_elts={uf.n_elts} model={len(model.order)}")
    ctx.check(uf.n_comps == len(model.blocks), "uf:n_comps", f"{where}: n_comps={uf.n_comps} model={len(model.blocks)}")

    def part_connected():
        for x in model.order:
            for y in model.order:
                ok, c = ctx.call("uf:connected", uf.connected, x, y)
                if ok:
                    ctx.check(bool(c) == (model.block(x) is model.block(y)), "uf:connected", f"{where}: connected({x!r},{y!r})={c}")

    def part_components():
        ok, comps = ctx.call("uf:components", uf.components)
        if ok:
            got = sorted(sorted(map(repr, c)) for c in comps)
            ctx.check(got == model.snapshot(), "uf:components", f"{where}: components()={comps} model={model.blocks}")
            ctx.check(sum(len(c) for c in comps) == len(model.order), "uf:components-cover", f"{where}: element in several/no components: {comps}")

    def part_roots():
        ok, roots = ctx.call("uf:roots", uf.roots)
        if ok:
            ctx.check(len(roots) == len(model.blocks), "uf:roots", f"{where}: roots()={roots}, model has {len(model.blocks)} blocks")
            try:
                reps = [uf[r] for r in roots]
                ctx.check(len({id(model.block(e)) for e in reps}) == len(model.blocks), "uf:roots", f"{where}: roots do not name one element per block: {roots}")
            except Exception as e:
                ctx.fail("uf:roots", f"{where}: roots() are not element indices: {roots} ({e})")

    def part_mapping():
        ok, mp = ctx.call("uf:mapping", uf.component_mapping)
        if ok:
            ctx.check(len(mp) == len(model.order) and set(mp.keys()) == set(model.order), "uf:mapping-keys", f"{where}: keys {list(mp.keys())!r} vs {model.order!r}")
            for e in model.order:
                if e in mp:
                    ctx.check(set(mp[e]) == model.block(e) and len(mp[e]) == len(model.block(e)), "uf:mapping", f"{where}: mapping[{e!r}]={mp[e]!r} model {model.block(e)!r}")

    def part_component():
        for e in model.order:
            ok, c = ctx.call("uf:component", uf.component, e)
            if ok:
                ctx.check(isinstance(c, set) and set(c) == model.block(e) and len(c) == len(model.block(e)), "uf:component", f"{where}: component({e!r}) = {c!r}, model {model.block(e)!r}")

    def part_fresh():
        # every element looked up through a temporary equal key, one after the other (the temporaries die in between)
        for e in model.order:
            ok, r = ctx.call("uf:find", lambda: uf.find(rebuild(e)))
            if ok:
                ok2, got = ctx.call("uf:getitem", uf.__getitem__, r)
                if ok2:
                    ctx.check(model.has(got) and model.block(got) is model.block(e), "uf:find-fresh-key",
                              f"{where}: find(<new object equal to {e!r}>) -> index {r} = element {got!r}, not in the block of {e!r}")
        for i in range(len(model.order) - 1):
            x, y = model.order[i], model.order[i + 1]
            ok, c = ctx.call("uf:connected", lambda: uf.connected(rebuild(x), rebuild(y)))
            if ok:
                ctx.check(bool(c) == (model.block(x) is model.block(y)), "uf:connected-fresh-key", f"{where}: connected(<new {x!r}>,<new {y!r}>)={c}")

    parts = [part_components, part_connected, part_roots, part_mapping, part_component, part_fresh]
    k = order % len(parts)
    if chain is not None:
        if chain[0] >= 3:
            ctx.label("first-query-after-union-chain=" + ["components", "connected", "roots", "mapping", "component", "find"][k])
        chain[0] = 0
    for part in parts[k:] + parts[:k]:
        part()


def make_elements(form, init):
    """The constructor argument in the requested form -> (form really used, argument, elements in the order the argument yields
    them, the caller's mutable container behind the argument or None)."""
    import collections
    if form == "range" and not (init and all(type(e) is int for e in init) and init == list(range(init[0], init[0] + len(init)))):
        form = "list"
    if form in ("none", "noarg") and init:
        form = "list"
    if form == "list":
        src = list(init)
        return form, src, list(src), src
    if form == "tuple":
        return form, tuple(init), list(init), None
    if form == "deque":
        src = collections.deque(init)
        return form, src, list(init), src
    if form in ("set", "frozenset"):
        src = set(init) if form == "set" else frozenset(init)
        return form, src, list(src), (src if form == "set" else None)      # iteration order of an unmodified set is stable
    if form == "range":
        return form, range(init[0], init[0] + len(init)), list(init), None
    if form in ("dict", "dict_keys"):
        src = dict.fromkeys(init)
        return form, (src if form == "dict" else src.keys()), list(src), src
    if form == "dict_values":
        src = dict(enumerate(init))
        return form, src.values(), list(init), src
    if form == "iterator":
        return form, iter(list(init)), list(init), None
    if form == "generator":
        return form, (e for e in list(init)), list(init), None
    if form == "map":
        return form, map(rebuild, list(init)), list(init), None      # keys built lazily, one temporary at a time
    if form == "none":
        return form, None, [], None
    if form == "noarg":
        return form, None, [], None
    raise ValueError("unknown form of the elements argument: %r" % (form,))


def fn_uf(case, ctx):
    from mouette.utils import UnionFind
    model = PartitionModel()
    init = [dec(e) for e in case["init"]]
    form, arg, yielded, source = make_elements(case.get("init_form", "list"), init)
    if form == "noarg":
        ok, uf = ctx.call("uf:construct", UnionFind)
    elif form in ONE_SHOT:
        # the docstring speaks of a "container": a constructor that REJECTS a one-shot iterable (TypeError / ValueError) is within
        # its rights; what it may not do is accept it and build something else than what the iterable yields
        try:
            ok, uf = True, UnionFind(arg)
        except (TypeError, ValueError):
            ctx.label("one-shot-iterable-rejected")
            return
    else:
        ok, uf = ctx.call("uf:construct", UnionFind, arg)
    if not ok:
        return
    for e in yielded:
        model.add(e)
    ctx.label("kind=" + case["kind"], "readout=" + case.get("readout", "every"), "scenario=" + case.get("scenario", "saved-input"),
              "elements-as=" + form + ("" if init else "(empty)"))
    if form in ONE_SHOT and len(model.order) >= 2:
        ctx.label("elements-from-one-shot-iterable")
    if case.get("mutate_input") and source is not None:
        # the caller goes on using ITS container: the structure holds what the constructor was given, whatever happens to that
        # container afterwards (the partition only changes through add / union)
        ctx.label("input-container-changed-after-construction")
        if isinstance(source, dict):
            if source:
                source.pop(next(iter(source)))
            source[LATE] = LATE
        elif isinstance(source, set):
            if source:
                source.pop()
            source.add(LATE)
        else:
            if source:
                source.pop()
            source.append(LATE)
    if case.get("init_form") is not None:
        # the structure right after construction, before any other operation
        ctx.check(len(uf) == len(model.order), "uf:count", f"UnionFind(<{form} yielding {yielded!r}>): len={len(uf)}, expected {len(model.order)}")
        for e in model.order:
            ctx.check(e in uf, "uf:contains", f"UnionFind(<{form} yielding {yielded!r}>): {e!r} is not in the structure")
        ctx.check(LATE not in uf, "uf:contains", f"UnionFind(<{form} yielding {yielded!r}>): contains {LATE!r}, which was put into the caller's container after the construction")
    big_union = False
    frozen = []
    chain = [0]       # number of merging unions since the last query that walks the internal trees
    for step, op in enumerate(case["ops"]):
        name = op[0]
        args = [dec(a) for a in op[1:]]
        where = f"step {step} {name}{tuple(args)}"
        before = model.snapshot()
        if name == "add":
            ctx.call("uf:add", uf.add, args[0])
            if model.has(args[0]):
                ctx.label("repeat-add")
            model.add(args[0])
        elif name == "union":
            x, y = args
            if x == y:
                ctx.label("self-union")
            if not model.has(x) or not model.has(y):
                ctx.label("union-absent")
            if step % 2:
                ctx.call("uf:union", lambda: uf.union(rebuild(x), rebuild(y)))      # keys built on the fly
            else:
                ctx.call("uf:union", uf.union, x, y)
            r = model.union(x, y)
            if r:
                chain[0] += 1
            if r and min(r) >= 2:
                big_union = True
                ctx.label("big-union")
                ctx.nontrivial()   # the full read-out below queries every pair after this step
        elif name == "find":
            x = args[0]
            if model.has(x):
                ok, r = ctx.call("uf:find", uf.find, x)
                if ok:
                    ok2, e = ctx.call("uf:getitem", uf.__getitem__, r)
                    if ok2:
                        ctx.check(model.has(e) and model.block(e) is model.block(x), "uf:find", f"{where}: find -> index {r} = element {e!r}, not in block of {x!r}")
            else:
                try:
                    uf.find(x)
                    ctx.fail("uf:find-absent", f"{where}: find of absent element did not raise ValueError")
                except ValueError:
                    pass
        elif name == "connected":
            x, y = args
            if model.has(x) and model.has(y):
                ok, c = ctx.call("uf:connected", uf.connected, x, y)
                if ok:
                    ctx.check(bool(c) == (model.block(x) is model.block(y)), "uf:connected", f"{where} = {c}")
                if big_union:
                    ctx.nontrivial()
        elif name == "component":
            x = args[0]
            if model.has(x):
                ok, c = ctx.call("uf:component", uf.component, x)
                if ok:
                    ctx.check(isinstance(c, set) and set(c) == model.block(x) and len(c) == len(model.block(x)), "uf:component", f"{where} = {c!r}, model {model.block(x)!r}")
                if big_union:
                    ctx.nontrivial()
            else:
                try:
                    uf.component(x)
                    ctx.fail("uf:component-absent", f"{where}: component of absent element did not raise ValueError")
                except ValueError:
                    pass
        elif name == "in":
            ctx.check((args[0] in uf) == model.has(args[0]), "uf:contains", where)
        elif name == "fresh":
            ctx.label("fresh-temporary-keys")
        elif name == "clone":
            # the structure goes through copy.copy / copy.deepcopy / a pickle round trip and the history continues on the clone; the
            # original (deep clones only) must still describe the partition it had at that moment
            import copy, pickle
            how = args[0]
            ok, cl = ctx.call("uf:clone:" + how, {"copy": copy.copy, "deepcopy": copy.deepcopy,
                                                  "pickle": lambda u: pickle.loads(pickle.dumps(u))}[how], uf)
            if ok:
                ctx.label("clone=" + how)
                if how != "copy":
                    frozen.append((uf, PartitionModel.clone_of(model), f"original of the {how} made at step {step}"))
                uf = cl
        elif name == "components":
            ok, comps = ctx.call("uf:components", uf.components)
            if ok:
                got = sorted(sorted(map(repr, c)) for c in comps)
                ctx.check(got == model.snapshot(), "uf:components", f"{where}: {comps}")
            if big_union:
                ctx.nontrivial()
        elif name == "mapping":
            ok, mp = ctx.call("uf:mapping", uf.component_mapping)
            if ok:
                ctx.check(len(mp) == len(model.order) and set(mp.keys()) == set(model.order), "uf:mapping-keys", f"{where}: keys {list(mp.keys())!r} vs {model.order!r}")
                for e in model.order:
                    if e in mp:
                        ctx.check(set(mp[e]) == model.block(e) and len(mp[e]) == len(model.block(e)), "uf:mapping", f"{where}: mapping[{e!r}]={mp[e]!r} model {model.block(e)!r}")
            if big_union:
                ctx.nontrivial()
        elif name == "roots":
            ok, roots = ctx.call("uf:roots", uf.roots)
            if ok:
                ctx.check(len(roots) == len(model.blocks), "uf:roots", f"{where}: {roots}")
        elif name == "len":
            ctx.check(len(uf) == len(model.order), "uf:count", where)
        elif name == "counts":
            ctx.check(uf.n_elts == len(model.order) and uf.n_comps == len(model.blocks), "uf:n_comps", f"{where}: {uf.n_elts},{uf.n_comps}")
        elif name == "index":
            i = args[0]
            if 0 <= i < len(model.order):
                ok, e = ctx.call("uf:getitem", uf.__getitem__, i)
                if ok:
                    ctx.check(e == model.order[i], "uf:getitem", f"{where}: {e!r} vs {model.order[i]!r}")
            else:
                try:
                    uf[i]
                    ctx.fail("uf:getitem-oob", f"{where}: no IndexError")
                except IndexError:
                    pass
        if name in ("components", "mapping", "roots") or (name in ("find", "connected", "component") and all(model.has(a) for a in args)):
            if chain[0] >= 3:
                ctx.label("first-query-after-union-chain=" + name)
            chain[0] = 0
        if name not in ("add", "union"):
            ctx.check(model.snapshot() == before, "harness", "model changed by a query")
        # queries never change the partition; the whole read-out agrees with the model (after every step, or - "sparse" -
        # only after query operations, so that union chains are not interleaved with path-compressing finds)
        if case.get("readout", "every") == "every" or name not in ("add", "union", "clone"):
            observe_partition(uf, ctx, model, where, case.get("order", 0) + step, chain)
    observe_partition(uf, ctx, model, "end of history", case.get("order", 0), chain)
    for old, old_model, what in frozen:
        observe_partition(old, ctx, old_model, what + " (read at the end of the history)", case.get("order", 0))


# --------------------------------------------------------------------------------- priority queue
PRIOS = st.one_of(st.integers(-3, 3).map(float), st.integers(-3, 3),
                  st.sampled_from([2 ** 53, 2 ** 53 + 1, 2 ** 53 + 2, -2 ** 53 - 1, -2 ** 53, 2 ** 63, 2 ** 64 + 1, 10 ** 30, 10 ** 30 + 1]), st.sampled_from([float("inf"), float("-inf"), 0.0, -0.0, 1e-300, 1e300, 0.5]),
                  st.floats(allow_nan=False, allow_infinity=True, width=64))
PAYLOAD = st.one_of(st.integers(-2, 2), st.sampled_from(["a", "b", None]), st.lists(st.integers(0, 2), max_size=2))


@st.composite
def pq_case(draw):
    if draw(st.integers(0, 2)) == 0:
        # "heavy" histories: many pending items (a heap of some depth) with a few infinite priorities pushed late, then a drain
        n = draw(st.integers(8, 40))
        ops = []
        for _ in range(n):
            r = draw(st.integers(0, 9))
            w = float("-inf") if r == 0 else float("inf") if r == 1 else float(draw(st.integers(0, 12)))
            ops.append(["push", draw(st.integers(0, 3)), w])
            if draw(st.integers(0, 5)) == 0:
                ops.append(["pop"])
        return {"ops": ops, "payload_mode": draw(st.sampled_from(["unique", "plain"]))}
    ops = draw(st.lists(st.one_of(
        st.tuples(st.just("push"), PAYLOAD, PRIOS).map(list),
        st.tuples(st.just("push"), PAYLOAD, st.integers(0, 2).map(float)).map(list),
        st.sampled_from([["pop"], ["get"], ["front"], ["empty"]])), min_size=1, max_size=50))
    # payload mode: "unique" wraps every pushed payload in an unorderable dict with a unique id (the queue may only compare
    # priorities); "plain" pushes the drawn payloads themselves, so that equal, hashable payloads are pending several times
    return {"ops": ops, "payload_mode": draw(st.sampled_from(["unique", "plain"]))}


def fn_pq_plain(case, ctx):
    """equal hashable payloads pushed repeatedly: the model is a multiset of (payload, priority)"""
    from collections import Counter
    from mouette.utils import PriorityQueue
    q = PriorityQueue()
    pending = Counter()
    norm = lambda x: tuple(x) if isinstance(x, list) else x
    for step, op in enumerate(case["ops"]):
        name = op[0]
        where = f"step {step} {op}"
        if name == "push":
            x = norm(op[1])
            ctx.call("pq:push", q.push, x, op[2])
            if pending[(repr(x), op[2])] > 0 or any(k[0] == repr(x) for k, c in pending.items() if c > 0):
                ctx.label("same-payload-pending-twice"); ctx.nontrivial()
            pending[(repr(x), op[2])] += 1
        elif name in ("pop", "get"):
            if sum(pending.values()) == 0:
                try:
                    getattr(q, name)()
                    ctx.fail("pq:pop-empty", f"{where}: no IndexError on empty queue")
                except IndexError:
                    pass
            else:
                ok, it = ctx.call("pq:pop", getattr(q, name))
                if ok:
                    mn = min(k[1] for k, c in pending.items() if c > 0)
                    k = (repr(it.x), it.priority)
                    if ctx.check(pending[k] > 0, "pq:pop-item", f"{where}: popped {it!r} is not pending (or handed out more often than pushed)"):
                        pending[k] -= 1
                        ctx.check(it.priority == mn, "pq:pop-min", f"{where}: popped priority {it.priority}, minimum pending {mn}")
        ok, e = ctx.call("pq:empty", q.empty)
        if ok:
            ctx.check(bool(e) == (sum(pending.values()) == 0), "pq:empty", f"{where}: empty()={e} with {sum(pending.values())} pending")
    last = None
    while sum(pending.values()) > 0:
        ok, it = ctx.call("pq:pop", q.pop)
        if not ok:
            return
        k = (repr(it.x), it.priority)
        if not ctx.check(pending[k] > 0, "pq:drain", f"drain: {it!r} not pending; still pending {dict((k2, c) for k2, c in pending.items() if c > 0)}"):
            return
        pending[k] -= 1
        ctx.check(last is None or not (it.priority < last), "pq:drain-order", f"drain: {it.priority} after {last}")
        last = it.priority
    ok, e = ctx.call("pq:empty", q.empty)
    if ok:
        ctx.check(bool(e), "pq:empty", "queue not empty after draining every pushed item")


def fn_pq(case, ctx):
    ctx.label("payload=" + case.get("payload_mode", "unique"))
    if case.get("payload_mode") == "plain":
        return fn_pq_plain(case, ctx)
    from mouette.utils import PriorityQueue
    q = PriorityQueue()
    pending = {}   # uid -> (payload, priority)
    uid = 0
    for step, op in enumerate(case["ops"]):
        name = op[0]
        where = f"step {step} {op}"
        if name == "push":
            item = {"id": uid, "p": op[1]}   # dicts are unorderable: the queue may only compare priorities
            ok, _ = ctx.call("pq:push", q.push, item, op[2])
            pending[uid] = (op[1], op[2])
            uid += 1
        elif name in ("pop", "get"):
            if not pending:
                ctx.label("pop-empty")
                try:
                    getattr(q, name)()
                    ctx.fail("pq:pop-empty", f"{where}: no IndexError on empty queue")
                except IndexError:
                    pass
            else:
                front_ok, fr = ctx.call("pq:front", lambda: q.front)
                ok, it = ctx.call("pq:pop", getattr(q, name))
                if ok:
                    mn = min(w for _, w in pending.values())
                    ties = sum(1 for _, w in pending.values() if w == mn)
                    if ties > 1:
                        ctx.label("tie"); ctx.nontrivial()
                    good = isinstance(it.x, dict) and it.x.get("id") in pending
                    ctx.check(good, "pq:pop-item", f"{where}: popped {it!r} is not a pending item (or handed out twice)")
                    if good:
                        pl, w = pending.pop(it.x["id"])
                        ctx.check(it.priority == w and it.x["p"] == pl, "pq:pop-item", f"{where}: popped {it!r} but pushed ({pl!r},{w})")
                        ctx.check(w == mn, "pq:pop-min", f"{where}: popped priority {w} but minimum pending is {mn}")
                        if front_ok:
                            ctx.check(fr.priority == w, "pq:front", f"{where}: front priority {fr.priority} but pop gave {w}")
        elif name == "front":
            if pending:
                ok, fr = ctx.call("pq:front", lambda: q.front)
                if ok:
                    mn = min(w for _, w in pending.values())
                    ctx.check(fr.priority == mn and isinstance(fr.x, dict) and fr.x.get("id") in pending, "pq:front", f"{where}: {fr!r}, min pending {mn}")
        elif name == "empty":
            pass
        ok, e = ctx.call("pq:empty", q.empty)
        if ok:
            ctx.check(bool(e) == (len(pending) == 0), "pq:empty", f"{where}: empty()={e} with {len(pending)} pending")
    # drain: each pushed item exactly once, in non-decreasing priority
    last = None
    while pending:
        ok, it = ctx.call("pq:pop", q.pop)
        if not ok:
            return
        good = isinstance(it.x, dict) and it.x.get("id") in pending
        if not ctx.check(good, "pq:drain", f"drain: {it!r} not pending"):
            return
        pl, w = pending.pop(it.x["id"])
        ctx.check(last is None or not (w < last), "pq:drain-order", f"drain: {w} after {last}")
        last = w
    ok, e = ctx.call("pq:empty", q.empty)
    if ok:
        ctx.check(bool(e), "pq:empty", "queue not empty after draining every pushed item")


SUBCHECKS = [
    SubCheck("unionfind", uf_case(), fn_uf, quick=2000, thorough=6000),
    SubCheck("priority_queue", pq_case(), fn_pq, quick=2000, thorough=6000),
]


def _kf_component_numpy(case, v):
    return False


MATCHERS = {}
