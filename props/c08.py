"""C08 - discrete differential operators satisfy their defining identities."""
import math
import random
import numpy as np
import scipy.sparse as sp
from hypothesis import strategies as st
from vlib.runner import SubCheck
from vlib import gen_surface as G
from vlib import gen_tets as GT
from vlib import ref_fem as R
from vlib.topo import SurfRef, TetRef, key
from vlib.build import surface_from, volume_from, polyline_from, ints

PROPERTY = "C08"
RULE = ("Triangulated surfaces: well-shaped (min angle >= 8 deg) closed (tetra/octa/icosahedron, bipyramids, antiprisms, tori) and "
        "bordered (grids, cylinders, fans, strips, polygons; 1-3 splits, flips, edge splits, face deletions) surfaces and Delaunay "
        "disks (planar or with a height field), optionally midpoint-subdivided once or twice (<= 600 faces), orientation "
        "reversed, rigidly moved, uniformly scaled (1e-6 ... 1e6: 1 / 0.05 / 20 / 1e-3 / 1e-4 / 1e-6 / 1e3 / 1e6, tolerances relative), integer lattices whose "
        "coordinates are handed over as numpy int64 / python ints, with an unreferenced trailing vertex in 1/10 of the cases; x "
        "state option (nothing cached / corner angles cached, which switches the cotangent formula) x neighbourhood sorting on/off x "
        "a shuffled order of the operator groups on one shared mesh object (so cached area / cotan attributes are met in every order); every "
        "returned matrix is overwritten in place right after it was read, and in 1/3 of the cases all groups are run a second time on the "
        "same mesh (after another mesh object was used); the custom adjacency dict has a shuffled insertion order and, in half of the cases, numpy float32 / uint8 values; in half of the cases some of "
        "its weights are EXACTLY ZERO (labels custom-weights:some-zero / all-zero / no-zero): either signed weights of which about a third "
        "vanish (0.0, -0.0, int 0, False, numpy zero) or a 0/1 mask (python bools / ints / floats / numpy, label 0/1-mask) - the expected matrix "
        "then has no non-zero entry on those edges; calls that "
        "raise (bad weights name, incomplete dict) precede the checked ones. CALL STYLE (one per case, label call-style=..., a different "
        "one in the second pass): every operator call hands its documented parameters over as kw-sparse (only the non-default options, by "
        "keyword) / positional (by position in the documented order up to the last non-default option, defaults in between spelled out) / "
        "positional-full (all of them by position, trailing ones at their documented default) / kw-all (all by keyword, mesh= included) / "
        "mixed (seeded positional prefix, rest by keyword); the mass-matrix format is requested together with a seeded inverse / sqrt "
        "combination and compared with the entrywise transform of the plain matrix. Further per-case draws: anisotropic stretch, translation by "
        "1e3..1e6 x the mean edge length (tolerance = max(1e-9, 64 eps x offset/size)), face / cell rows as list, tuple, numpy int64 / "
        "int32 / int16 / uint8 rows or through mesh.from_arrays, library switches config.complete_edges_from_faces=False (1/6: only the "
        "face-based operators and the empty edge set are checked) and display_duplicate_attribute_warning, a cached SPARSE area / "
        "volume attribute, a user-written connection object for the gradient. On every mesh ALL options are swept: laplacian cotan/uniform/(vertex "
        "connection, order 1,2,4), gradient complex and real in SurfaceConnectionFaces (and FlatConnectionFaces on planar "
        "meshes) bases, three area mass matrices x inverse x sqrt x format, adjacency one/length/custom, vertex-edge operator "
        "oriented or not, vertex-face operator, graph laplacian, cotan_edge_diagonal inverse or not, laplacian_triangles and "
        "laplacian_edges cotan/uniform. Tetrahedral meshes (gen_tets, any orientation parity): volume_laplacian, "
        "laplacian_tetrahedra, both volume mass matrices x inverse x sqrt x format, graph operators. Graphs: polylines (paths, "
        "cycles, trees, random simple graphs, unions, isolated vertices, no edge at all) and polygon surfaces for the graph "
        "operators. Oracles: numpy P1 stiffness / gradients from barycentric-coordinate gradients (vlib/ref_fem.py), incidence "
        "lists from the raw face / cell / edge lists. Dense comparison, tolerance 1e-9 relative to the largest entry. "
        "non-trivial = surface with >=1 interior vertex and >=4 faces (label 'border+interior' when it also has a border) / "
        "tet mesh with >=2 cells and an interior face / graph with >=2 edges; distinct = distinct realised case.")
ASSUMPTIONS = ["surfaces are oriented manifold triangulations with min angle >= 8 deg and max angle <= 170 deg; tetrahedra have "
               "|det| >= 1e-6 before scaling",
               "mass matrix multiples derived from the code's construction: vertex mass = sum of the full areas (volumes) of the "
               "incident faces (cells) -> entries sum to 3 x total area (4 x total volume); face / edge / cell masses sum to 1 x",
               "uniform laplacian(cotan=False): off-diagonal = -(number of incident faces)/2 (so -1/2 on border edges), as the code "
               "assembles it; equal to the graph Laplacian on closed surfaces only",
               "vertex_to_face_operator is read through the shape the code produces (|F| x |V|); only its content is checked",
               "cotan_edge_diagonal: only |entry| is compared (docstring has abs(), code does not)",
               "FlatConnectionFaces is only used on meshes embedded without fold-over in the plane z=0",
               "volume_laplacian: beyond symmetry / zero row sums, equality with the P1 tetrahedral stiffness matrix (the n-D cotan "
               "formula the docstring cites) is asserted only on meshes whose dihedral angles are all <= 90 deg, because the code "
               "takes |cot| of each dihedral angle (values on meshes with an obtuse dihedral angle are not asserted)",
               "the connection Laplacian (laplacian(connection=SurfaceConnectionVertices)) is only checked to be Hermitian with the "
               "moduli / diagonal of the scalar Laplacian; a failure to build the vertex connection is discarded, not reported",
               "integer-typed coordinates (numpy int64 rows / python ints) are in the domain only up to |coordinate| <= 2e4: the library "
               "keeps them as int64 vectors, and with coordinates around 1e6 its cross products / squared norms overflow int64 "
               "silently (observed: wrong areas, cotangents, gradients, NaN in the feature detector) - a matter of vertex ingestion "
               "(C02), not asserted here",
               "config.complete_edges_from_faces=False: a faces-only surface then has no edges; laplacian / gradient / vertex and face masses / "
               "vertex-face operator must be unaffected, edge-based operators are only checked against the empty edge set, laplacian_edges, "
               "the dual operators and SurfaceConnectionVertices are not called. config.complete_faces_from_cells=False is NOT drawn: the "
               "unchanged library cannot even construct a VolumeMesh under it (KeyError in RawMeshData._generate_cell_faces) - reported",
               "float32 vertex coordinates are not generated (the library keeps the dtype and computes in single precision)",
               "the documented signature of an operator is its def line + Args section: parameter names, their order and their defaults "
               "(laplacian* (mesh, cotan=True, connection=None, order=4), gradient (mesh, conn, as_complex=True), area_weight_matrix / "
               "volume_weight_matrix[_cells] (mesh, inverse=False, sqrt=False, format='csc'), area_weight_matrix_faces (mesh, inverse=False, "
               "format='csc'), area_weight_matrix_edges / cotan_edge_diagonal (mesh, inverse), adjacency_matrix (mesh, weights='one'), "
               "vertex_to_edge_operator (mesh, oriented=False)); passing them by position in that order, by keyword, or a documented "
               "default explicitly is a valid call. New parameters appended after them are not noticed",
               "custom adjacency weights: any real number is a weight, zero included (python bool / int / float or numpy scalar); an "
               "explicit stored 0 and an absent entry are both accepted for a zero weight",
               "non-orientable / inconsistently oriented surfaces (Moebius strip) are outside the domain",
               "an unreferenced trailing vertex is in the domain of the |V|-sized operators (laplacian, graph operators, gradient); "
               "mass matrices are not checked on such meshes (zero mass is outside 'positive diagonal')"]

TOL = 1e-9
EPS = float(np.finfo(float).eps)
# Tolerance in force for the current case.  1e-9 (relative) unless the mesh lies far from the origin compared with its element size:
# translation-invariant quantities computed from absolute coordinates legitimately lose eps x offset/size (linear in the ratio); a
# formula that cancels catastrophically loses eps x (offset/size)^2 and is still far outside.
CUR = {"tol": TOL, "style": "kw-sparse", "rnd": random.Random(0)}

# How the documented parameters of an operator are handed over (one style per case, another one in the second pass).  Every operator
# documents its parameters by name, in an order, with defaults: each of these ways of calling it is valid under that signature
# and must give the same matrix.
#   kw-sparse        mesh by position, required parameters by position, only the non-default options, by keyword
#   positional       everything by position up to the last non-default option (documented defaults spelled out in between)
#   positional-full  every documented parameter by position, trailing ones at their documented default
#   kw-all           every documented parameter, the mesh included, by keyword
#   mixed            a seeded prefix by position, the rest by keyword; trailing defaults spelled out or not
WZERO = [None, None, "some", "mask"]          # zero weights in the custom adjacency dict
CALL_STYLES = ["kw-sparse", "positional", "positional", "positional-full", "kw-all", "mixed"]
REQUIRED = object()


def set_case_style(case, ctx, shift=0):
    style = case.get("style", "kw-sparse")
    if shift:
        order = ["kw-sparse", "positional", "kw-all", "positional-full", "mixed"]
        style = order[(order.index(style) + shift) % len(order)]
    CUR["style"] = style
    CUR["rnd"] = random.Random(int(case.get("group_seed", case.get("wseed", 0))) * 7 + shift)
    ctx.label(("call-style(2nd-pass)=" if shift else "call-style=") + style)


def invoke(ctx, sig, fun, m, params=()):
    """ctx.call of operator `fun` on mesh `m`; params = [(name, value, documented default or REQUIRED)] in the documented order,
    handed over in the call style of the current case"""
    style, rnd = CUR["style"], CUR["rnd"]
    params = list(params)
    needed = [d is REQUIRED or not (type(v) is type(d) and v == d) for _, v, d in params]
    last = max([i + 1 for i, nd in enumerate(needed) if nd] or [0])
    if style == "positional":
        return ctx.call(sig, fun, m, *[v for _, v, _ in params[:last]])
    if style == "positional-full":
        return ctx.call(sig, fun, m, *[v for _, v, _ in params])
    if style == "kw-all":
        return ctx.call(sig, fun, mesh=m, **{n: v for n, v, _ in params})
    if style == "mixed":
        j = rnd.randint(0, last)
        stop = len(params) if rnd.random() < 0.5 else last
        return ctx.call(sig, fun, m, *[v for _, v, _ in params[:j]], **{n: v for n, v, _ in params[j:stop]})
    npos = max([i + 1 for i, (_, _, d) in enumerate(params) if d is REQUIRED] or [0])
    return ctx.call(sig, fun, m, *[v for _, v, _ in params[:npos]], **{n: v for (n, v, _), nd in list(zip(params, needed))[npos:] if nd})


def set_case_tolerance(Vn, edges):
    CUR["tol"] = TOL
    if len(edges):
        size = min(float(np.linalg.norm(Vn[a] - Vn[b])) for a, b in edges)
        used = sorted(set(v for e in edges for v in e))
        ratio = float(np.max(np.abs(Vn[used]))) / size if size > 0 else 1.0
        CUR["tol"] = max(TOL, 64 * EPS * ratio)
    return CUR["tol"]
FORMATS = ["csc", "csr", "coo", "lil", "dia"]
# every operator is covariant under uniform scaling (L: s^0, G: s^-1, area: s^2, volume: s^3): millimetre / micrometre sized
# and kilometre sized objects are in the domain; all tolerances are relative
SCALES = [1.0, 1.0, 1.0, 0.05, 20.0, 1e-3, 1e-4, 1e-6, 1e3, 1e6]


def scale_label(s):
    return "scale=1" if s == 1.0 else "scale=tiny(<=1e-3)" if s <= 1e-3 else "scale=huge(>=1e3)" if s >= 1e3 else f"scale={s}"


def all_integral(V):
    """integral coordinates small enough that products of three coordinate differences, squared, stay far inside int64
    (the library keeps integer vertices as int64 Vec; larger integer coordinates overflow silently - see ASSUMPTIONS)"""
    return all(float(x).is_integer() and abs(x) <= 2e4 for v in V for x in v)


FACE_FORMS = ["list", "list", "tuple", "int64", "int32", "int16", "uint8", "from_arrays", "from_arrays32"]
NP_INDEX = {"int64": np.int64, "int32": np.int32, "int16": np.int16, "uint8": np.uint8}


def index_rows(rows, form):
    """index rows (faces / cells) in the requested container form; 'uint8' only when every index fits"""
    if form == "uint8" and max(max(r) for r in rows) > 255:
        form = "int16"
    if form in NP_INDEX:
        return [np.array(r, dtype=NP_INDEX[form]) for r in rows]
    if form == "tuple":
        return [tuple(r) for r in rows]
    return [list(r) for r in rows]


def build_surface(V, F, int_mode, form="list"):
    """int_mode: None (floats) / 'numpy' (int64 rows) / 'python' (lists of int); form: container / dtype of the face rows,
    'from_arrays[32]' = mouette.mesh.from_arrays with an (n,3) index array of dtype int64 / int32"""
    import mouette as M
    from mouette.mesh.mesh_data import RawMeshData
    if form in ("from_arrays", "from_arrays32"):
        Va = np.array(V, dtype=np.int64 if int_mode else float).reshape(-1, 3)
        return M.mesh.from_arrays(Va, F=np.array(F, dtype=np.int32 if form == "from_arrays32" else np.int64))
    raw = RawMeshData()
    if int_mode == "numpy":
        raw.vertices += [np.array([int(x) for x in v], dtype=np.int64) for v in V]
    elif int_mode:
        raw.vertices += [[int(x) for x in v] for v in V]
    else:
        raw.vertices += [list(map(float, v)) for v in V]
    raw.faces += index_rows(F, form)
    return M.mesh.SurfaceMesh(raw)


def build_volume(V, C, int_mode, form="list"):
    import mouette as M
    from mouette.mesh.mesh_data import RawMeshData
    if form in ("from_arrays", "from_arrays32"):
        Va = np.array(V, dtype=np.int64 if int_mode else float).reshape(-1, 3)
        return M.mesh.from_arrays(Va, C=np.array(C, dtype=np.int32 if form == "from_arrays32" else np.int64))
    raw = RawMeshData()
    if int_mode == "numpy":
        raw.vertices += [np.array([int(x) for x in v], dtype=np.int64) for v in V]
    elif int_mode:
        raw.vertices += [[int(x) for x in v] for v in V]
    else:
        raw.vertices += [list(map(float, v)) for v in V]
    raw.cells += index_rows(C, form)
    return M.mesh.VolumeMesh(raw)


class CustomFaceConnection:
    """A user-written connection object (only what operators.gradient documents to need: project(V, i) and base(i)): one
    orthonormal tangent frame per face, X = a seeded rotation of the first edge direction about the face normal, Y = N x X."""

    def __init__(self, Vn, F, N, seed):
        rnd = random.Random(seed)
        self.X = np.zeros((len(F), 3)); self.Y = np.zeros((len(F), 3))
        for i, f in enumerate(F):
            e = Vn[f[1]] - Vn[f[0]]
            e = e - np.dot(e, N[i]) * N[i]
            e /= np.linalg.norm(e)
            w = np.cross(N[i], e)
            th = rnd.uniform(0, 2 * math.pi)
            self.X[i] = math.cos(th) * e + math.sin(th) * w
            self.Y[i] = np.cross(N[i], self.X[i])

    def base(self, i):
        return self.X[i].copy(), self.Y[i].copy()

    def project(self, V, i):
        V = np.asarray(V, dtype=float)
        return float(np.dot(self.X[i], V)), float(np.dot(self.Y[i], V))


def snapshot(m, kind):
    """coordinates and element lists of a mesh, to assert that operators do not modify their argument"""
    V = [[float(x) for x in v] for v in m.vertices]
    E = [tuple(ints(e)) for e in m.edges]
    if kind == "surface":
        return V, E, [tuple(ints(f)) for f in m.faces]
    if kind == "volume":
        return V, E, [tuple(ints(c)) for c in m.cells]
    return V, E, []


# ============================================================================================ helpers

def amax(A):
    return float(np.max(np.abs(A))) if np.size(A) else 0.0


def relclose(A, B, tol=None):
    tol = CUR["tol"] if tol is None else max(tol, tol / TOL * CUR["tol"])      # explicit tolerances are multiples of the base one
    A = np.asarray(A); B = np.asarray(B)
    if A.shape != B.shape:
        return False
    if A.size == 0:
        return True
    if not (np.all(np.isfinite(A)) and np.all(np.isfinite(B))):
        return False
    s = max(amax(A), amax(B))
    return bool(np.max(np.abs(A - B)) <= tol * s)


def relclose_entrywise(d, exp, tol=None):
    """every entry within tol of its own expected value (for positive diagonals with a wide dynamic range)"""
    tol = CUR["tol"] if tol is None else tol
    d = np.asarray(d, dtype=float); exp = np.asarray(exp, dtype=float)
    if d.shape != exp.shape:
        return False
    if not (np.all(np.isfinite(d)) and np.all(np.isfinite(exp))):
        return False
    return bool(np.all(np.abs(d - exp) <= tol * np.abs(exp)))


def worst(A, B):
    """(index, value A, value B) of the largest discrepancy - for messages"""
    A = np.asarray(A); B = np.asarray(B)
    if A.shape != B.shape or A.size == 0:
        return f"shapes {A.shape} vs {B.shape}"
    i = np.unravel_index(int(np.argmax(np.abs(A - B))), A.shape)
    return f"at {tuple(int(x) for x in i)}: library {A[i]!r}, reference {B[i]!r} (largest entry {max(amax(A), amax(B)):.6g})"


class SecondPass:
    """ctx proxy used when every operator group is run a second time on the same mesh object (after all matrices returned by
    the first pass were overwritten in place and after other mesh objects were used): signatures get a suffix"""

    def __init__(self, ctx, suffix="@2nd-pass"):
        self._c = ctx
        self._s = suffix

    def check(self, cond, signature, message="", **detail):
        return self._c.check(cond, signature + self._s, message, **detail)

    def fail(self, signature, message, **detail):
        return self._c.fail(signature + self._s, message, **detail)

    def call(self, signature, f, *a, **kw):
        return self._c.call(signature + self._s, f, *a, **kw)

    def __getattr__(self, name):
        return getattr(self._c, name)


def scribble(mat):
    """Overwrite, in place, the values of a matrix the library returned.  A returned matrix belongs to the caller (who may scale
    it, take its square root in place, ...): nothing the library computes afterwards on the same mesh may depend on it."""
    try:
        d = mat.data
        if isinstance(d, np.ndarray) and d.dtype != object:
            d[...] = d * (-2.5) + 7.0
        else:                                   # lil: object array of python lists
            for row in d:
                for k in range(len(row)):
                    row[k] = row[k] * (-2.5) + 7.0
    except Exception:
        pass


def todense(ctx, sig, mat, shape, what):
    """validate 'a scipy sparse matrix of the stated shape with finite entries' and return it dense, else None"""
    if not ctx.check(sp.issparse(mat), sig + ":type", f"{what} returned {type(mat).__name__}, not a scipy sparse matrix"):
        return None
    if shape is not None and not ctx.check(tuple(mat.shape) == tuple(shape), sig + ":shape",
                                           f"{what} has shape {tuple(mat.shape)}, expected {tuple(shape)}"):
        return None
    A = np.array(mat.toarray())                 # an independent dense copy ...
    scribble(mat)                               # ... then the returned object is overwritten in place
    if not ctx.check(bool(np.all(np.isfinite(A))), sig + ":finite", f"{what} has non-finite entries"):
        return None
    return A


def stored_entries(mat):
    """list of stored non-zero (row, col, value) WITHOUT summing duplicates"""
    c = mat.tocoo(copy=True)
    return [(int(i), int(j), v) for i, j, v in zip(c.row, c.col, c.data) if v != 0]


def check_entries(ctx, sig, mat, shape, expected, what):
    """mat must hold exactly one stored entry per key of `expected` {(i,j): value} and nothing else"""
    if not ctx.check(sp.issparse(mat), sig + ":type", f"{what} returned {type(mat).__name__}, not a scipy sparse matrix"):
        return False
    if not ctx.check(tuple(mat.shape) == tuple(shape), sig + ":shape", f"{what} has shape {tuple(mat.shape)}, expected {tuple(shape)}"):
        return False
    ent = stored_entries(mat)
    scribble(mat)
    expected = {k: v for k, v in expected.items() if v != 0}      # a zero weight (zero-length edge) may or may not be stored
    pos = [(i, j) for i, j, _ in ent]
    dup = sorted(set(p for p in pos if pos.count(p) > 1)) if len(set(pos)) != len(pos) else []
    if not ctx.check(not dup, sig + ":duplicate-entries", f"{what}: positions stored more than once: {dup[:6]}"):
        return False
    missing = sorted(set(expected) - set(pos))
    extra = sorted(set(pos) - set(expected))
    if not ctx.check(not missing and not extra, sig + ":pattern",
                     f"{what}: missing entries {missing[:6]}, unexpected entries {extra[:6]} ({len(expected)} incidences expected, {len(pos)} stored)"):
        return False
    vals = np.array([v for _, _, v in ent], dtype=float)
    exp = np.array([expected[(i, j)] for i, j, _ in ent], dtype=float)
    bad = None
    if len(vals):
        s = max(amax(vals), amax(exp))
        k = int(np.argmax(np.abs(vals - exp)))
        if abs(vals[k] - exp[k]) > CUR["tol"] * s:
            bad = (ent[k][0], ent[k][1], float(vals[k]), float(exp[k]))
    return ctx.check(bad is None, sig + ":values", f"{what}: entry {bad[:2] if bad else None} = {bad[2] if bad else None}, expected {bad[3] if bad else None}")


def check_sym_rowsum(ctx, sig, A, what, hermitian=False):
    s = amax(A)
    if A.size == 0:
        return
    AT = A.conj().T if hermitian else A.T
    d = np.abs(A - AT)
    i = np.unravel_index(int(np.argmax(d)), A.shape)
    ctx.check(bool(d[i] <= CUR["tol"] * s), sig + ":symmetric", f"{what} is not {'Hermitian' if hermitian else 'symmetric'}: [{i[0]},{i[1]}] = {A[i]!r} but [{i[1]},{i[0]}] = {A[i[1], i[0]]!r}")
    if not hermitian:
        rs = np.abs(A.sum(axis=1))
        k = int(np.argmax(rs))
        ctx.check(bool(rs[k] <= CUR["tol"] * s), sig + ":rowsum", f"{what}: row {k} sums to {A.sum(axis=1)[k]!r} (largest entry {s:.6g})")


def graph_reference(nV, edges, weights=None):
    """dense adjacency (optionally weighted, weights indexed like `edges`) and degree-minus-adjacency"""
    A = np.zeros((nV, nV))
    for e, (a, b) in enumerate(edges):
        w = 1.0 if weights is None else weights[e]
        A[a, b] = w
        A[b, a] = w
    return A


def custom_weights(nE, seed, narrow=None, zeros=None):
    """custom dict edge id -> weight; the INSERTION ORDER of the keys is a seeded shuffle (a dict filled while walking around
    vertices, sorted by length, ... is not in edge order) - only the mapping matters.
    zeros: None (no weight vanishes) / 'some' (signed weights, about a third of them - at least one - exactly zero: 0.0, -0.0, int 0,
    False or the zero of the narrow numpy type) / 'mask' (every weight 0 or 1: python bools, ints, floats or the narrow numpy type,
    at least one 0).  A weight that is zero is a weight like any other: the documented M[i,j] = M[j,i] = weights[e] is then 0."""
    rnd = random.Random(seed)
    w = {e: rnd.choice([-1.0, 1.0]) * round(rnd.uniform(0.1, 5.0), 3) for e in range(nE)}
    order = list(range(nE))
    rnd.shuffle(order)
    if narrow == "float32":        # values exactly representable in float32, handed over as numpy float32 scalars
        out = {e: np.float32(math.copysign(max(1, round(abs(w[e]) * 8)) / 8.0, w[e])) for e in order}
    elif narrow == "uint8":
        out = {e: np.uint8(1 + int(abs(w[e]) * 40) % 250) for e in order}
    else:
        out = {e: w[e] for e in order}
    if zeros and nE:
        rz = random.Random(seed * 31 + 17)
        forced = rz.randrange(nE)
        ztype = {"float32": np.float32, "uint8": np.uint8}.get(narrow) or rz.choice([float, float, int, bool])
        for e in range(nE):
            off = e == forced or rz.random() < (0.5 if zeros == "mask" else 1 / 3)
            if zeros == "mask":
                out[e] = ztype(0 if off else 1)
            elif off:
                out[e] = -0.0 if (ztype is float and rz.random() < 0.3) else rz.choice([0.0, 0, False]) if narrow is None else ztype(0)
    return out


def lib_edges(ctx, m, expected_keys, what):
    """the stored edge list (a,b) of the mesh; must be the expected edge set, each once (precondition of the incidence oracles)"""
    medges = [tuple(ints(e)) for e in m.edges]
    ok = ctx.check(len(set(key(e) for e in medges)) == len(medges) and set(key(e) for e in medges) == set(expected_keys),
                   "precondition:edges", f"{what}: edge container {medges[:12]}... is not the edge set implied by the elements")
    return medges, ok


def graph_ops(ctx, M, m, nV, medges, Vn, wseed, prefix="", narrow=None, zeros=None):
    """graph laplacian, adjacency (3 weightings), vertex-edge operator (2 options) against the stored edge list"""
    nE = len(medges)
    A1 = graph_reference(nV, medges)
    # --- graph laplacian = degree - adjacency
    ok, L = invoke(ctx, prefix + "graph_laplacian", M.operators.graph_laplacian, m)
    if ok:
        D = todense(ctx, prefix + "graph_laplacian", L, (nV, nV), "graph_laplacian")
        if D is not None:
            exp = np.diag(A1.sum(axis=1)) - A1
            ctx.check(relclose(D, exp), prefix + "graph_laplacian:degree-minus-adjacency", "graph_laplacian != D - A " + worst(D, exp))
            check_sym_rowsum(ctx, prefix + "graph_laplacian", D, "graph_laplacian")
    # --- adjacency
    lengths = [float(np.linalg.norm(Vn[a] - Vn[b])) for a, b in medges]
    cw = custom_weights(nE, wseed, narrow, zeros)
    if narrow:
        ctx.label("weights=" + narrow)
    nz = sum(1 for v in cw.values() if not v)
    ctx.label("custom-weights:no-zero" if not nz else "custom-weights:all-zero" if nz == nE else "custom-weights:some-zero")
    if zeros == "mask" and nE:
        ctx.label("custom-weights:0/1-mask")
    # a call that raises (documented: anything but 'one' / 'length' / a dict), and one that fails half-way (a dict without an
    # entry for the last edge), must leave nothing behind: the ordinary calls below are checked as usual
    try:
        M.operators.adjacency_matrix(m, "lenght")
    except Exception:
        pass
    if nE >= 2:
        try:
            M.operators.adjacency_matrix(m, {e: 1.0 for e in range(nE - 1)})
        except Exception:
            pass
    for wname, warg, wvals in (("one", "one", [1.0] * nE), ("length", "length", lengths), ("custom", cw, [float(cw[e]) for e in range(nE)])):
        sig = prefix + "adjacency[" + wname + "]"
        ok, A = invoke(ctx, sig, M.operators.adjacency_matrix, m, [("weights", warg, "one")])
        if not ok:
            continue
        exp = {}
        for e, (a, b) in enumerate(medges):
            exp[(a, b)] = wvals[e]
            exp[(b, a)] = wvals[e]
        check_entries(ctx, sig, A, (nV, nV), exp, f"adjacency_matrix(weights={wname})")
    ctx.check(cw == custom_weights(nE, wseed, narrow, zeros) and list(cw) == list(custom_weights(nE, wseed, narrow, zeros)), prefix + "arguments:weights-modified", "adjacency_matrix changed the custom weights dict it was given")
    ok, A = invoke(ctx, prefix + "adjacency[custom,2nd]", M.operators.adjacency_matrix, m, [("weights", cw, "one")])
    if ok:
        exp = {}
        for e, (a, b) in enumerate(medges):
            exp[(a, b)] = float(cw[e])
            exp[(b, a)] = float(cw[e])
        check_entries(ctx, prefix + "adjacency[custom,2nd]", A, (nV, nV), exp, "adjacency_matrix(weights=custom), second call with the same dict")
    # --- vertex to edge operator
    for oriented in (False, True):
        sig = prefix + f"vertex_to_edge[oriented={oriented}]"
        ok, B = invoke(ctx, sig, M.operators.vertex_to_edge_operator, m, [("oriented", oriented, False)])
        if not ok:
            continue
        exp = {}
        for e, (a, b) in enumerate(medges):
            exp[(a, e)] = -1.0 if oriented else 1.0
            exp[(b, e)] = 1.0
        check_entries(ctx, sig, B, (nV, nE), exp, f"vertex_to_edge_operator(oriented={oriented})")


def vertex_face_op(ctx, M, m, nV, F, prefix=""):
    sig = prefix + "vertex_to_face"
    ok, B = invoke(ctx, sig, M.operators.vertex_to_face_operator, m)
    if not ok:
        return
    nF = len(F)
    if not ctx.check(sp.issparse(B), sig + ":type", f"vertex_to_face_operator returned {type(B).__name__}"):
        return
    # docstring says |V| x |F|, the code builds |F| x |V|: accept either, read entries accordingly
    shp = tuple(B.shape)
    if not ctx.check(shp in ((nF, nV), (nV, nF)), sig + ":shape", f"vertex_to_face_operator has shape {shp} for |V|={nV}, |F|={nF}"):
        return
    exp_fv = {}
    for iF, f in enumerate(F):
        for v in f:
            exp_fv[(iF, v)] = 1.0 / len(f)
    exp_vf = {(v, f): w for (f, v), w in exp_fv.items()}
    cands = []
    if shp == (nF, nV):
        cands.append(exp_fv)
    if shp == (nV, nF):
        cands.append(exp_vf)
    if len(cands) == 2:
        # square: pick the reading whose pattern matches
        pos = set((i, j) for i, j, _ in stored_entries(B))
        cands = [c for c in cands if set(c) == pos] or cands[:1]
    check_entries(ctx, sig, B, shp, cands[0], "vertex_to_face_operator")


def check_mass(ctx, M, sig, fun, m, n, base_ref, k, total, has_sqrt, has_format, fmt, what):
    """diagonal, positive, entries = reference, sum = k x total; inverse / sqrt entrywise; format honoured"""
    d0 = None
    combos = [(inv, sq) for inv in (False, True) for sq in ((False, True) if has_sqrt else (False,))]

    def params(inv, sq, f, fdefault="csc"):
        """the documented parameters after the mesh, in the documented order: inverse[, sqrt][, format]"""
        return [("inverse", inv, False)] + ([("sqrt", sq, False)] if has_sqrt else []) + ([("format", f, fdefault)] if has_format else [])
    for inv, sq in combos:
        kw = {}
        if inv:
            kw["inverse"] = True
        if sq:
            kw["sqrt"] = True
        s = f"{sig}[inverse={inv},sqrt={sq}]" if has_sqrt else f"{sig}[inverse={inv}]"
        ok, mat = invoke(ctx, s, fun, m, params(inv, sq, "csc"))
        if not ok:
            continue
        D = todense(ctx, s, mat, (n, n), what)
        if D is None:
            continue
        d = np.diag(D).copy()
        off = D - np.diag(d)
        if not ctx.check(np.count_nonzero(off) == 0, s + ":diagonal", f"{what}({kw}) has {np.count_nonzero(off)} off-diagonal non-zeros"):
            continue
        if not ctx.check(bool(np.all(d > 0)), s + ":positive", f"{what}({kw}) has non-positive diagonal entries, min {d.min() if d.size else None}"):
            continue
        if not inv and not sq:
            d0 = d
            ctx.check(relclose_entrywise(d, base_ref), sig + ":entries", f"{what}: " + worst(d / base_ref, np.ones_like(d)) + " (ratio library/reference)")
            ctx.check(abs(d.sum() - k * total) <= CUR["tol"] * k * total, sig + ":sum",
                      f"{what}: entries sum to {d.sum()!r}, expected {k} x total measure {total!r} = {k * total!r}")
        elif d0 is not None:
            exp = d0
            if sq:
                exp = np.sqrt(exp)
            if inv:
                exp = 1.0 / exp
            ctx.check(relclose_entrywise(d, exp), s + ":entrywise", f"{what}({kw}) is not the entrywise transform of the plain matrix: " + worst(d / exp, np.ones_like(d)) + " (ratio got/expected)")
            if inv and not sq:
                ctx.check(relclose_entrywise(d * d0, np.ones_like(d)), s + ":inverse-times-plain", f"{what}: M^-1 M != I, diagonal products range {float((d * d0).min())!r} .. {float((d * d0).max())!r}")
    if has_format:
        # the format together with a seeded choice of the other options
        s = f"{sig}[format]"
        inv, sq = CUR["rnd"].choice(combos)
        desc = f"{what}(inverse={inv}, " + (f"sqrt={sq}, " if has_sqrt else "") + f"format={fmt!r})"
        ok, mat = invoke(ctx, s, fun, m, params(inv, sq, fmt, None))
        if ok and ctx.check(sp.issparse(mat), s + ":type", f"{desc} returned {type(mat).__name__}"):
            ctx.check(getattr(mat, "format", None) == fmt, s, f"{desc} returned format {getattr(mat, 'format', None)!r}")
            if d0 is not None and tuple(mat.shape) == (n, n):
                exp = np.sqrt(d0) if sq else d0
                exp = 1.0 / exp if inv else exp
                ctx.check(relclose_entrywise(np.diag(np.asarray(mat.toarray())), exp) and relclose(np.asarray(mat.toarray()), np.diag(exp)), s + ":values",
                          f"{desc} differs from the entrywise transform of the plain default-format matrix " + worst(np.asarray(mat.toarray()), np.diag(exp)))


# ============================================================================================ triangulated surfaces

def midpoint_subdivide(V, F):
    V = [list(v) for v in V]
    mid = {}

    def mp(a, b):
        k = key(a, b)
        if k not in mid:
            mid[k] = len(V)
            V.append([(V[a][i] + V[b][i]) / 2 for i in range(3)])
        return mid[k]
    F2 = []
    for a, b, c in F:
        ab, bc, ca = mp(a, b), mp(b, c), mp(c, a)
        F2 += [[a, ab, ca], [ab, b, bc], [ca, bc, c], [ab, bc, ca]]
    return V, F2


def planar_embedded(V, F):
    """all triangles of a mesh in the plane z=0 have the same (non-zero) signed area: no fold-over"""
    sg = set()
    for a, b, c in F:
        ar = (V[b][0] - V[a][0]) * (V[c][1] - V[a][1]) - (V[b][1] - V[a][1]) * (V[c][0] - V[a][0])
        sg.add(ar > 0)
    return len(sg) == 1 and all(abs(v[2]) == 0 for v in V)


def angles_ok(V, F):
    return G.min_angle_deg(V, F) >= 8.0 and G.max_angle_deg(V, F) <= 170.0


@st.composite
def tri_case(draw):
    kind = draw(st.sampled_from(["closed", "closed", "bordered", "bordered", "bordered", "delaunay", "planar", "planar", "lattice"]))
    planar = False
    if kind == "lattice":
        # integer lattice: sheared / stretched / tilted grid with integer coordinates (handed to the library as ints)
        nu, nv = draw(st.sampled_from([1, 2, 3, 4])), draw(st.sampled_from([1, 2, 3, 4]))
        V0, F0 = G.op_triangulate_all(*G.grid(nu, nv), draw(st.sampled_from([0, 1])))
        sx, sy, k = draw(st.sampled_from([1, 2, 3])), draw(st.sampled_from([1, 2, 3])), draw(st.sampled_from([-1, 0, 1]))
        c1, c2 = draw(st.sampled_from([0, 0, 1, 2])), draw(st.sampled_from([0, 0, 1, -1]))
        Vl = [[float(sx * round(v[0]) + k * round(v[1])), float(sy * round(v[1])), float(c1 * round(v[0]) + c2 * round(v[1]))] for v in V0]
        if not angles_ok(Vl, F0):
            Vl = [[float(round(v[0])), float(round(v[1])), 0.0] for v in V0]
            c1 = c2 = 0
        planar = (c1 == 0 and c2 == 0)
        if planar and not planar_embedded(Vl, F0):
            raise AssertionError("lattice generator produced a folded mesh")
        s = {"V": Vl, "F": [list(f) for f in F0], "tags": ["base=lattice"] + G.tags_of(Vl, F0)}
    elif kind == "closed":
        s = draw(G.well_shaped_trisurf(max_faces=80, bordered=False))
    elif kind == "bordered":
        s = draw(G.well_shaped_trisurf(max_faces=80, bordered=True))
    elif kind == "delaunay":
        s = draw(G.delaunay_disks(max_pts=24, height=True))
        if not angles_ok(s["V"], s["F"]):
            s = draw(G.well_shaped_trisurf(max_faces=80, bordered=True))
    else:
        planar = True
        if draw(st.booleans()):
            s = draw(G.delaunay_disks(max_pts=24, height=False))
        else:
            s = draw(G.well_shaped_trisurf(max_faces=80, bordered=True, open_bases=("grid", "fan_closed", "fan_open", "strip", "polygon")))
            s = dict(s, V=[[v[0], v[1], 0.0] for v in s["V"]])
        if not angles_ok(s["V"], s["F"]) or not planar_embedded(s["V"], s["F"]):
            V0, F0 = G.op_triangulate_all(*G.grid(2, 3), 0)
            s = {"V": [[float(v[0]), float(v[1]), 0.0] for v in V0], "F": [list(f) for f in F0], "tags": ["base=grid-fallback"] + G.tags_of(V0, F0)}
    V, F, tags = [list(map(float, v)) for v in s["V"]], [list(map(int, f)) for f in s["F"]], list(s["tags"])
    nsub = draw(st.sampled_from([0] * 8 + [1, 1, 1, 2])) if kind != "lattice" else 0
    for _ in range(nsub):
        if 4 * len(F) <= 600:
            V, F = midpoint_subdivide(V, F)
            tags.append("subdivided")
    if kind != "lattice" and draw(st.sampled_from([True, False, False])):
        # anisotropic stretch (before any rigid motion): the identities are exact for every non-degenerate mesh
        fx, fy, fz = (draw(st.sampled_from([0.5, 1.0, 1.0, 2.0, 3.0])) for _ in range(3))
        Va = [[v[0] * fx, v[1] * fy, v[2] * fz] for v in V]
        if (fx, fy, fz) != (1.0, 1.0, 1.0) and angles_ok(Va, F):
            V = Va
            tags.append("anisotropic")
    if draw(st.booleans()):
        F = [f[::-1] for f in F]
        tags.append("orientation-reversed")
    if kind != "lattice" and draw(st.booleans()):
        if planar:
            th = draw(st.integers(0, 359)) * math.pi / 180
            c, s_ = math.cos(th), math.sin(th)
            tx, ty = draw(st.integers(-30, 30)) / 10, draw(st.integers(-30, 30)) / 10
            V = [[c * v[0] - s_ * v[1] + tx, s_ * v[0] + c * v[1] + ty, 0.0] for v in V]
        else:
            V = G.rigid(V, draw(st.integers(0, 10 ** 6)))
        tags.append("moved")
    scale = draw(st.sampled_from(SCALES if kind != "lattice" else [1.0, 1.0, 2.0, 10.0, 1e3]))
    if scale != 1.0:
        V = [[x * scale for x in v] for v in V]
    tags.append(scale_label(scale))
    isolated = draw(st.sampled_from([False] * 9 + [True]))
    if isolated:
        V = V + ([[-1.0 * scale, -1.0 * scale, 0.0 if planar else 3.0 * scale]] if kind == "lattice" else
                 [[0.5 * scale, 0.25 * scale, 0.0 if planar else 0.125 * scale]])
        tags.append("isolated-last-vertex")
    far = draw(st.sampled_from([0, 0, 0, 0, 1e3, 1e4, 1e5, 1e6])) if kind != "lattice" else 0
    if far:
        # geo-referenced data: the whole surface translated by `far` x (mean edge length)
        A_ = np.array(V, dtype=float)
        h = float(np.mean([np.linalg.norm(A_[f[i]] - A_[f[(i + 1) % 3]]) for f in F for i in range(3)]))
        d = np.array(draw(st.sampled_from([[1.0, -0.66, 0.41], [-0.31, 1.0, 0.83], [0.55, 0.47, -1.0], [1.0, 1.0, 1.0]])))
        if planar:
            d[2] = 0.0
        V = (A_ + far * h * d).tolist()
        tags.append("far-from-origin")
    int_mode = draw(st.sampled_from(["numpy", "python"])) if all_integral(V) else None
    a = [draw(st.integers(-30, 30)) / 10 for _ in range(3)]
    return {"V": [[float(x) for x in v] for v in V], "F": F, "tags": tags, "planar": planar, "isolated": isolated, "int_mode": int_mode,
            "a": a, "b": draw(st.integers(-20, 20)) / 10,
            "pre": draw(st.sampled_from(["none", "none", "angles", "area-sparse"])),
            "conn": draw(st.sampled_from(["faces", "flat", "custom"])) if planar else draw(st.sampled_from(["faces", "faces", "custom"])),
            "face_form": draw(st.sampled_from(FACE_FORMS)), "edges_off": draw(st.sampled_from([False] * 5 + [True])),
            "dup_warning": draw(st.booleans()), "narrow": draw(st.sampled_from([None, None, "float32", "uint8"])),
            "wzero": draw(st.sampled_from(WZERO)), "style": draw(st.sampled_from(CALL_STYLES)),
            "vconn": draw(st.sampled_from([True, False, False])), "order": draw(st.sampled_from([1, 2, 4])),
            "wseed": draw(st.integers(0, 10 ** 6)), "fmt": draw(st.sampled_from(FORMATS)),
            "sort": draw(st.sampled_from([True, True, False])), "second_pass": draw(st.sampled_from([True, False, False])), "group_seed": draw(st.integers(0, 10 ** 6))}


def fn_surface(case, ctx):
    import mouette as M
    V, F = case["V"], [list(f) for f in case["F"]]
    Vn = np.array(V, dtype=float).reshape(-1, 3)
    nV, nF = len(V), len(F)
    ref = SurfRef(nV, F)
    err = ref.validate()
    if err is not None or any(len(f) != 3 for f in F):
        raise AssertionError("invalid generated case: " + str(err))
    if not angles_ok(V, F):
        raise AssertionError("generated surface is not well shaped")
    if case["conn"] == "flat" and not planar_embedded(V, F):
        raise AssertionError("flat connection requested on a mesh that is not embedded in the plane z=0")
    for t in case.get("tags", []):
        if t.startswith(("base=", "scale=")) or t in ("closed", "bordered", "subdivided", "orientation-reversed", "moved",
                                                      "isolated-last-vertex", "height", "ear-removed", "relabelled", "anisotropic", "far-from-origin"):
            ctx.label(t)
    ctx.label("pre=" + case["pre"], "conn=" + case["conn"], "planar" if case["planar"] else "non-planar")
    ctx.label("faces<=20" if nF <= 20 else "faces<=80" if nF <= 80 else "faces<=600")
    isolated = bool(case.get("isolated"))
    bv = ref.border_vertices()
    used = set(v for f in F for v in f)
    interior = used - set(bv)
    closed = not bv
    ctx.nontrivial(len(interior) >= 1 and nF >= 4)
    if bv and interior:
        ctx.label("border+interior")

    # ---------------------------------------------------------------- reference data (numpy only)
    areas = R.measures(Vn, F)
    total = float(areas.sum())
    N = R.tri_normals(Vn, F)
    K = R.stiffness(Vn, F)

    if set_case_tolerance(Vn, sorted(ref.uedges)) > TOL:
        ctx.label("tolerance-relaxed(far)")
    # library-wide switches (all restored by the runner after the case)
    M.config.sort_neighborhoods = bool(case.get("sort", True))
    ctx.label("sort=" + str(bool(case.get("sort", True))))
    edges_off = bool(case.get("edges_off"))
    M.config.complete_edges_from_faces = not edges_off
    M.config.display_duplicate_attribute_warning = bool(case.get("dup_warning", False))
    ctx.label("config:edges-not-completed" if edges_off else "config:edges-completed", "config:dup-warning=" + str(bool(case.get("dup_warning", False))))
    set_case_style(case, ctx)
    int_mode = case.get("int_mode")
    if int_mode and not all_integral(V):
        raise AssertionError("integer coordinates requested for non-integral vertices")
    ctx.label("coords=int-" + int_mode if int_mode else "coords=float")
    face_form = case.get("face_form", "list")
    ctx.label("faces-as=" + face_form)
    m = build_surface(V, F, int_mode, face_form)
    if case["pre"] == "angles":
        ok, _ = ctx.call("corner_angles", M.attributes.corner_angles, m)
        if not ok:
            return
    elif case["pre"] == "area-sparse":
        ok, _ = ctx.call("face_area[sparse]", M.attributes.face_area, m, persistent=True, dense=False)
        if not ok:
            return
    # with config.complete_edges_from_faces = False a faces-only surface has no edge at all: the face-based operators (laplacian,
    # gradient, vertex / face masses, vertex-face operator) must be unaffected, the edge-based ones see an empty edge set
    medges, ok = lib_edges(ctx, m, set() if edges_off else ref.uedges, "surface")
    if not ok:
        return
    nE = len(medges)
    eid = {key(e): i for i, e in enumerate(medges)}
    state = {}
    snap0 = snapshot(m, "surface")

    # ---------------------------------------------------------------- groups
    def g_laplacian():
        ok, L = invoke(ctx, "laplacian[cotan]", M.operators.laplacian, m, [("cotan", True, True), ("connection", None, None), ("order", 4, 4)])
        if ok:
            D = todense(ctx, "laplacian[cotan]", L, (nV, nV), "laplacian(cotan=True)")
            if D is not None:
                state["L"] = D
                check_sym_rowsum(ctx, "laplacian[cotan]", D, "laplacian(cotan=True)")
                ctx.check(relclose(D, K), "laplacian[cotan]:stiffness", "cotan Laplacian != P1 stiffness matrix " + worst(D, K))
        ok, L = invoke(ctx, "laplacian[uniform]", M.operators.laplacian, m, [("cotan", False, True), ("connection", None, None), ("order", 4, 4)])
        if ok:
            D = todense(ctx, "laplacian[uniform]", L, (nV, nV), "laplacian(cotan=False)")
            if D is not None:
                U = np.zeros((nV, nV))
                for f in F:
                    for i in range(3):
                        a, b = f[i], f[(i + 1) % 3]
                        U[a, b] -= 0.5; U[b, a] -= 0.5; U[a, a] += 0.5; U[b, b] += 0.5
                check_sym_rowsum(ctx, "laplacian[uniform]", D, "laplacian(cotan=False)")
                ctx.check(relclose(D, U), "laplacian[uniform]:values", "uniform Laplacian off-diagonal != -(#incident faces)/2 " + worst(D, U))

    def g_gradient():
        which = case["conn"]
        sigc = "connection[" + which + "]"
        if which == "flat":
            ok, conn = ctx.call(sigc, M.processing.FlatConnectionFaces, m)
        elif which == "custom":
            ok, conn = True, CustomFaceConnection(Vn, F, N, case["wseed"])
        else:
            ok, conn = ctx.call(sigc, M.processing.SurfaceConnectionFaces, m)
        if not ok:
            return
        # the bases the gradient is expressed in: orthonormal, tangent, cross(X,Y) = face normal (documented in base())
        BX = np.zeros((nF, 3)); BY = np.zeros((nF, 3))
        for i in range(nF):
            ok, xy = ctx.call(sigc + ":base", conn.base, i)
            if not ok:
                return
            X = np.array([float(t) for t in xy[0]]); Y = np.array([float(t) for t in xy[1]])
            if not ctx.check(X.shape == (3,) and Y.shape == (3,), sigc + ":base", f"base({i}) = {xy!r} is not a pair of 3-vectors"):
                return
            BX[i], BY[i] = X, Y
        e = max(np.max(np.abs(np.linalg.norm(BX, axis=1) - 1)), np.max(np.abs(np.linalg.norm(BY, axis=1) - 1)),
                np.max(np.abs(np.sum(BX * BY, axis=1))), np.max(np.abs(np.sum(BX * N, axis=1))), np.max(np.abs(np.sum(BY * N, axis=1))))
        if not ctx.check(bool(e <= 1e-9), sigc + ":orthonormal-tangent", f"face bases are not orthonormal tangent frames (largest defect {e:.3g})"):
            return
        cz = np.sum(np.cross(BX, BY) * N, axis=1)
        k = int(np.argmin(cz))
        if not ctx.check(bool(cz[k] > 1 - 1e-9), sigc + ":orientation", f"cross(X,Y) of face {k} is not the face normal (dot = {cz[k]:.6g})"):
            return
        a = np.array(case["a"], dtype=float); b = float(case["b"])
        fvals = (Vn - Vn[sorted(used)].mean(axis=0)) @ a + b       # affine, centred on the mesh so that far-away meshes keep O(size) values
        exp_c = BX @ a + 1j * (BY @ a)                      # tangential projection of a in each face basis
        # cross-check of the oracle itself: P1 gradient of the interpolant, expressed in the same basis
        gref = R.p1_gradient(Vn, F, fvals)
        assert relclose(np.sum(gref * BX, axis=1) + 1j * np.sum(gref * BY, axis=1), exp_c, 1e-7) or amax(exp_c) < 1e-9, "oracle self-check"
        okc, Gc = invoke(ctx, "gradient[complex," + which + "]", M.operators.gradient, m, [("conn", conn, REQUIRED), ("as_complex", True, True)])
        okr, Gr = invoke(ctx, "gradient[real," + which + "]", M.operators.gradient, m, [("conn", conn, REQUIRED), ("as_complex", False, True)])
        Dc = todense(ctx, "gradient[complex," + which + "]", Gc, (nF, nV), "gradient(as_complex=True)") if okc else None
        Dr = todense(ctx, "gradient[real," + which + "]", Gr, (2 * nF, nV), "gradient(as_complex=False)") if okr else None
        if Dr is not None:
            ctx.check(not np.iscomplexobj(Dr), "gradient[real," + which + "]:dtype", f"real gradient has dtype {Dr.dtype}")
        Lref = state.get("L")
        for name, D in (("complex", Dc), ("real", Dr)):
            if D is None:
                continue
            sig = f"gradient[{name},{which}]"
            Dz = D if name == "complex" else D[0::2] + 1j * D[1::2]
            # one entry per (face, corner)
            pat = np.zeros((nF, nV), dtype=bool)
            for i, f in enumerate(F):
                pat[i, f] = True
            ctx.check(not np.any((np.abs(Dz) > 0) & ~pat), sig + ":pattern", "gradient has entries outside (face, its vertices)")
            gs = amax(Dz)
            ctx.check(amax(Dz.sum(axis=1)) <= CUR["tol"] * gs, sig + ":constant", f"gradient of a constant function is not zero (row sums up to {amax(Dz.sum(axis=1)):.3g})")
            got = Dz @ fvals
            tol = CUR["tol"] * (amax(a) + gs * amax(fvals))
            k = int(np.argmax(np.abs(got - exp_c)))
            ctx.check(bool(abs(got[k] - exp_c[k]) <= tol), sig + ":affine",
                      f"gradient of f(p) = {case['a']}.p + {b} in face {k} {F[k]} is {got[k]!r}, tangential projection in the face basis is {exp_c[k]!r}")
            # Re(G* A G) = stiffness
            if name == "complex":
                E = (Dz.conj().T @ (areas[:, None] * Dz)).real
            else:
                E = D.T @ (np.repeat(areas, 2)[:, None] * D)
            ctx.check(relclose(E, K), sig + ":energy", "Re(G* A G) != P1 stiffness matrix " + worst(E, K))
            if Lref is not None:
                ctx.check(relclose(E, Lref), sig + ":energy-vs-laplacian", "Re(G* A G) != laplacian(mesh) " + worst(E, Lref))
        if Dc is not None and Dr is not None:
            ctx.check(relclose(Dr[0::2] + 1j * Dr[1::2], Dc), f"gradient[{which}]:real-vs-complex", "rows 2f, 2f+1 of the real gradient are not Re, Im of the complex one")
        BX2 = np.array([[float(t) for t in conn.base(i)[0]] for i in range(nF)]); BY2 = np.array([[float(t) for t in conn.base(i)[1]] for i in range(nF)])
        ctx.check(np.array_equal(BX2, BX) and np.array_equal(BY2, BY), "arguments:connection-modified", "gradient() changed the bases of the connection object it was given")

    def g_mass():
        if isolated:
            return        # an unreferenced vertex has zero area: outside 'positive diagonal'
        pv = np.zeros(nV)
        for i, f in enumerate(F):
            for v in f:
                pv[v] += areas[i]
        pe = np.zeros(nE)
        if not edges_off:
            for i, f in enumerate(F):
                for j in range(3):
                    pe[eid[key(f[j], f[(j + 1) % 3])]] += areas[i] / 3
        check_mass(ctx, M, "mass_vertices", M.operators.area_weight_matrix, m, nV, pv, 3, total, True, True, case["fmt"], "area_weight_matrix")
        check_mass(ctx, M, "mass_faces", M.operators.area_weight_matrix_faces, m, nF, areas, 1, total, False, True, case["fmt"], "area_weight_matrix_faces")
        if not edges_off:
            check_mass(ctx, M, "mass_edges", M.operators.area_weight_matrix_edges, m, nE, pe, 1, total, False, False, case["fmt"], "area_weight_matrix_edges")

    def g_graph():
        graph_ops(ctx, M, m, nV, medges, Vn, case["wseed"], narrow=case.get("narrow"), zeros=case.get("wzero"))
        vertex_face_op(ctx, M, m, nV, F)
        if closed and not isolated and not edges_off:
            ok1, L1 = invoke(ctx, "laplacian[uniform]", M.operators.laplacian, m, [("cotan", False, True), ("connection", None, None), ("order", 4, 4)])
            ok2, L2 = invoke(ctx, "graph_laplacian", M.operators.graph_laplacian, m)
            if ok1 and ok2 and sp.issparse(L1) and sp.issparse(L2) and L1.shape == L2.shape:
                ctx.check(relclose(L1.toarray(), L2.toarray()), "laplacian[uniform]:closed=graph", "on a closed surface laplacian(cotan=False) != graph_laplacian")

    def g_dual():
        # reference cot sums per edge (only |.| is compared)
        cs = np.zeros(nE)
        for f in F:
            for j in range(3):
                o, a, b = f[j], f[(j + 1) % 3], f[(j + 2) % 3]
                u, w = Vn[a] - Vn[o], Vn[b] - Vn[o]
                cs[eid[key(a, b)]] += float(np.dot(u, w) / np.linalg.norm(np.cross(u, w)))
        big = np.abs(cs) > 1e-6
        for inv in (True, False):
            sig = f"cotan_edge_diagonal[inverse={inv}]"
            ok, Dm = invoke(ctx, sig, M.operators.cotan_edge_diagonal, m, [("inverse", inv, True)])
            if not ok:
                continue
            D = todense(ctx, sig, Dm, (nE, nE), "cotan_edge_diagonal")
            if D is None:
                continue
            d = np.diag(D)
            ctx.check(np.count_nonzero(D - np.diag(d)) == 0, sig + ":diagonal", "cotan_edge_diagonal has off-diagonal entries")
            exp = np.abs(cs[big]) if not inv else 1 / np.abs(cs[big])
            ctx.check(relclose(np.abs(d[big]), exp, 1e-8), sig + ":values",
                      f"|M[e,e]| != {'1/' if inv else ''}|cot a_e + cot b_e| " + worst(np.abs(d[big]), exp))
        # dual-graph laplacian on triangles
        dual = np.zeros((nF, nF))
        for (a, b) in ref.uedges:
            f1, f2 = ref.direct_face(a, b), ref.direct_face(b, a)
            if f1 is not None and f2 is not None:
                dual[f1, f2] -= 1; dual[f2, f1] -= 1; dual[f1, f1] += 1; dual[f2, f2] += 1
        for cot in (True, False):
            sig = f"laplacian_triangles[cotan={cot}]"
            ok, Lt = invoke(ctx, sig, M.operators.laplacian_triangles, m, [("cotan", cot, True), ("connection", None, None), ("order", 4, 4)])
            if not ok:
                continue
            D = todense(ctx, sig, Lt, (nF, nF), "laplacian_triangles")
            if D is None:
                continue
            check_sym_rowsum(ctx, sig, D, f"laplacian_triangles(cotan={cot})")
            ctx.check(not np.any((np.abs(D) > 0) & (dual == 0)), sig + ":pattern", "laplacian_triangles couples faces that share no edge")
            if not cot:
                ctx.check(relclose(D, dual), sig + ":values", "uniform laplacian_triangles != Laplacian of the face adjacency graph " + worst(D, dual))
        if not isolated:
            for cot in (True, False):
                sig = f"laplacian_edges[cotan={cot}]"
                ok, Le = invoke(ctx, sig, M.operators.laplacian_edges, m, [("cotan", cot, True), ("connection", None, None), ("order", 4, 4)])
                if not ok:
                    continue
                D = todense(ctx, sig, Le, (nE, nE), "laplacian_edges")
                if D is None:
                    continue
                check_sym_rowsum(ctx, sig, D, f"laplacian_edges(cotan={cot})")

    groups = [("laplacian", g_laplacian), ("gradient", g_gradient), ("mass", g_mass), ("graph", g_graph)]
    if not edges_off:
        groups.append(("dual", g_dual))
    random.Random(case["group_seed"]).shuffle(groups)
    ctx.label("first-group=" + groups[0][0])
    for gname, g in groups:
        g()
        ctx.check(snapshot(m, "surface") == snap0, "arguments:mesh-modified", f"operator group '{gname}' changed the vertices / edges / faces of the mesh it was given")

    # ---------------------------------------------------------------- connection Laplacian on vertices (own fresh mesh)
    def g_vconn():
        m2 = build_surface(V, F, int_mode, face_form)
        try:
            vc = M.processing.SurfaceConnectionVertices(m2)
        except Exception as e:       # building the vertex connection is not part of this property
            ctx.discard("SurfaceConnectionVertices raised " + type(e).__name__)
            return
        ctx.label("vertex-connection")
        order = int(case["order"])
        sig = f"laplacian[connection,order={order}]"
        ok, Lc = invoke(ctx, sig, M.operators.laplacian, m2, [("cotan", True, True), ("connection", vc, None), ("order", order, 4)])
        if ok:
            D = todense(ctx, sig, Lc, (nV, nV), "laplacian(connection=...)")
            if D is not None:
                check_sym_rowsum(ctx, sig, D, "connection Laplacian", hermitian=True)
                ctx.check(relclose(np.abs(D), np.abs(K), 1e-8), sig + ":modulus", "|connection Laplacian| != |cotan Laplacian| entrywise " + worst(np.abs(D), np.abs(K)))
                ctx.check(relclose(np.diag(D), np.diag(K).astype(complex), 1e-8), sig + ":diagonal", "diagonal of the connection Laplacian != diagonal of the cotan Laplacian")
        sig = f"laplacian[uniform,connection,order={order}]"
        ok, Lc = invoke(ctx, sig, M.operators.laplacian, m2, [("cotan", False, True), ("connection", vc, None), ("order", order, 4)])
        if ok:
            D = todense(ctx, sig, Lc, (nV, nV), "laplacian(cotan=False, connection=...)")
            if D is not None:
                U = np.zeros((nV, nV))
                for f in F:
                    for i in range(3):
                        a, b = f[i], f[(i + 1) % 3]
                        U[a, b] += 0.5; U[b, a] += 0.5; U[a, a] += 0.5; U[b, b] += 0.5
                check_sym_rowsum(ctx, sig, D, "uniform connection Laplacian", hermitian=True)
                ctx.check(relclose(np.abs(D), U, 1e-8), sig + ":modulus", "|uniform connection Laplacian| != (#incident faces)/2 entrywise " + worst(np.abs(D), U))

    if case.get("vconn") and not isolated and not edges_off:
        g_vconn()

    # ---------------------------------------------------------------- second pass on the SAME mesh object: by now every matrix the
    # first pass returned has been overwritten in place and (with vconn) another mesh object has been built and used
    if case.get("second_pass"):
        ctx.label("second-pass")
        ctx = SecondPass(ctx)
        set_case_style(case, ctx, shift=1 + case["group_seed"] % 4)
        state.clear()
        groups2 = list(groups)
        random.Random(case["group_seed"] + 1).shuffle(groups2)
        for gname, g in groups2:
            g()
            ctx.check(snapshot(m, "surface") == snap0, "arguments:mesh-modified", f"operator group '{gname}' changed the vertices / edges / faces of the mesh it was given")


# ============================================================================================ tetrahedral meshes

@st.composite
def tet_case(draw):
    t = draw(GT.tets(max_cells=60))
    V = t["V"]
    scale = draw(st.sampled_from(SCALES))
    tags = list(t["tags"])
    if scale != 1.0:
        V = [[x * scale for x in v] for v in V]
    tags.append(scale_label(scale))
    far = draw(st.sampled_from([0, 0, 0, 0, 1e3, 1e4, 1e5, 1e6]))
    if far:
        A_ = np.array(V, dtype=float)
        h = float(np.mean([np.linalg.norm(A_[c[i]] - A_[c[j]]) for c in t["C"] for i in range(4) for j in range(i)]))
        d = np.array(draw(st.sampled_from([[1.0, -0.66, 0.41], [-0.31, 1.0, 0.83], [0.55, 0.47, -1.0], [1.0, 1.0, 1.0]])))
        V = (A_ + far * h * d).tolist()
        tags.append("far-from-origin")
    int_mode = draw(st.sampled_from(["numpy", "python"])) if all_integral(V) else None
    return {"V": V, "C": t["C"], "tags": tags, "int_mode": int_mode, "wseed": draw(st.integers(0, 10 ** 6)), "fmt": draw(st.sampled_from(FORMATS)),
            "cell_form": draw(st.sampled_from(FACE_FORMS)), "dup_warning": draw(st.booleans()), "narrow": draw(st.sampled_from([None, None, "float32", "uint8"])),
            "wzero": draw(st.sampled_from(WZERO)), "style": draw(st.sampled_from(CALL_STYLES)),
            "pre_sparse": draw(st.booleans()),
            "pre": draw(st.booleans()), "second_pass": draw(st.sampled_from([True, False, False])), "group_seed": draw(st.integers(0, 10 ** 6))}


def fn_volume(case, ctx):
    import mouette as M
    V, C = case["V"], [list(c) for c in case["C"]]
    Vn = np.array(V, dtype=float).reshape(-1, 3)
    nV, nC = len(V), len(C)
    ref = TetRef(nV, C)
    if ref.validate() is not None:
        raise AssertionError("invalid generated tet mesh")
    for t in case.get("tags", []):
        ctx.label(t)
    has_interior_face = any(len(cs) == 2 for cs in ref.f2c.values())
    ctx.nontrivial(nC >= 2 and has_interior_face)
    # |det|/6 is accurate to ~1e-15 even on slivers (generated Delaunay cells may be thin); the Gram-matrix measure of ref_fem squares
    # the condition number, so it only serves as a loose cross-check here
    vols = R.tet_volumes_det(Vn, C)
    assert relclose(vols, R.measures(Vn, C), 1e-6), "reference volume self-check"
    total = float(vols.sum())

    int_mode = case.get("int_mode")
    if int_mode and not all_integral(V):
        raise AssertionError("integer coordinates requested for non-integral vertices")
    ctx.label("coords=int-" + int_mode if int_mode else "coords=float")
    if set_case_tolerance(Vn, sorted(ref.ekeys)) > TOL:
        ctx.label("tolerance-relaxed(far)")
    M.config.display_duplicate_attribute_warning = bool(case.get("dup_warning", False))      # restored by the runner
    ctx.label("config:dup-warning=" + str(bool(case.get("dup_warning", False))))
    set_case_style(case, ctx)
    cell_form = case.get("cell_form", "list")
    ctx.label("cells-as=" + cell_form)
    m = build_volume(V, C, int_mode, cell_form)
    if case["pre"]:
        sparse = bool(case.get("pre_sparse"))
        ok, _ = ctx.call("cell_volume", M.attributes.cell_volume, m, dense=not sparse)
        if not ok:
            return
        ctx.label("volume-cached-sparse" if sparse else "volume-cached")
    medges, ok = lib_edges(ctx, m, ref.ekeys, "volume mesh")
    if not ok:
        return

    def g_vlap():
        ok, L = invoke(ctx, "volume_laplacian", M.operators.volume_laplacian, m)
        if not ok:
            return
        D = todense(ctx, "volume_laplacian", L, (nV, nV), "volume_laplacian")
        if D is None:
            return
        check_sym_rowsum(ctx, "volume_laplacian", D, "volume_laplacian")
        pat = graph_reference(nV, medges) + np.eye(nV)
        ctx.check(not np.any((np.abs(D) > 0) & (pat == 0)), "volume_laplacian:pattern", "volume_laplacian couples vertices that share no edge")
        # the docstring's reference [2] (n-D cotan formula) IS the P1 stiffness matrix.  The code takes |cot| of every dihedral angle,
        # so equality is only asserted where that is harmless: all dihedral angles <= 90 degrees.
        nonobtuse = True
        for c in C:
            g, _ = R.simplex_grads(Vn[list(c)])
            nrm = np.linalg.norm(g, axis=1)
            cosm = (g @ g.T) / np.outer(nrm, nrm)
            np.fill_diagonal(cosm, -1.0)
            if np.max(cosm) > 1e-9:
                nonobtuse = False
                break
        if nonobtuse:
            ctx.label("all-dihedral<=90")
            Kt = R.stiffness(Vn, C)
            ctx.check(relclose(D, Kt, 1e-8), "volume_laplacian:stiffness-nonobtuse",
                      "all dihedral angles <= 90 deg but volume_laplacian != P1 stiffness matrix (n-D cotan formula) " + worst(D, Kt))

    def g_tlap():
        ok, L = invoke(ctx, "laplacian_tetrahedra", M.operators.laplacian_tetrahedra, m)
        if not ok:
            return
        D = todense(ctx, "laplacian_tetrahedra", L, (nC, nC), "laplacian_tetrahedra")
        if D is None:
            return
        check_sym_rowsum(ctx, "laplacian_tetrahedra", D, "laplacian_tetrahedra")
        exp = np.zeros((nC, nC))
        for cs in ref.f2c.values():
            if len(cs) == 2:
                a, b = cs
                exp[a, b] -= 1; exp[b, a] -= 1; exp[a, a] += 1; exp[b, b] += 1
        ctx.check(relclose(D, exp), "laplacian_tetrahedra:values", "laplacian_tetrahedra != Laplacian of the cell adjacency graph " + worst(D, exp))

    def g_mass():
        pv = np.zeros(nV)
        for i, c in enumerate(C):
            for v in c:
                pv[v] += vols[i]
        check_mass(ctx, M, "mass_volume_vertices", M.operators.volume_weight_matrix, m, nV, pv, 4, total, True, True, case["fmt"], "volume_weight_matrix")
        check_mass(ctx, M, "mass_volume_cells", M.operators.volume_weight_matrix_cells, m, nC, vols, 1, total, True, True, case["fmt"], "volume_weight_matrix_cells")

    def g_graph():
        graph_ops(ctx, M, m, nV, medges, Vn, case["wseed"], prefix="vol:", narrow=case.get("narrow"), zeros=case.get("wzero"))

    groups = [("vlap", g_vlap), ("tlap", g_tlap), ("mass", g_mass), ("graph", g_graph)]
    random.Random(case["group_seed"]).shuffle(groups)
    ctx.label("first-group=" + groups[0][0])
    snap0 = snapshot(m, "volume")
    for gname, g in groups:
        g()
        ctx.check(snapshot(m, "volume") == snap0, "arguments:mesh-modified", f"operator group '{gname}' changed the vertices / edges / cells of the mesh it was given")
    if case.get("second_pass"):
        ctx.label("second-pass")
        ctx = SecondPass(ctx)
        set_case_style(case, ctx, shift=1 + case["group_seed"] % 4)
        groups2 = list(groups)
        random.Random(case["group_seed"] + 1).shuffle(groups2)
        for gname, g in groups2:
            g()
            ctx.check(snapshot(m, "volume") == snap0, "arguments:mesh-modified", f"operator group '{gname}' changed the vertices / edges / cells of the mesh it was given")


# ============================================================================================ graphs: polylines and polygon surfaces

@st.composite
def graph_case(draw):
    kind = draw(st.sampled_from(["path", "cycle", "tree", "graph", "graph", "graph", "union", "union", "empty"]))

    def one(n, kind):
        if kind == "path":
            return [(i, i + 1) for i in range(n - 1)]
        if kind == "cycle" and n >= 3:
            return [(i, (i + 1) % n) for i in range(n)]
        if kind == "tree":
            return [(draw(st.integers(0, i - 1)), i) for i in range(1, n)]
        if kind == "graph":
            pairs = [(i, j) for i in range(n) for j in range(i)]
            return draw(st.lists(st.sampled_from(pairs), unique=True, min_size=min(2, len(pairs)), max_size=24)) if pairs else []
        return []
    n = draw(st.sampled_from([1, 2, 3, 4, 5, 6, 7, 8, 9, 10, 11, 12, 13, 14]))
    if kind == "union":
        n2 = draw(st.sampled_from([1, 2, 3, 4, 5, 6, 7, 8]))
        E = one(n, draw(st.sampled_from(["path", "cycle", "tree", "graph"])))
        E += [(a + n, b + n) for a, b in one(n2, draw(st.sampled_from(["path", "cycle", "tree", "graph"])))]
        n += n2
    else:
        E = one(n, kind)
    E = [[int(a), int(b)] if draw(st.booleans()) else [int(b), int(a)] for a, b in E]
    perm = draw(st.permutations(range(n)))
    E = [[perm[a], perm[b]] for a, b in E]
    rnd = np.random.RandomState(draw(st.integers(0, 10 ** 6)))
    V = (rnd.randint(-40, 41, size=(n, 3)) / 8.0 + np.arange(n)[:, None] * np.array([[0.01, 0.003, 0.0007]])).tolist()
    return {"V": V, "E": E, "kind": kind, "wseed": draw(st.integers(0, 10 ** 6)), "wzero": draw(st.sampled_from(WZERO)), "style": draw(st.sampled_from(CALL_STYLES))}


def fn_graph(case, ctx):
    import mouette as M
    V, E = case["V"], [tuple(e) for e in case["E"]]
    Vn = np.array(V, dtype=float).reshape(-1, 3)
    nV = len(V)
    ctx.label("kind=" + case["kind"])
    deg = [0] * nV
    for a, b in E:
        deg[a] += 1; deg[b] += 1
    if any(d == 0 for d in deg):
        ctx.label("isolated-vertex")
    if not E:
        ctx.label("no-edge")
    ctx.nontrivial(len(E) >= 2)
    CUR["tol"] = TOL
    set_case_style(case, ctx)
    m = polyline_from(V, E)
    medges, ok = lib_edges(ctx, m, set(key(e) for e in E), "polyline")
    if not ok:
        return
    graph_ops(ctx, M, m, nV, medges, Vn, case["wseed"], prefix="polyline:", narrow=[None, "float32", "uint8"][case["wseed"] % 3], zeros=case.get("wzero"))


@st.composite
def polygon_case(draw):
    s = draw(G.surfaces(max_faces=50, keep_isolated=draw(st.integers(0, 7)) == 0))
    return {"V": s["V"], "F": s["F"], "tags": s["tags"], "wseed": draw(st.integers(0, 10 ** 6)), "wzero": draw(st.sampled_from(WZERO)), "style": draw(st.sampled_from(CALL_STYLES))}


def fn_polygon(case, ctx):
    import mouette as M
    V, F = case["V"], [list(f) for f in case["F"]]
    Vn = np.array(V, dtype=float).reshape(-1, 3)
    nV = len(V)
    ref = SurfRef(nV, F)
    if ref.validate() is not None:
        raise AssertionError("invalid generated surface")
    for t in case.get("tags", []):
        if not t.startswith("op="):
            ctx.label(t)
    ctx.nontrivial(len(ref.uedges) >= 2 and len(set(len(f) for f in F)) >= 1 and len(F) >= 2)
    CUR["tol"] = TOL
    set_case_style(case, ctx)
    m = surface_from(V, F)
    medges, ok = lib_edges(ctx, m, ref.uedges, "polygon surface")
    if not ok:
        return
    graph_ops(ctx, M, m, nV, medges, Vn, case["wseed"], prefix="polygon:", zeros=case.get("wzero"))
    vertex_face_op(ctx, M, m, nV, F, prefix="polygon:")


def self_test():
    R.self_test()
    # helpers
    A = sp.coo_matrix((np.array([1.0, 1.0]), (np.array([0, 0]), np.array([1, 1]))), shape=(2, 2))
    assert len(stored_entries(A)) == 2          # duplicates are visible
    assert relclose(np.array([1.0, 2.0]), np.array([1.0, 2.0 + 1e-12])) and not relclose(np.array([1.0, 2.0]), np.array([1.0, 2.001]))
    V, F = midpoint_subdivide([[0, 0, 0], [1, 0, 0], [0, 1, 0]], [[0, 1, 2]])
    assert len(V) == 6 and len(F) == 4 and abs(R.measures(V, F).sum() - 0.5) < 1e-15 and SurfRef(6, F).validate() is None


SUBCHECKS = [
    SubCheck("surface_operators", tri_case(), fn_surface, quick=2400, thorough=4000),
    SubCheck("volume_operators", tet_case(), fn_volume, quick=1200, thorough=2500),
    SubCheck("graph_operators", graph_case(), fn_graph, quick=2400, thorough=5000),
    SubCheck("polygon_graph_operators", polygon_case(), fn_polygon, quick=1200, thorough=2500),
]

MATCHERS = {}
