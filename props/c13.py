"""C13 - subdivision refines a mesh without changing its shape or topology.

Every generated case is an *editing block*: a mesh (polyline / surface / tetrahedral mesh), a flag "connectivity was
queried before editing", and a generated sequence of 1-4 operations whose integer arguments are reduced modulo what
exists when the operation is issued (and written in one of the admitted forms: from the front or Python-style from the end,
positional or by keyword, plain or numpy integer; number of rounds 0, >= 1 or left to its default).  The state of the
editor is observed (read-only) after every operation and compared with a reference refinement computed by the harness from the state observed before the operation; where the
documentation leaves a choice (which diagonal of a quad, how a polygon is triangulated) a validity predicate is used,
never one expected answer.  Compound operations (loop_subdivision(n>1), operations that "triangulate first",
subdivide_triangles_6) are compared with their documented decomposition executed step by step on fresh meshes.
After the block: validator, topological invariants, area / volume, original vertices, full reference-connectivity sweep
on the result object, and the state of the object that was passed in.
"""
import random
import numpy as np
from hypothesis import strategies as st
from vlib.runner import SubCheck
from vlib import gen_surface as G
from vlib import gen_tets as GT
from vlib.topo import SurfRef, TetRef, key
from vlib.build import surface_from, volume_from, polyline_from, ints
from props import c01 as P1
from props import c03 as P3

PROPERTY = "C13"
RULE = ("Editing blocks: generated mesh (surfaces: 15 base shapes x face deletions/merges/splits, tri/quad/mixed/polygon, closed or "
        "bordered, relabelled; tet meshes: fans, Kuhn grids, Delaunay, 1-4 splits, all orientation parities; polylines: paths, "
        "cycles, trees, graphs; coordinates uniformly scaled by 1e-6..1e6 or integer-typed) x connectivity queried beforehand: "
        "nothing / 1-4 single queries (half of the time all of the kind that fills one particular lazily built table) / everything "
        "x a generated sequence of 1-4 operations with arguments reduced modulo what exists x optionally a second editing block on "
        "the same object (the result or the object passed in) after a full sweep, a few single queries or no query; polylines are "
        "queried (nothing / single kinds / everything) between consecutive splits as well. Per case also drawn: python type of the "
        "face / cell records (lists, tuples, numpy rows of int64/32/16/uint8, mouette.mesh.from_arrays), element ids as numpy integer "
        "scalars, config.display_duplicate_attribute_warning, config.complete_edges_from_faces (surfaces; off = explicit edge list), "
        "placement far from the origin (1e3 / 1e6 x size) or anisotropic scaling, and in ~1/8 of the blocks an exception (out-of-range "
        "element id or an error of the caller) that leaves the block after 0-4 operations and is caught; unusual element roles "
        "(a two-face 'pillow' component - two triangles or quads on the same vertices - alone or next to the mesh, with the histories "
        "whose result an end-point-keyed edge model can still store; unused vertices as first / middle / last id, also in tet meshes); "
        "0-2 decoy meshes of the same size built, edited, dropped and garbage-collected before the case. Argument forms, drawn per "
        "operation: element ids (surface face / cell / polyline edge; not the derived faces of a tet mesh) written from the end, id - count "
        "in [-count,-1] (1/3 of those operations; plain or numpy scalar), ids and round counts passed by their documented keyword (face_id, cell_id, edge_ind, n, repeat), number of rounds "
        "of loop_subdivision / subdivide_triangles_6 = 0 (3/8 of those operations: the state must stay as it is or, on a mesh with "
        "non-triangular faces, undergo exactly the announced preliminary triangulation) or omitted (documented default 1); the `verbose` "
        "flag of the editors and the mesh of split_double_boundary_edges_triangles positional or by keyword; polyline edge ids also as "
        "numpy scalars. A call with a negative id or zero rounds may alternatively be rejected: its exception then leaves the block like "
        "any other and the object passed in is judged as after an exception (polylines: must be what it was). Sub-check size_thresholds: "
        "triangulated grids whose vertex / face count stays below 2**8 or 2**16 before a refinement round and reaches, passes or misses "
        "it by one during the round - mostly a small grid padded with unused vertices (front / middle / back), 1 case in 12 a real "
        "grid of 8000-16600 vertices. The editor state is observed after every "
        "operation and compared with a harness-side refinement of the previously observed state; after each block the result and the "
        "object passed in are validated and swept with the C01/C03 reference-connectivity battery. non-trivial = the mesh has a "
        "non-triangular face or a border (surfaces) / an interior face (volumes) / >=2 edges (polylines), or >=2 operations or a second "
        "block; distinct = distinct (mesh, pre-query list, operation lists).")
ASSUMPTIONS = ["inputs are oriented manifold surfaces / conforming tetrahedral meshes / simple graphs as produced by vlib generators",
               "area is compared only when every non-triangular input face is planar and convex (otherwise 'area' depends on the triangulation)",
               "new vertices are identified by position; cases in which two expected new vertices coincide (1e-6 rel.) skip the face-by-face comparison",
               "which diagonal splits a quad and how an n-gon (n>=5) is triangulated is left open (validity predicate)",
               "faces / cells not touched by a single-element operation keep their index (in-repo callers rely on it)",
               "position tolerance = 1e-9 x size of the mesh + 1e-13 x largest coordinate magnitude; area / volume 1e-9 + 256 eps x magnitude/size",
               "after an exception escaped from an editing block the object passed in must be its former self or a consistent mesh on the "
               "data processed before the exception (what the unchanged library does: the block still rebuilds it); editor.mesh is not looked at",
               "config.complete_faces_from_cells / complete_edges_from_faces = False are not drawn for tetrahedral meshes (outside the "
               "quantifier of C13; the unchanged library relies on the completion there)",
               "negative element ids in [-count,-1] denote element id+count of the state in which the operation is issued (what Python "
               "containers and the unchanged library do) and zero is a legitimate number of refinement rounds; since the docstrings say "
               "neither explicitly, a call with such an argument may also raise - never asserted: which of the two. Element ids "
               "are never below -count and never >= count (except in the 'bad-index' exception case); negative round counts are not drawn; "
               "face ids of split_tet_from_face_center are never written from the end (NEG_VOLUME_FACE_IDS: the tail of the face list "
               "of a volume editor is left open by this check, see the constant)",
               "meshes with a pillow component: 1-to-4 refinement and any triangulation after a 1-to-3-quads refinement are not issued "
               "(the refined pillow has two edges between the same two vertices, which the library's end-point-keyed edges cannot store); "
               "the validator then accepts two faces on the same vertex set, everything else unchanged"]

MAX_FACES = 450        # operations whose result would exceed this many faces are skipped (counted as label)
SWEEP_CAP = 80         # per query kind, at most this many elements are swept on large results


# =============================================================================================== helpers

class Pfx:
    """ctx proxy that prefixes every signature (so that oracles on the *input object* are distinguishable)"""

    def __init__(self, ctx, prefix):
        self._c = ctx
        self._p = prefix
        self._dead = False

    def _sig(self, signature):
        # answers of single query kinds ("q:<kind>[:order]") on the input object are one symptom: "input:connectivity"
        if self._p == "input:" and signature.startswith("q:"):
            return "input:connectivity"
        return self._p + signature

    # once an oracle on the input object has failed (only possible to continue under an open known finding) the
    # remaining oracles under the same prefix are skipped: one excluded event per case, not one per query
    def check(self, cond, signature, message="", **detail):
        if self._dead:
            return True
        ok = self._c.check(cond, self._sig(signature), message, **detail)
        if not ok and self._p == "input:":
            self._dead = True
        return ok

    def fail(self, signature, message, **detail):
        return self.check(False, signature, message, **detail)

    def call(self, signature, f, *a, **kw):
        if self._dead:
            return False, None
        try:
            return True, f(*a, **kw)
        except Exception as e:
            from vlib.runner import Violation, HarnessError, innermost_mouette_frame
            if isinstance(e, (Violation, HarnessError)):
                raise
            where = innermost_mouette_frame(e.__traceback__)
            sig = signature if self._sig(signature) == "input:connectivity" else signature + ":raises"
            self.check(False, sig, f"{signature}: {type(e).__name__}: {e} (at {where})", exc=type(e).__name__)
            return False, None

    def label(self, *a):
        return self._c.label(*a)

    def nontrivial(self, flag=True):
        return self._c.nontrivial(flag)

    def discard(self, reason):
        return self._c.discard(reason)


def has_twin_faces(F):
    """two faces on the same vertex set (a two-face 'pillow' / dihedron component: a legitimate closed manifold, although the
    library's face_id key cannot tell the two apart)"""
    ks = [key(f) for f in F]
    return len(set(ks)) != len(ks)


def surf_error(nV, F, allow_twins=False):
    """SurfRef.validate(); with allow_twins the 'pairwise distinct vertex sets' requirement is dropped (everything else -
    distinct vertices per face, every half-edge once, every vertex link one cycle or path - still holds for a pillow)"""
    ref = SurfRef(nV, F)
    if not allow_twins or not has_twin_faces(ref.F):
        return ref.validate()
    seen = set()
    for iF, f in enumerate(ref.F):
        if len(f) < 3 or len(set(f)) != len(f) or any(v < 0 or v >= nV for v in f):
            return f"face {iF} malformed"
        for i in range(len(f)):
            h = (f[i], f[(i + 1) % len(f)])
            if h in seen:
                return f"half-edge {h} twice"
            seen.add(h)
    for v in range(nV):
        if v in ref.v2f and ref.ring(v) is None:
            return f"vertex {v} link is not a single path/cycle"
    return None


def canon(f):
    f = [int(x) for x in f]
    i = f.index(min(f))
    return tuple(f[i:] + f[:i])


def read_vertices(cont):
    """(n,3) float array or None if some entry is not a 3-vector of finite numbers"""
    try:        # fast path: a regular (n,3) block of numbers
        A = np.array(list(cont), dtype=float)
        if A.ndim == 2 and A.shape[1] == 3 and np.all(np.isfinite(A)):
            return A
    except Exception:
        pass
    out = []
    try:
        for v in cont:
            p = [float(x) for x in v]
            if len(p) != 3:
                return None
            out.append(p)
    except Exception:
        return None
    A = np.array(out, dtype=float).reshape(-1, 3)
    if not np.all(np.isfinite(A)):
        return None
    return A


def read_index_lists(cont):
    try:
        return [[int(x) for x in e] for e in cont]
    except Exception:
        return None


def scale_of(V):
    """largest coordinate magnitude (all tolerances are relative to it; 1.0 for an all-zero or empty set)"""
    s = float(np.max(np.abs(V))) if len(V) else 0.0
    return s if s > 0 else 1.0


def extent_of(V):
    """size of the point set (largest side of its bounding box; 1.0 for a single point / empty set)"""
    if not len(V):
        return 1.0
    e = float(np.max(np.max(V, axis=0) - np.min(V, axis=0)))
    return e if e > 0 else 1.0


def pos_tol(V):
    """tolerance on a computed position: 1e-9 of the size of the mesh + rounding of coordinates far from the origin"""
    return 1e-9 * extent_of(V) + 1e-13 * scale_of(V)


def rel_tol(V):
    """relative tolerance on an area / volume: 1e-9 + cancellation when the mesh is far from the origin compared with its size"""
    return 1e-9 + 256 * 2.3e-16 * scale_of(V) / extent_of(V)


def match_new(Pa, Pe, Vall):
    """index list p with Pa[i] ~ Pe[p[i]] (bijection within pos_tol), None if there is none, 'ambiguous' if two expected
    points are closer than 1e-6 of the size of the mesh Vall"""
    from scipy.spatial import cKDTree
    scale = extent_of(Vall)
    tol = pos_tol(Vall)
    if len(Pa) != len(Pe):
        return None
    if len(Pa) == 0:
        return []
    t = cKDTree(Pe)
    if len(Pe) > 1:
        d, _ = t.query(Pe, k=2)
        if float(np.min(d[:, 1])) < 1e-6 * scale:
            return "ambiguous"
    d, idx = t.query(Pa, k=1)
    if float(np.max(d)) > tol or len(set(int(i) for i in idx)) != len(idx):
        return None
    return [int(i) for i in idx]


# ----------------------------------------------------------------------------------------------- geometry

def newell(P):
    P = P - P.mean(axis=0)          # vector area is translation invariant; centring keeps it accurate far from the origin
    n = np.zeros(3)
    for i in range(len(P)):
        n += np.cross(P[i], P[(i + 1) % len(P)])
    return 0.5 * n


def total_area(V, F):
    tri = [f for f in F if len(f) == 3]
    a = 0.0
    if tri:
        T = V[np.array(tri, dtype=np.int64)]
        a += float(np.sum(np.linalg.norm(np.cross(T[:, 1] - T[:, 0], T[:, 2] - T[:, 0]), axis=1))) / 2
    return a + float(sum(np.linalg.norm(newell(V[list(f)])) for f in F if len(f) != 3))


def is_flat(V, F):
    """every face with >=4 vertices is planar and (weakly) convex"""
    s = extent_of(V)
    for f in F:
        if len(f) < 4:
            continue
        P = V[list(f)]
        nv = newell(P)
        ln = np.linalg.norm(nv)
        if ln < 1e-9 * s * s:
            return False
        nh = nv / ln
        c = P.mean(axis=0)
        if np.max(np.abs((P - c) @ nh)) > 1e-12 * s:
            return False
        n = len(P)
        for i in range(n):
            cr = np.cross(P[(i + 1) % n] - P[i], P[(i + 2) % n] - P[(i + 1) % n])
            if float(cr @ nh) < -1e-12 * s * s:
                return False
    return True


def tet_det(V, c):
    A, B, C, D = (V[int(v)] for v in c)
    return float(np.linalg.det(np.array([A - D, B - D, C - D])))


# =============================================================================================== surface states

class SState:
    """what can be read from a SurfaceMesh or from the RawMeshData inside an editing block"""

    def __init__(self, V, F, E, corners):
        self.V, self.F, self.E, self.corners = V, F, E, corners

    @property
    def all_tri(self):
        return all(len(f) == 3 for f in self.F)


def observe_surface(m, ctx, where):
    V = read_vertices(m.vertices)
    F = read_index_lists(m.faces)
    E = read_index_lists(m.edges)
    if not ctx.check(V is not None and F is not None and E is not None, "state:unreadable",
                     f"{where}: vertices are not finite 3-vectors or faces/edges are not integer lists"):
        return None
    try:
        corners = (list(map(int, m.face_corners._elem)), list(map(int, m.face_corners._adj)))
    except Exception:
        corners = None
    return SState(V, F, [tuple(e) for e in E], corners)


def same_state(a, b, with_corners=True):
    """list of container names that differ"""
    diff = []
    if a.V.shape != b.V.shape or a.V.tobytes() != b.V.tobytes():
        diff.append("vertices")
    if a.F != b.F:
        diff.append("faces")
    if a.E != b.E:
        diff.append("edges")
    if with_corners and a.corners != b.corners:
        diff.append("face_corners")
    return diff


# ----------------------------------------------------------------------------------------------- reference refinements

def model_loop(V, F):
    """1-to-4 midpoint refinement of a triangle list (new vertices appended in sorted-edge order)"""
    E = sorted(set(key(f[i], f[(i + 1) % 3]) for f in F for i in range(3)))
    mid = {e: len(V) + i for i, e in enumerate(E)}
    V2 = np.vstack([V] + [((V[a] + V[b]) / 2)[None, :] for a, b in E]) if E else V.copy()
    F2 = []
    for A, B, C in F:
        ab, bc, ca = mid[key(A, B)], mid[key(B, C)], mid[key(C, A)]
        F2 += [[ab, bc, ca], [A, ab, ca], [B, bc, ab], [C, ca, bc]]
    return V2, F2


def model_quads3(V, F):
    E = sorted(set(key(f[i], f[(i + 1) % 3]) for f in F for i in range(3)))
    mid = {e: len(V) + i for i, e in enumerate(E)}
    pts = [((V[a] + V[b]) / 2) for a, b in E]
    nb = len(V) + len(E)
    F2 = []
    for k, (A, B, C) in enumerate(F):
        pts.append((V[A] + V[B] + V[C]) / 3)
        S = nb + k
        ab, bc, ca = mid[key(A, B)], mid[key(B, C)], mid[key(C, A)]
        F2 += [[A, ab, S, ca], [B, bc, S, ab], [C, ca, S, bc]]
    V2 = np.vstack([V] + [p[None, :] for p in pts]) if pts else V.copy()
    return V2, F2


def compare_refinement(ctx, S1, Ve, Fe, nOld, what):
    """S1 (observed) equals (Ve,Fe) up to the numbering of the vertices >= nOld, face order and face rotation"""
    if not ctx.check(len(S1.V) == len(Ve), "count:vertices", f"{what}: {len(S1.V)} vertices, documented refinement gives {len(Ve)}"):
        return False
    if not ctx.check(len(S1.F) == len(Fe), "count:faces", f"{what}: {len(S1.F)} faces, documented refinement gives {len(Fe)}"):
        return False
    if not ctx.check(S1.V[:nOld].tobytes() == Ve[:nOld].tobytes(), "old-vertices", f"{what}: one of the first {nOld} vertices moved or was renumbered"):
        return False
    p = match_new(S1.V[nOld:], Ve[nOld:], Ve)
    if p == "ambiguous":
        ctx.discard("coincident expected new vertices")
        return True
    if not ctx.check(p is not None, "new-vertices",
                     f"{what}: the new vertices are not (as a multiset, 1e-9 rel.) the centres of the refined edges/faces; "
                     f"got {S1.V[nOld:][:4].tolist()}.. expected {Ve[nOld:][:4].tolist()}.."):
        return False
    mp = list(range(nOld)) + [nOld + q for q in p]
    bad = [f for f in S1.F if any(v < 0 or v >= len(mp) for v in f) or len(set(f)) != len(f)]
    if not ctx.check(not bad, "faces", f"{what}: faces with out-of-range or repeated vertices: {bad[:3]}"):
        return False
    got = sorted(canon([mp[v] for v in f]) for f in S1.F)
    exp = sorted(canon(f) for f in Fe)
    return ctx.check(got == exp, "faces", f"{what}: faces are not the documented refinement (up to order/rotation); "
                                          f"first differing: {next(((g, e) for g, e in zip(got, exp) if g != e), None)}")


def fill_region(ref1, P, cap):
    """triangles of the (valid) surface ref1 that tile the polygon P: flood fill from side (P0,P1) without crossing a side of P.
    Returns (faces, error)"""
    n = len(P)
    sides = set((P[i], P[(i + 1) % n]) for i in range(n))
    o = ref1.he.get((P[0], P[1]))
    if o is None:
        return None, f"side {(P[0], P[1])} of the face is no longer a half-edge"
    seen = {o[0]}
    stack = [o[0]]
    met = set()
    while stack:
        t = stack.pop()
        fl = ref1.F[t]
        for i in range(len(fl)):
            h = (fl[i], fl[(i + 1) % len(fl)])
            if h in sides:
                met.add(h)
                continue
            o2 = ref1.he.get((h[1], h[0]))
            if o2 is None:
                return None, f"piece {fl} has a border side {h} that is not a side of the face"
            if o2[0] not in seen:
                seen.add(o2[0])
                stack.append(o2[0])
                if len(seen) > cap:
                    return None, "the pieces reachable from one side of the face do not stay inside the face"
    if met != sides:
        return None, f"sides {sorted(sides - met)} of the face are not sides of its pieces"
    return sorted(seen), None


def check_triangulation_step(ctx, S0, S1, fids, what):
    """S1 = S0 where every face in fids (>=4 vertices) is replaced by triangles: either n-2 triangles on its own
    vertices or n triangles around one new vertex at the mean of its vertices. Other faces keep index and content."""
    fids = set(fids)
    nV0, nF0 = len(S0.V), len(S0.F)
    if not ctx.check(len(S1.V) >= nV0 and S1.V[:nV0].tobytes() == S0.V.tobytes(), "old-vertices", f"{what}: an existing vertex moved or disappeared"):
        return False
    if not ctx.check(len(S1.F) >= nF0 and all(S1.F[i] == S0.F[i] for i in range(nF0) if i not in fids), "untouched-faces",
                     f"{what}: a face that is not being triangulated changed or moved"):
        return False
    ref1 = SurfRef(len(S1.V), S1.F)
    err = surf_error(len(S1.V), S1.F, has_twin_faces(S0.F))
    if not ctx.check(err is None, "step:valid", f"{what}: editor state is not a manifold surface: {err}"):
        return False
    s = pos_tol(S1.V) / 1e-9
    used_faces = set(i for i in range(nF0) if i not in fids)
    used_new = set()
    for fid in sorted(fids):
        P = S0.F[fid]
        n = len(P)
        faces, err = fill_region(ref1, P, n + 1)
        if not ctx.check(err is None, "triangulation", f"{what}: face {fid}={P}: {err}"):
            return False
        if not ctx.check(all(len(S1.F[t]) == 3 for t in faces), "triangulation", f"{what}: face {fid}={P} still has a non-triangular piece"):
            return False
        extra = set(v for t in faces for v in S1.F[t]) - set(P)
        if len(extra) == 0:
            good = len(faces) == n - 2
        elif len(extra) == 1:
            c = next(iter(extra))
            good = (len(faces) == n and c >= nV0 and c not in used_new
                    and float(np.linalg.norm(S1.V[c] - S0.V[P].mean(axis=0))) <= 1e-9 * s)
            used_new.add(c)
        else:
            good = False
        if not ctx.check(good, "triangulation", f"{what}: face {fid}={P} was replaced by {[S1.F[t] for t in faces]}: neither a diagonal "
                                                f"triangulation nor a fan around its centre {S0.V[P].mean(axis=0).tolist()}"):
            return False
        if not ctx.check(fid in faces, "untouched-faces", f"{what}: index {fid} of the triangulated face now holds a face outside it"):
            return False
        if not ctx.check(not (set(faces) & used_faces), "triangulation", f"{what}: pieces of face {fid} overlap another face"):
            return False
        used_faces |= set(faces)
    ok = ctx.check(len(used_faces) == len(S1.F), "count:faces", f"{what}: {len(S1.F) - len(used_faces)} faces belong to no input face")
    ok = ctx.check(len(S1.V) == nV0 + len(used_new), "count:vertices", f"{what}: {len(S1.V) - nV0} new vertices for {len(used_new)} centre fans") and ok
    return ok


def check_fan_step(ctx, S0, S1, fid, what):
    P = S0.F[fid]
    n = len(P)
    nV0, nF0 = len(S0.V), len(S0.F)
    if not ctx.check(len(S1.V) == nV0 + 1, "count:vertices", f"{what}: {len(S1.V)} vertices, expected {nV0 + 1}"):
        return False
    if not ctx.check(len(S1.F) == nF0 + n - 1, "count:faces", f"{what}: {len(S1.F)} faces, expected {nF0 + n - 1}"):
        return False
    if not ctx.check(S1.V[:nV0].tobytes() == S0.V.tobytes(), "old-vertices", f"{what}: an existing vertex moved"):
        return False
    c = S0.V[P].mean(axis=0)
    if not ctx.check(float(np.linalg.norm(S1.V[nV0] - c)) <= pos_tol(S0.V), "new-vertices",
                     f"{what}: new vertex {S1.V[nV0].tolist()} is not the centre {c.tolist()} of face {P}"):
        return False
    if not ctx.check(all(S1.F[i] == S0.F[i] for i in range(nF0) if i != fid), "untouched-faces", f"{what}: another face changed or moved"):
        return False
    got = sorted(canon(f) if len(set(f)) == len(f) else tuple(f) for f in [S1.F[fid]] + S1.F[nF0:])
    exp = sorted(canon([P[k], P[(k + 1) % n], nV0]) for k in range(n))
    return ctx.check(got == exp, "faces", f"{what}: face {P} became {got}, expected the fan {exp}")


SURF_OPS = ["triangulate", "triangulate_face", "fan", "loop", "quads3", "sub6"]


def decompose(name, n, all_tri):
    """documented decomposition of an operation into single steps (None = it is a single step itself)"""
    pre = [] if all_tri else ["triangulate"]
    if name == "loop":
        steps = pre + ["loop1"] * n
    elif name == "quads3":
        steps = pre + ["quads3"]
    elif name == "sub6":
        steps = pre + ["quads3", "triangulate"] * n
    else:
        return None
    return None if len(steps) == 1 else steps


def growth(name, n):
    return {"loop": 4 ** n, "quads3": 3, "sub6": 6 ** n}.get(name, 1)


def apply_surface_op(ed, name, arg, n, flags=()):
    """flags: how the argument is written (see ID_FORMS / COUNT_FORMS); arg is the id exactly as it is handed to the library"""
    if name == "triangulate":
        return ed.triangulate()
    if name == "triangulate_face":
        return call_with(ed.triangulate_face, name, arg, flags)
    if name == "fan":
        return call_with(ed.split_face_as_fan, name, arg, flags)
    if name in ("loop", "loop1"):
        return call_with(ed.loop_subdivision, name, n, flags)
    if name == "quads3":
        return ed.subdivide_triangles_3quads()
    if name == "sub6":
        return call_with(ed.subdivide_triangles_6, name, n, flags)
    raise AssertionError(name)


def check_zero_rounds(ctx, name, S0, S1, what):
    """loop_subdivision(0) / subdivide_triangles_6(0): no refinement round. Both docstrings announce a preliminary
    triangulation of a mesh that is not triangulated ("eventual first triangulation does not count"), so on such a mesh
    either nothing or exactly that triangulation may have happened; a triangle mesh stays as it is."""
    diff = [x for x in same_state(S0, S1, with_corners=False) if x != "edges"]
    if not diff:
        ctx.label("rounds=0:state-unchanged")
        return True
    if not ctx.check(not S0.all_tri, "noop", f"{what}: zero refinement rounds on a triangle mesh changed {diff}: {len(S1.V)} vertices / {len(S1.F)} faces, "
                                             f"were {len(S0.V)} / {len(S0.F)}"):
        return False
    ctx.label("rounds=0:triangulated")
    return check_triangulation_step(ctx, S0, S1, [i for i, f in enumerate(S0.F) if len(f) >= 4],
                                    what + " (zero rounds: at most the preliminary triangulation)")


def check_single_step(ctx, name, arg, S0, S1, what):
    """oracle for an operation that is a single step on the state S0"""
    if name == "triangulate_face":
        if len(S0.F[arg]) < 4:
            return ctx.check(not same_state(S0, S1, with_corners=False), "noop", f"{what}: triangulating a triangle changed {same_state(S0, S1, False)}")
        return check_triangulation_step(ctx, S0, S1, [arg], what)
    if name == "triangulate":
        return check_triangulation_step(ctx, S0, S1, [i for i, f in enumerate(S0.F) if len(f) >= 4], what)
    if name == "fan":
        return check_fan_step(ctx, S0, S1, arg, what)
    if name in ("loop", "loop1"):
        Ve, Fe = model_loop(S0.V, S0.F)
        return compare_refinement(ctx, S1, Ve, Fe, len(S0.V), what)
    if name == "quads3":
        Ve, Fe = model_quads3(S0.V, S0.F)
        return compare_refinement(ctx, S1, Ve, Fe, len(S0.V), what)
    raise AssertionError(name)


def shadow_run(ctx, S0, steps, what):
    """execute the documented decomposition, every step in its own editing block on a fresh mesh built from the state
    observed before it; every step is checked with its single-step oracle. Returns the final state or None."""
    import mouette as M
    cur = S0
    pc = Pfx(ctx, "decomposed:")
    for k, st_name in enumerate(steps):
        m = surface_from(cur.V.tolist(), cur.F, sorted(SurfRef(len(cur.V), cur.F).uedges))
        ed = M.mesh.SurfaceSubdivision(m)
        ed.__enter__()
        w = f"{what} / documented decomposition step {k} ({st_name}) on a fresh mesh"
        ok, _ = pc.call("op:" + st_name, apply_surface_op, ed, st_name, None, 1)
        if not ok:
            return None
        nxt = observe_surface(ed.mesh, pc, w)
        if nxt is None or not check_single_step(pc, st_name, None, cur, nxt, w):
            return None
        cur = nxt
    return cur


# ----------------------------------------------------------------------------------------------- sweeps

def surface_sweep(m, nV, F, sort_on, seed, ctx, where, only=None):
    """the C01 battery: every query kind over (a capped number of) elements, compared with the face list"""
    ref = SurfRef(nV, F)
    medges, ok = P1.edges_of(m, ref, ctx)
    if not ok:
        return False
    eid = {e: i for i, e in enumerate(medges)}
    rnd = random.Random(seed)
    kinds = [k for k in P1.KINDS if only is None or k in only]
    rnd.shuffle(kinds)
    nF, nC, nE = len(F), ref.nC, len(medges)

    def some(n):
        return range(n) if n <= SWEEP_CAP else sorted(rnd.sample(range(n), SWEEP_CAP))
    for kind in kinds:
        if kind in ("next_corner", "previous_corner", "opposite_corner", "corner_to_half_edge", "corner_to_face"):
            qs = [[kind, c, 0, 0] for c in some(nC)]
        elif kind in ("half_edge_to_corner", "direct_face", "direct_face_inds", "edge_to_faces", "edge_id", "is_edge_on_border"):
            qs = [[kind, 5 * e + 1, o, 0] for e in some(nE) for o in (0, 1)] + [[kind, 5 * rnd.randrange(nV), rnd.randrange(nV), 0] for _ in range(3)]
        elif kind in ("opposite_face", "opposite_face_inds"):
            qs = [[kind, 5 * e + 1, o, c] for e in some(nE) for o in (0, 1) for c in (0, 1, 2)]
        elif kind == "common_edge":
            qs = [[kind, f, j, 1] for f in some(nF) for j in range(len(F[f]))] + [[kind, f, rnd.randrange(nF), 0] for f in some(nF)]
        elif kind in ("vertex_to_vertices", "vertex_to_faces", "vertex_to_corners", "vertex_to_edges", "is_vertex_on_border"):
            qs = [[kind, v, 0, 0] for v in some(nV)]
        elif kind == "vertex_to_corner_in_face":
            qs = [[kind, v, j, 1] for v in some(nV) for j in range(len(ref.v2f.get(v, [])))] + [[kind, rnd.randrange(nV), rnd.randrange(nF), 0] for _ in range(5)]
        elif kind in ("face_to_vertices", "face_to_edges", "face_to_corners", "face_to_first_corner", "face_to_faces"):
            qs = [[kind, f, 0, 0] for f in some(nF)]
        elif kind == "in_face_index":
            qs = [[kind, f, j, 1] for f in some(nF) for j in range(len(F[f]))] + [[kind, f, rnd.randrange(nV), 0] for f in some(nF)]
        elif kind == "face_id":
            qs = [[kind, f, rnd.randrange(100), 1] for f in some(nF)] + [[kind, rnd.randrange(10 ** 4), rnd.randrange(10 ** 4), 4 * rnd.randrange(100)] for _ in range(4)]
        elif kind == "other_edge_end":
            qs = [[kind, e, rnd.randrange(nV), c] for e in some(nE) for c in (0, 1, 2)]
        elif kind == "edge_to_vertices":
            qs = [[kind, e, 0, 0] for e in some(nE)]
        else:
            qs = [[kind, 0, 0, 0]]
        for q in qs:
            P1.do_query(m, ref, medges, eid, sort_on, q, ctx, where)
    return True


def volume_sweep(m, nV, C, sort_on, seed, ctx, where):
    ref = TetRef(nV, C)
    P3._be_cache.clear()      # c03 caches border edges by id(ref); ids are reused once a reference object is collected
    mfaces, fid, medges, eid, ok = P3.containers(m, ref, ctx)
    if not ok:
        return False
    info = (mfaces, fid, medges, eid)
    rnd = random.Random(seed)
    kinds = list(P3.KINDS)
    rnd.shuffle(kinds)
    nC, nF, nE = len(C), len(mfaces), len(medges)

    def some(n):
        return range(n) if n <= SWEEP_CAP else sorted(rnd.sample(range(n), SWEEP_CAP))
    for kind in kinds:
        if kind in ("face_to_cells", "is_face_on_border", "is_face_on_border_v", "face_id"):
            qs = [[kind, f, rnd.randrange(100)] for f in some(nF)]
        elif kind in ("cell_to_face", "cell_to_cell", "cell_to_edge", "cell_to_vertex"):
            qs = [[kind, c, 0] for c in some(nC)]
        elif kind in ("edge_to_cell", "edge_to_face", "is_edge_on_border"):
            qs = [[kind, e, 0] for e in some(nE)]
        elif kind in ("is_edge_on_border_uv", "edge_id"):
            qs = [[kind, e, o] for e in some(nE) for o in (0, 1)]
        elif kind in ("vertex_to_cell", "is_vertex_on_border"):
            qs = [[kind, v, 0] for v in some(nV)]
        elif kind in ("in_cell_index", "in_cell_face_index", "other_face_side", "common_face"):
            qs = [[kind, c, b] for c in some(nC) for b in (1, 2, 4, 5)] + [[kind, c, 3 * rnd.randrange(50)] for c in some(nC)]
        else:
            qs = [[kind, 0, 0]]
        for q in qs:
            P3.do_query(m, ref, info, sort_on, q, ctx, where)
    return True


# =============================================================================================== surfaces: sub-check

SCALES = [1.0, 1.0, 1.0, 1.0, 1.0, 1e-6, 1e-3, 1e3, 1e6]


def draw_scale_and_vform(draw, V, ok_int):
    """(V', scale label, vform): uniformly scaled coordinates, or integer-typed coordinates (rounded to a 1/16 lattice) when
    ok_int(Vi) accepts them. Float coordinates are sometimes moved far from the origin (1e3 / 1e6 times the size of the
    mesh) or scaled anisotropically: refinement commutes with affine maps."""
    k = draw(st.integers(0, 9))
    if k == 0:
        Vi = np.rint(np.array(V, dtype=float) * 16).astype(int)
        if ok_int(Vi):
            return Vi.tolist(), 1.0, draw(st.sampled_from(["int", "npint"])), "plain"
    sc = draw(st.sampled_from(SCALES))
    A = np.array(V, dtype=float) * sc
    k2 = draw(st.integers(0, 9))
    placement = "plain"
    if k2 in (0, 1):
        far = 1e3 if k2 == 0 else 1e6
        A = A + np.array([0.6, -0.3, 0.74]) * far * extent_of(A)
        placement = f"far-offset-x{far:g}"
    elif k2 == 2:
        A = A * np.array(draw(st.sampled_from([[1e-2, 1.0, 1e2], [1e2, 1e-2, 1.0], [1.0, 30.0, 1.0], [3.0, 1.0, 0.05]])))
        placement = "anisotropic"
    return A.tolist(), sc, "float", placement


# config.complete_faces_from_cells / complete_edges_from_faces = False are NOT drawn for tetrahedral meshes: the unchanged
# library does not register the faces / edges created by split_cell_as_fan and split_tet_from_face_center (it relies on the
# completion done by prepare()), so the block ends in a KeyError. Reported as a finding with a proposed fix
# (scratch/fixes/C13-7-*); set to True once that fix is in. Cases that carry the keys explicitly are honoured (replays).
VOLUME_SWITCHES = False


def draw_form(draw, nV, uniform):
    """python type of the face / cell records: lists, tuples, numpy rows (several integer widths), or mouette.mesh.from_arrays"""
    f = draw(st.sampled_from(["list", "list", "tuple", "np:int64", "np:int32", "np:int16", "np:uint8", "from_arrays"]))
    if f == "np:uint8" and nV > 120:
        f = "np:int32"
    if f == "from_arrays" and not uniform:
        f = "np:int64"
    return f


def draw_env(draw, volume=False):
    """library-wide switches and argument forms"""
    env = {"dup_warning": draw(st.integers(0, 3)) == 0, "ids": draw(st.sampled_from(["int", "int", "int", "np.int64", "np.int32", "np.intp"]))}
    if not volume:
        env["complete_edges"] = draw(st.integers(0, 2)) != 0       # False: the mesh is given with its explicit edge list
    elif VOLUME_SWITCHES:
        k = draw(st.integers(0, 5))
        env["complete_faces"] = k != 1 and k != 2                   # False: explicit face and edge lists
        env["complete_edges"] = k != 2 and k != 3
    return env


def draw_fail(draw):
    """an exception escaping from the editing block (caught by the caller) after some of the operations"""
    if draw(st.integers(0, 7)) != 3:
        return None
    return {"after": draw(st.integers(0, 4)), "how": draw(st.sampled_from(["bad-index", "bad-index", "user-error"]))}


def as_id(i, idform):
    if i is None or idform == "int":
        return i
    return {"np.int64": np.int64, "np.int32": np.int32, "np.intp": np.intp}[idform](i)


# ----------------------------------------------------------------------------------------------- argument forms
# An operation record is [name, a, b] or [name, a, b, form]; form = flags joined by '+':
#   neg     : the element id is written the Python way from the end (id - count, in [-count, -1]); it denotes the same element
#   kw      : the argument is passed by its documented keyword (face_id / cell_id / edge_ind / n / repeat)
#   zero    : the number of rounds of loop_subdivision / subdivide_triangles_6 is 0 ("number of successive subdivisions": none)
#   default : the number of rounds is not passed at all (documented default: 1)
# Flags that do not apply to an operation are ignored. "" comes first: shrinking goes to the plain positional form.
ID_FORMS = ["", "", "", "neg", "kw", "neg+kw"]
COUNT_FORMS = ["", "", "", "zero", "zero", "kw", "zero+kw", "default"]
ID_OPS = ("triangulate_face", "fan", "cell_fan", "face_split", "split_edge")
COUNT_OPS = ("loop", "sub6")
KEYWORD = {"triangulate_face": "face_id", "fan": "face_id", "cell_fan": "cell_id", "face_split": "face_id", "split_edge": "edge_ind",
           "loop": "n", "loop1": "n", "sub6": "repeat"}


# Face ids written from the end for split_tet_from_face_center: NOT issued. The faces of a tetrahedral mesh are derived
# elements; inside an editing block the tail of the editor's face list is whatever the operations have registered so far
# (this check leaves open which inner faces an operation registers at once and which are left to the completion at the end
# of the block). A stored property-preserving change (seeded_benign/C13-b-3) registers the inner faces before it rewrites
# faces[face_id]; with a face id counted from the end that rewrite lands on a freshly registered face and the split face
# stays in the result - the same mechanism as the cell-id defect of seeded/C13-r6-1, but on a container whose growth is
# unspecified. Whether "-k" is an admissible face id there is doubtful, so the form is switched off (the record keeps its
# flag; set to True to issue it: the only alarm it then raises on the stored changes is C13-b-3, signature untouched-faces).
NEG_VOLUME_FACE_IDS = False


def draw_arg_form(draw, name):
    return draw(st.sampled_from(ID_FORMS if name in ID_OPS else COUNT_FORMS)) if name in ID_OPS or name in COUNT_OPS else ""


def op_flags(op):
    """flags of an operation record that apply to its operation"""
    fl = set(x for x in (op[3] if len(op) > 3 and isinstance(op[3], str) else "").split("+") if x)
    if op[0] in ID_OPS:
        return fl & {"neg", "kw"}
    if op[0] in COUNT_OPS:
        fl &= {"kw", "zero", "default"}
        if "zero" in fl:
            fl.discard("default")
        if "default" in fl:
            fl.discard("kw")
        return fl
    return set()


def label_flags(ctx, name, flags):
    if name in ID_OPS:
        ctx.label("id-form=" + ("negative" if "neg" in flags else "plain") + ("+keyword" if "kw" in flags else ""))
    elif name in COUNT_OPS:
        ctx.label("rounds-form=" + ("0" if "zero" in flags else "omitted" if "default" in flags else "n>=1") + ("+keyword" if "kw" in flags else ""))


def call_with(f, name, value, flags, *before):
    """f(*before, value) / f(*before, <documented keyword>=value) / f(*before) when the argument is left to its default"""
    if value is None or "default" in flags:
        return f(*before)
    if "kw" in flags:
        return f(*before, **{KEYWORD[name]: value})
    return f(*before, value)


def call_marginal(ctx, signature, marginal, f, *a):
    """(status, value): 'ok' | 'violation' (already reported) | an Exception. Arguments at the margin of what the documentation
    admits (negative ids, zero rounds) may be *rejected*: an exception raised by such a call is handed
    back instead of being reported (the caller then leaves the editing block through it, as a `with` body would)."""
    if not marginal:
        ok, v = ctx.call(signature, f, *a)
        return ("ok" if ok else "violation"), v
    from vlib.runner import Violation, HarnessError
    try:
        return "ok", f(*a)
    except (Violation, HarnessError):
        raise
    except Exception as e:
        ctx.label("marginal-argument-rejected")
        return e, None


def apply_env(env):
    import mouette as M
    M.config.display_duplicate_attribute_warning = bool(env.get("dup_warning", False))
    M.config.complete_edges_from_faces = bool(env.get("complete_edges", True))
    M.config.complete_faces_from_cells = bool(env.get("complete_faces", True))


def label_env(ctx, case):
    env = case.get("env", {})
    if "complete_faces" in env:
        ctx.label("complete_faces=" + str(env["complete_faces"]))
    ctx.label("records=" + case.get("form", "list"), "ids=" + env.get("ids", "int"), "complete_edges=" + str(env.get("complete_edges", True)),
              "dup_warning=" + str(env.get("dup_warning", False)), "exception-in-block=" + (case["fail"]["how"] if case.get("fail") else "no"))
    ctx.label("placement=" + case.get("placement", "plain"))


SURF_GROUPS = [["edge_id", "face_to_edges"], ["face_id"], ["is_triangular"], ["boundary_edges", "is_edge_on_border"],
               ["boundary_vertices", "is_vertex_on_border"], ["next_corner", "vertex_to_faces", "direct_face", "face_to_faces", "opposite_corner"],
               ["vertex_to_edges"]]


def kinds_pool(draw, all_kinds, groups):
    """half of the time every query kind, otherwise the kinds that fill one particular lazily built table"""
    return all_kinds if draw(st.booleans()) else draw(st.sampled_from(groups))


def surf_queries(draw, lo, hi):
    pool = kinds_pool(draw, P1.KINDS, SURF_GROUPS)
    return [[draw(st.sampled_from(pool)), draw(st.integers(0, 10 ** 6)), draw(st.integers(0, 10 ** 6)), draw(st.integers(0, 10 ** 6))]
            for _ in range(draw(st.integers(lo, hi)))]


def draw_unusual_elements(draw, V, F):
    """legitimate but unusual element roles: a 'pillow' component (two faces on the same vertices, glued along all their
    sides: the smallest closed surface), alone or next to the drawn mesh, first or last in the face list; unused vertices at
    id 0, a middle id or the last id"""
    V = [list(v) for v in V]
    F = [list(f) for f in F]
    extra = []
    k = draw(st.integers(0, 11))
    if k in (3, 4, 5):
        n = 3 if draw(st.integers(0, 2)) else 4
        if k == 5:
            V, F = [], []
        b = len(V)
        zs = max([v[2] for v in V], default=0.0) + 4.0
        V += [[1.5, 0.0, zs], [0.0, 1.5, zs], [-1.0, -0.5, zs + 0.5], [0.5, -1.5, zs]][:n] if n == 3 else [[1.5, 0.0, zs], [1.5, 1.5, zs], [0.0, 1.5, zs], [0.0, 0.0, zs]]
        f1 = [b + i for i in range(n)]
        r = draw(st.integers(0, n - 1))
        f2 = f1[::-1]
        f2 = f2[r:] + f2[:r]
        F = ([f1, f2] + F) if draw(st.booleans()) else (F[:len(F) // 2] + [f1] + F[len(F) // 2:] + [f2])
        extra.append("pillow" + str(n) + ("-alone" if k == 5 else ""))
    k = draw(st.integers(0, 9))
    if k in (4, 5, 6):
        pos = {4: 0, 5: len(V) // 2, 6: len(V)}[k]
        zs = min([v[2] for v in V], default=0.0) - 3.0
        V = V[:pos] + [[0.25, 0.25, zs]] + V[pos:]
        F = [[v + 1 if v >= pos else v for v in f] for f in F]
        extra.append("unused-vertex-" + {4: "first", 5: "middle", 6: "last"}[k])
    return {"V": V, "F": F, "extra": extra}


def representable_ops(ops, second=False):
    """operation list for a mesh with a pillow component. Midpoint (1-to-4) refinement of a pillow puts two different edges
    between the same two midpoints, and cutting the quads that the 1-to-3-quads refinement makes of it puts the same diagonal
    in two quads: neither result can be stored by a data model that keys edges by their end points, so those histories are
    outside the domain. What remains: fans, triangulations, one 1-to-3-quads refinement followed by fans only."""
    out, after_q3 = [], second
    for op in ops:
        name, a, b = op[:3]
        if name in ("loop", "sub6"):
            name = "quads3"
        if after_q3:
            name = "fan"
        if name == "quads3":
            after_q3 = True
        out.append([name, a, b] + list(op[3:]))
    return out


def draw_surf_op(draw):
    """[operation, integer reduced modulo what exists, selector of the number of rounds, argument form]"""
    name = draw(st.sampled_from(SURF_OPS))
    return [name, draw(st.integers(0, 10 ** 4)), draw(st.integers(0, 5)), draw_arg_form(draw, name)]


@st.composite
def surface_case(draw):
    mode = draw(st.sampled_from(["any", "any", "flat", "flat", "tri"]))
    if mode == "flat":
        s = draw(G.surfaces(max_faces=36, jitter_amp=0.0, allow_sum=False, max_ops=4,
                            bases=["grid", "cube", "prism", "polygon", "fan_closed", "fan_open", "strip", "tet", "octa", "antiprism", "bipyramid"]))
    elif mode == "tri":
        s = draw(G.surfaces(max_faces=36, triangulated=True, max_ops=4))
    else:
        s = draw(G.surfaces(max_faces=36, max_ops=5, keep_isolated=draw(st.integers(0, 9)) == 0))
    s = dict(s, **draw_unusual_elements(draw, s["V"], s["F"]))
    nops = draw(st.integers(1, 4))
    ops = [draw_surf_op(draw) for _ in range(nops)]
    # connectivity queried beforehand: nothing / a few individual query kinds (each touches one lazily built table)
    pre = surf_queries(draw, 1, 4) if draw(st.integers(0, 2)) else []
    V, sc, vform, placement = draw_scale_and_vform(draw, s["V"], lambda Vi: len(set(map(tuple, Vi.tolist()))) == len(Vi))
    second = None
    if draw(st.integers(0, 3)) == 0:
        # a second editing block on the same object (the result of the first block or the object given to it)
        second = {"on": draw(st.sampled_from(["result", "input"])), "sweep_first": draw(st.booleans()),
                  "pre": surf_queries(draw, 0, 3),
                  "ops": [draw_surf_op(draw) for _ in range(draw(st.integers(1, 2)))]}
    if any(x.startswith("pillow") for x in s["extra"]):
        ops = representable_ops(ops)
        if second:
            second["ops"] = representable_ops(second["ops"], True)
    uniform = len(set(len(f) for f in s["F"])) == 1
    return {"V": V, "F": s["F"], "tags": s["tags"], "ops": ops, "pre": pre, "sort": draw(st.integers(0, 3)) != 0,
            "form": draw_form(draw, len(V), uniform and vform == "float"), "sweep_seed": draw(st.integers(0, 1000)),
            "scale": sc, "vform": vform, "verbose": draw(st.integers(0, 4)) == 0, "verbose_kw": draw(st.booleans()), "second": second,
            "env": draw_env(draw), "fail": draw_fail(draw), "placement": placement, "extra": s.get("extra", []),
            "decoys": draw(st.sampled_from([0, 0, 0, 0, 1, 2]))}


def build_vertices(raw, V, vform):
    if vform == "int":
        raw.vertices += [[int(x) for x in v] for v in V]
    elif vform == "npint":
        raw.vertices += [np.array(v, dtype=np.int64) for v in V]
    else:
        raw.vertices += [list(map(float, v)) for v in V]


def records(L, form):
    if form == "tuple":
        return [tuple(x) for x in L]
    if form.startswith("np:"):
        dt = np.dtype(form[3:])
        return [np.array(x, dtype=dt) for x in L]
    return [list(x) for x in L]


def build_surface(V, F, form, vform, explicit_edges=False):
    """explicit_edges: the complete edge list is declared (needed when config.complete_edges_from_faces is off)"""
    import mouette as M
    from mouette.mesh.mesh_data import RawMeshData
    E = sorted(SurfRef(len(V), F).uedges) if explicit_edges else None
    if form == "from_arrays" and vform == "float" and len(set(len(f) for f in F)) == 1:
        return M.mesh.from_arrays(np.array(V, dtype=float), E=None if E is None else np.array(E), F=np.array(F))
    raw = RawMeshData()
    build_vertices(raw, V, vform)
    if E:
        raw.edges += [tuple(e) for e in E]
    raw.faces += records(F, "list" if form == "from_arrays" else form)
    return M.mesh.SurfaceMesh(raw)


SURF_TABLE = {"edge_id": "edge-id", "face_to_edges": "edge-id", "face_id": "face-id", "is_triangular": "type",
              "is_edge_on_border": "border", "boundary_edges": "border", "boundary_vertices": "border", "is_vertex_on_border": "border",
              "face_to_vertices": "none", "in_face_index": "none", "other_edge_end": "none", "edge_to_vertices": "none", "corner_to_face": "none",
              "vertex_to_edges": "half-edges+edge-id"}


def label_pre(ctx, queries, table, prefix="pre"):
    """which lazily built tables the preliminary queries touched"""
    if not queries:
        ctx.label(prefix + "-tables=nothing")
        return
    ts = set()
    for q in queries:
        ts.update(table.get(q[0], "half-edges" if table is SURF_TABLE else "other").split("+"))
    ts.discard("none")
    ctx.label(prefix + "-tables=" + ("+".join(sorted(ts)) if len(ts) <= 2 else "3-or-more") if ts else prefix + "-tables=nothing")


def surface_invariants(ctx, V0, F0, SR, flat, what):
    """global oracles relating the original mesh (V0,F0) and a final state SR"""
    nV0 = len(V0)
    ref0 = SurfRef(nV0, F0)
    refR = SurfRef(len(SR.V), SR.F)
    err = surf_error(len(SR.V), SR.F, has_twin_faces(F0))
    if not ctx.check(err is None, "result:valid", f"{what}: not an oriented manifold surface with in-range distinct-vertex faces: {err}"):
        return False
    ok = ctx.check(len(SR.V) >= nV0 and SR.V[:nV0].tobytes() == np.asarray(V0, dtype=float).tobytes(), "old-vertices",
                   f"{what}: the first {nV0} vertices are not the original vertices bit for bit")
    used = set(v for f in SR.F for v in f)
    ok = ctx.check(all(v in used for v in range(nV0, len(SR.V))), "result:unused-vertex", f"{what}: a new vertex belongs to no face") and ok
    l0, lR = ref0.border_loops(), refR.border_loops()
    ok = ctx.check(lR is not None and len(lR) == len(l0), "topology:loops", f"{what}: {None if lR is None else len(lR)} border loops, input had {len(l0)}") and ok
    ok = ctx.check(refR.euler() == ref0.euler(), "topology:euler", f"{what}: Euler characteristic {refR.euler()}, input had {ref0.euler()}") and ok
    ok = ctx.check(refR.n_face_components() == ref0.n_face_components(), "topology:components",
                   f"{what}: {refR.n_face_components()} components, input had {ref0.n_face_components()}") and ok
    if flat:
        a0, aR = total_area(np.asarray(V0, dtype=float), F0), total_area(SR.V, SR.F)
        ok = ctx.check(abs(a0 - aR) <= rel_tol(SR.V) * max(a0, 1e-300), "area", f"{what}: total area {aR!r}, input had {a0!r}") and ok
    return ok


def check_input_object(ctx, m, snap, SR, refs, sort_on, seed, observe, sweep, what, do_sweep=True):
    """the object given to the editor: consistent, and equal either to its snapshot or to the result"""
    pc = Pfx(ctx, "input:")
    Sin = observe(m, pc, what)
    if Sin is None:
        return
    d_snap, d_res = same_state(Sin, snap), same_state(Sin, SR)
    if not pc.check(not d_snap or not d_res, "mixture",
                    f"{what}: the object passed to the editor is neither its former self (differs in {d_snap}) nor the result (differs in {d_res})"):
        return
    ctx.label("input=result" if not d_res else "input=unchanged")
    if not do_sweep:
        return
    if not d_res:
        sweep(m, refs[1][0], refs[1][1], sort_on, seed, pc, what + " [input object, expected to describe the result]")
    else:
        sweep(m, refs[0][0], refs[0][1], sort_on, seed, pc, what + " [input object, expected to describe the original]")


def input_after_exception(ctx, m, snap_diff, cur_diff, what):
    """shared verdict: after an exception escaped from the block, the object passed in is its former self or a mesh on the
    data processed so far"""
    return Pfx(ctx, "input:").check(not snap_diff or not cur_diff, "mixture-after-exception",
                                    f"{what}: the object passed to the editor is neither its former self (differs in {snap_diff}) nor a "
                                    f"consistent mesh on the data processed before the exception (differs in {cur_diff})")


def fail_surface_block(ctx, ed, m, snap, cur, fail, done, sort_on, seed, tag):
    """leave the block through an exception, as a `with` statement whose body raised would, then look at the input object"""
    exc = None
    if fail["how"] == "bad-index":
        bad = 10 ** 6 + len(cur.F)
        try:
            (ed.split_face_as_fan if fail["after"] % 2 else ed.triangulate_face)(bad)       # no such face
        except Exception as e:
            exc = e
    if exc is None:
        try:
            raise RuntimeError("error raised by user code inside the editing block")
        except RuntimeError as e:
            exc = e
    leave_surface_block_by(ctx, ed, m, snap, cur, exc, done, sort_on, seed, tag)


def leave_surface_block_by(ctx, ed, m, snap, cur, exc, done, sort_on, seed, tag):
    """the exception exc leaves the block (cur = the editor state observed before the call that raised it)"""
    what = f"{tag}block left by {type(exc).__name__} after {done}"
    ok, _ = ctx.call("editor:exit-after-exception", ed.__exit__, type(exc), exc, exc.__traceback__)
    if not ok:
        return
    pc = Pfx(ctx, "input:")
    Sin = observe_surface(m, pc, what)
    if Sin is None:
        return
    d_snap = same_state(Sin, snap)
    d_cur = []
    if Sin.V.shape != cur.V.shape or Sin.V.tobytes() != cur.V.tobytes():
        d_cur.append("vertices")
    if Sin.F != cur.F:
        d_cur.append("faces")
    if Sin.corners != ([v for f in cur.F for v in f], [i for i, f in enumerate(cur.F) for _ in f]):
        d_cur.append("face_corners")
    if not input_after_exception(ctx, m, d_snap, d_cur, what):
        return
    St = cur if not d_cur else snap
    surface_sweep(m, len(St.V), St.F, sort_on, seed, pc, what + " [input object]")


def run_surface_block(ctx, m, V0, F, flat, ops, sort_on, seed, verbose, tag, do_sweep, idform="int", fail=None, verbose_kw=False):
    """one editing block on the surface object m whose state is (V0,F). Returns (result object, its observed state) or None."""
    import mouette as M
    snap = observe_surface(m, ctx, tag + "input of the block")
    if snap is None:
        return None
    if verbose_kw:
        ok, ed = ctx.call("editor:init", lambda: M.mesh.SurfaceSubdivision(m, verbose=verbose))
    else:
        ok, ed = ctx.call("editor:init", M.mesh.SurfaceSubdivision, m, verbose)
    if not ok:
        return None
    ok, _ = ctx.call("editor:enter", ed.__enter__)
    if not ok:
        return None
    cur = observe_surface(ed.mesh, ctx, tag + "editor state on entering the block")
    if cur is None:
        return None
    if not ctx.check(not same_state(cur, snap, with_corners=False), "editor:enter", f"{tag}entering the block changed {same_state(cur, snap, False)}"):
        return None
    done = []
    stop_at = None if not fail else fail["after"] % (len(ops) + 1)
    for k, op in enumerate(ops):
        name, a, b = op[:3]
        flags = op_flags(op)
        if stop_at is not None and k == stop_at:
            break
        nF = len(cur.F)
        n = 1
        arg = passed = None
        if name in ("triangulate_face", "fan"):
            arg = a % nF
            passed = as_id(arg - nF if "neg" in flags else arg, idform)      # -nF..-1 denote faces 0..nF-1
        if name in ("loop", "sub6"):
            n = 0 if "zero" in flags else 1 if "default" in flags else 2 if b == 0 else 3 if (b == 1 and name == "loop") else 1
        if sum(1 if len(f) == 3 else len(f) for f in cur.F) * growth(name, n) > MAX_FACES:
            ctx.label("op-skipped-size")
            continue
        shown = (f"{passed!r} = face {arg}" if "neg" in flags else str(arg)) if arg is not None else (n if name in ('loop', 'sub6') else '')
        what = (f"{tag}op #{k} {name}({shown}){' [argument by keyword]' if 'kw' in flags else ' [argument omitted]' if 'default' in flags else ''}"
                f" after {done}")
        ctx.label("op=" + name + (str(n) if name in ("loop", "sub6") else ""))
        label_flags(ctx, name, flags)
        if not cur.all_tri and name in ("loop", "quads3", "sub6"):
            ctx.label("op-triangulates-first")
        status, _ = call_marginal(ctx, "op:" + name, "neg" in flags or "zero" in flags, apply_surface_op, ed, name, passed, n, flags)
        if status == "violation":
            return None
        if status != "ok":
            # the call was rejected: its exception leaves the block
            leave_surface_block_by(ctx, ed, m, snap, cur, status, done, sort_on, seed, tag)
            return None
        done.append(name)
        nxt = observe_surface(ed.mesh, ctx, what)
        if nxt is None:
            return None
        steps = decompose(name, n, cur.all_tri)
        if n == 0:
            if not check_zero_rounds(ctx, name, cur, nxt, what):
                return None
        elif steps is None:
            if not check_single_step(ctx, name, arg, cur, nxt, what):
                return None
        else:
            exp = shadow_run(ctx, cur, steps, what)
            if exp is None:
                return None
            if not compare_refinement(ctx, nxt, exp.V, exp.F, len(cur.V), what + f" vs its documented decomposition {steps}"):
                return None
            if name == "sub6" and n == 1:
                # docstring: "splitting the quads along the corner-barycenter diagonal", i.e. every triangle would contain a
                # face centre (the centres are the last |T| vertices of one round). Outside the registered statement
                # (counts, validity, positions hold either way): measured as a label, not asserted.
                nb = len(nxt.V) - len(nxt.F) // 6
                if not all(any(v >= nb for v in f) for f in nxt.F):
                    ctx.label("sub6:diagonal-is-not-corner-barycentre")
        if not surface_invariants(ctx, V0, F, nxt, flat, what + " [editor state]"):
            return None
        cur = nxt
    if fail:
        fail_surface_block(ctx, ed, m, snap, cur, fail, done, sort_on, seed, tag)
        return None
    ok, _ = ctx.call("editor:exit", ed.__exit__, None, None, None)
    if not ok:
        return None
    R = ed.mesh
    if not ctx.check(isinstance(R, M.mesh.SurfaceMesh), "result:type", f"{tag}editor.mesh after the block is a {type(R).__name__}"):
        return None
    SR = observe_surface(R, ctx, tag + "result")
    if SR is None:
        return None
    what = f"{tag}result of {done}"
    if not ctx.check(SR.V.tobytes() == cur.V.tobytes() and SR.F == cur.F, "editor:exit", f"{what}: leaving the block changed vertices or faces"):
        return None
    if not surface_invariants(ctx, V0, F, SR, flat, what):
        return None
    exp_c = ([v for f in SR.F for v in f], [i for i, f in enumerate(SR.F) for _ in f])
    ctx.check(SR.corners == exp_c, "result:corners", f"{what}: corner records are not 'every vertex of every face, face by face'")
    if do_sweep:
        surface_sweep(R, len(SR.V), SR.F, sort_on, seed, ctx, what + " [result object]")
    check_input_object(ctx, m, snap, SR, ((len(V0), F), (len(SR.V), SR.F)), sort_on, seed + 1, observe_surface, surface_sweep, what, do_sweep)
    return R, SR


def surface_queries(ctx, m, V, F, queries, sort_on, where):
    ref = SurfRef(len(V), F)
    medges = sorted(ref.uedges)
    got = read_index_lists(m.edges)
    if got is not None and all(len(e) == 2 for e in got):
        medges = [tuple(e) for e in got]
    eid = {e: i for i, e in enumerate(medges)}
    for q in queries:
        P1.do_query(m, ref, medges, eid, sort_on, q, ctx, where)


def fn_surface(case, ctx):
    import mouette as M
    V, F = case["V"], [list(f) for f in case["F"]]
    ref0 = SurfRef(len(V), F)
    err = surf_error(len(V), F, True)
    if err is not None:
        raise AssertionError("invalid generated case: " + err)
    for t in case.get("tags", []):
        if t.startswith(("closed", "bordered", "tri", "quad", "mixed34", "polygon", "comps", "genus", "loops")):
            ctx.label(t)
    V0 = np.array(V, dtype=float).reshape(-1, 3)
    flat = is_flat(V0, F)
    second = case.get("second")
    ctx.label("flat" if flat else "not-flat", "pre-queried" if case["pre"] else "not-pre-queried", f"nops={len(case['ops'])}",
              f"scale={case.get('scale', 1.0):g}", "coords=" + case.get("vform", "float"), "second-block=" + (second["on"] if second else "no"))
    label_pre(ctx, case["pre"], SURF_TABLE)
    if quads_with_diagonal_edge(F):
        ctx.label("quad-whose-cut-diagonal-is-an-edge")
    for x in case.get("extra", []):
        ctx.label("element-roles=" + x)
    if not case.get("extra"):
        ctx.label("element-roles=usual")
    has_border = bool(ref0.border_loops())
    ctx.nontrivial(has_border or any(len(f) != 3 for f in F) or len(case["ops"]) >= 2 or bool(second))

    M.config.sort_neighborhoods = bool(case["sort"])
    env = case.get("env", {})
    apply_env(env)
    label_env(ctx, case)
    fail = case.get("fail")
    if fail:
        second = None
    # objects of the same size built, edited, dropped and collected beforehand: anything the library keeps per id() of a
    # mesh / container would now be attached to recycled addresses
    ctx.label(f"decoys={case.get('decoys', 0)}")
    for d in range(int(case.get("decoys", 0))):
        import gc
        Ft = G.op_triangulate_all(V, F, d)[1] if d % 2 == 0 else F
        dm = build_surface(V, Ft, case["form"] if d % 2 else "list", case.get("vform", "float"), not env.get("complete_edges", True))
        with M.mesh.SurfaceSubdivision(dm) as ded:
            ded.triangulate()
            if d % 2 == 0 and len(Ft) * 3 <= MAX_FACES:
                ded.subdivide_triangles_3quads() if d % 4 == 0 else ded.loop_subdivision()
        del dm, ded
        gc.collect()
    m = build_surface(V, F, case["form"], case.get("vform", "float"), not env.get("complete_edges", True))
    surface_queries(Pfx(ctx, "pre:"), m, V, F, case["pre"], case["sort"], "query before editing")
    sweep1 = not second or second["sweep_first"]
    r = run_surface_block(ctx, m, V0, F, flat, case["ops"], case["sort"], case["sweep_seed"], bool(case.get("verbose")), "", sweep1,
                          idform=env.get("ids", "int"), fail=fail, verbose_kw=bool(case.get("verbose_kw")))
    if r is None or not second:
        return
    # ---- the same object is edited a second time (after a full sweep, a few single queries, or no query at all)
    R, SR = r
    target = R if second["on"] == "result" else m
    St = observe_surface(target, ctx, "object edited a second time")
    if St is None:
        return
    if sweep1:
        ctx.label("between-blocks-tables=all")
    else:
        label_pre(ctx, second["pre"], SURF_TABLE, "between-blocks")
    surface_queries(ctx, target, St.V, St.F, second["pre"], case["sort"], "query between the two editing blocks")
    run_surface_block(ctx, target, St.V, St.F, flat, second["ops"], case["sort"], case["sweep_seed"] + 7, False, "second block: ", True)


# =============================================================================================== split_double_boundary_edges_triangles

@st.composite
def ears_case(draw):
    s = draw(G.surfaces(max_faces=40, triangulated=True, max_ops=5,
                        bases=["grid", "cyl_u", "fan_open", "fan_closed", "strip", "polygon", "octa", "antiprism", "strip", "polygon"]))
    k = draw(st.integers(0, 3))
    pre = [] if k == 0 else "all" if k == 1 else surf_queries(draw, 1, 3)
    V, sc, vform, placement = draw_scale_and_vform(draw, s["V"], lambda Vi: len(set(map(tuple, Vi.tolist()))) == len(Vi))
    return {"V": V, "F": s["F"], "tags": s["tags"], "pre": pre, "sort": draw(st.integers(0, 3)) != 0,
            "sweep_seed": draw(st.integers(0, 1000)), "scale": sc, "vform": vform, "twice": draw(st.booleans()),
            "form": draw_form(draw, len(V), vform == "float"), "env": draw_env(draw), "placement": placement,
            "mesh_kw": draw(st.integers(0, 3)) == 0}


def fn_ears(case, ctx):
    import mouette as M
    V, F = case["V"], [list(f) for f in case["F"]]
    ref0 = SurfRef(len(V), F)
    if ref0.validate() is not None or any(len(f) != 3 for f in F):
        raise AssertionError("invalid generated case")
    V0 = np.array(V, dtype=float).reshape(-1, 3)
    ears = [i for i, f in enumerate(F) if sum(1 for j in range(3) if ref0.edge_on_border(f[j], f[(j + 1) % 3])) >= 2]
    ctx.label(f"ears={min(len(ears), 3)}", "pre-queried=" + ("all" if case["pre"] == "all" else "some" if case["pre"] else "no"),
              f"scale={case.get('scale', 1.0):g}", "coords=" + case.get("vform", "float"))
    ctx.nontrivial(bool(ears))
    M.config.sort_neighborhoods = bool(case["sort"])
    env = case.get("env", {})
    apply_env(env)
    label_env(ctx, case)
    m = build_surface(V, F, case.get("form", "list"), case.get("vform", "float"), not env.get("complete_edges", True))
    if case["pre"] == "all":
        surface_sweep(m, len(V), F, case["sort"], case["sweep_seed"], Pfx(ctx, "pre:"), "before editing")
    elif case["pre"]:
        label_pre(ctx, case["pre"], SURF_TABLE)
        surface_queries(Pfx(ctx, "pre:"), m, V, F, case["pre"], case["sort"], "query before editing")
    snap = observe_surface(m, ctx, "input")
    if snap is None:
        return
    ctx.label("mesh-argument=" + ("keyword" if case.get("mesh_kw") else "positional"))
    if case.get("mesh_kw"):       # `mesh` is the name of the parameter in the signature and in the docstring
        ok, ret = ctx.call("op:split_double_boundary_edges_triangles", lambda: M.mesh.split_double_boundary_edges_triangles(mesh=m))
    else:
        ok, ret = ctx.call("op:split_double_boundary_edges_triangles", M.mesh.split_double_boundary_edges_triangles, m)
    if not ok:
        return
    what = f"split_double_boundary_edges_triangles (ear triangles {ears})"
    if not ctx.check(ret is m, "return", f"{what}: documented to return the modified input mesh, returned another object ({type(ret).__name__})"):
        return
    pin = Pfx(ctx, "input:")      # the returned object is the object passed in: its own state is judged under 'input:'
    SR = observe_surface(ret, pin, what)
    if SR is None:
        return
    if not ears:
        ctx.check(not same_state(SR, snap), "noop", f"{what}: mesh without such a triangle changed in {same_state(SR, snap)}")
    # expected: every ear triangle replaced by the fan around its centre
    Ve = np.vstack([V0] + [V0[F[i]].mean(axis=0)[None, :] for i in ears]) if ears else V0
    Fe = [f for i, f in enumerate(F) if i not in ears]
    for k, i in enumerate(ears):
        c = len(V) + k
        Fe += [[F[i][j], F[i][(j + 1) % 3], c] for j in range(3)]
    if not compare_refinement(ctx, SR, Ve, Fe, len(V), what):
        return
    if not surface_invariants(ctx, V0, F, SR, True, what):
        return
    refR = SurfRef(len(SR.V), SR.F)
    left = [f for f in SR.F if sum(1 for j in range(3) if refR.edge_on_border(f[j], f[(j + 1) % 3])) >= 2]
    ctx.check(not left, "postcondition", f"{what}: triangles {left[:3]} still have two border edges")
    exp_c = ([v for f in SR.F for v in f], [i for i, f in enumerate(SR.F) for _ in f])
    pin.check(SR.corners == exp_c, "corners", f"{what}: corner records of the returned mesh are not 'every vertex of every face, face by face'")
    surface_sweep(ret, len(SR.V), SR.F, case["sort"], case["sweep_seed"] + 1, pin, what + " [returned = input object]")
    if case.get("twice"):
        # the same (now fully queried) object once more: nothing is left to split
        ok, ret2 = ctx.call("op:split_double_boundary_edges_triangles", M.mesh.split_double_boundary_edges_triangles, ret)
        if ok and ctx.check(ret2 is m, "return", f"{what}: second call returned another object"):
            S2 = observe_surface(ret2, pin, what + " / second call")
            if S2 is not None:
                ctx.check(not same_state(S2, SR), "noop", f"{what}: a second call on the result changed {same_state(S2, SR)}")
                surface_sweep(ret2, len(S2.V), S2.F, case["sort"], case["sweep_seed"] + 2, pin, what + " [after a second call]")


# =============================================================================================== volumes

class VState:
    def __init__(self, V, C, F, E, corners):
        self.V, self.C, self.F, self.E, self.corners = V, C, F, E, corners


def observe_volume(m, ctx, where):
    V = read_vertices(m.vertices)
    C = read_index_lists(m.cells)
    F = read_index_lists(m.faces)
    E = read_index_lists(m.edges)
    if not ctx.check(V is not None and C is not None and F is not None and E is not None, "state:unreadable",
                     f"{where}: containers are not finite 3-vectors / integer lists"):
        return None
    try:
        corners = tuple(list(map(int, getattr(m, c)._elem)) for c in ("face_corners", "cell_corners", "cell_faces"))
    except Exception:
        corners = None
    return VState(V, C, F, [tuple(e) for e in E], corners)


def same_vstate(a, b, with_corners=True):
    diff = []
    if a.V.shape != b.V.shape or a.V.tobytes() != b.V.tobytes():
        diff.append("vertices")
    if a.C != b.C:
        diff.append("cells")
    if a.F != b.F:
        diff.append("faces")
    if a.E != b.E:
        diff.append("edges")
    if with_corners and a.corners != b.corners:
        diff.append("corner records")
    return diff


def tet_complex_error(nV, C):
    """conforming complex whose boundary is an (unoriented) closed manifold surface; None if fine"""
    ref = TetRef(nV, C)
    err = ref.validate()
    if err is not None:
        return err
    bf = list(ref.border_faces())
    cnt = {}
    for f in bf:
        for i in range(3):
            e = key(f[i], f[(i + 1) % 3])
            cnt[e] = cnt.get(e, 0) + 1
    if any(n != 2 for n in cnt.values()):
        return "a boundary edge is not shared by exactly two boundary faces"
    v2f = {}
    for f in bf:
        for v in f:
            v2f.setdefault(v, []).append(f)
    for v, fs in v2f.items():
        adj = {}
        for f in fs:
            a, b = [x for x in f if x != v]
            adj.setdefault(a, []).append(b); adj.setdefault(b, []).append(a)
        start = next(iter(adj)); seen = {start}; stack = [start]
        while stack:
            x = stack.pop()
            for y in adj[x]:
                if y not in seen:
                    seen.add(y); stack.append(y)
        if len(seen) != len(adj):
            return f"boundary vertex {v} has a link that is not one cycle"
    return None


def tet_topology(nV, C):
    ref = TetRef(nV, C)
    used = set(v for c in C for v in c)
    chi = len(used) - len(ref.ekeys) + len(ref.fkeys) - len(C)
    bf = sorted(ref.border_faces())
    be = ref.border_edges()
    bv = ref.border_vertices()
    chi_b = len(bv) - len(be) + len(bf)
    # components of the cell complex (through shared faces) and of the boundary surface (through shared edges)
    def ncomp(items, links):
        parent = {x: x for x in items}
        def find(x):
            while parent[x] != x:
                parent[x] = parent[parent[x]]
                x = parent[x]
            return x
        for group in links:
            group = list(group)
            for y in group[1:]:
                ra, rb = find(group[0]), find(y)
                if ra != rb:
                    parent[ra] = rb
        return len(set(find(x) for x in items))
    ncc = ncomp(range(len(C)), [cs for cs in ref.f2c.values() if len(cs) == 2])
    e2bf = {}
    for f in bf:
        for i in range(3):
            e2bf.setdefault(key(f[i], f[(i + 1) % 3]), []).append(f)
    nbc = ncomp(bf, e2bf.values())
    return {"euler": chi, "boundary euler": chi_b, "cell components": ncc, "boundary components": nbc}


def volume_invariants(ctx, V0, C0, SR, what):
    nV0 = len(V0)
    err = tet_complex_error(len(SR.V), SR.C)
    if not ctx.check(err is None, "result:valid", f"{what}: not a conforming tetrahedral complex: {err}"):
        return False
    ok = ctx.check(len(SR.V) >= nV0 and SR.V[:nV0].tobytes() == V0.tobytes(), "old-vertices", f"{what}: the first {nV0} vertices are not the original ones bit for bit")
    used = set(v for c in SR.C for v in c)
    ok = ctx.check(all(v in used for v in range(nV0, len(SR.V))), "result:unused-vertex", f"{what}: a new vertex belongs to no cell") and ok
    t0, tR = tet_topology(nV0, C0), tet_topology(len(SR.V), SR.C)
    for k2 in t0:
        ok = ctx.check(t0[k2] == tR[k2], "topology:" + k2.replace(" ", "-"), f"{what}: {k2} = {tR[k2]}, input had {t0[k2]}") and ok
    d0 = [tet_det(V0, c) for c in C0]
    dR = [tet_det(SR.V, c) for c in SR.C]
    v0, vR = sum(abs(x) for x in d0) / 6, sum(abs(x) for x in dR) / 6
    ok = ctx.check(abs(v0 - vR) <= rel_tol(SR.V) * v0, "volume", f"{what}: total volume {vR!r}, input had {v0!r}") and ok
    if all(x > 0 for x in d0):
        ok = ctx.check(all(x > 0 for x in dR), "orientation", f"{what}: input cells all positively oriented, {sum(1 for x in dR if x <= 0)} result cells are not") and ok
    elif all(x < 0 for x in d0):
        ok = ctx.check(all(x < 0 for x in dR), "orientation", f"{what}: input cells all negatively oriented, {sum(1 for x in dR if x >= 0)} result cells are not") and ok
    return ok


def check_cell_step(ctx, name, arg, S0, S1, what):
    nV0, nC0, nF0 = len(S0.V), len(S0.C), len(S0.F)
    s = pos_tol(S0.V) / 1e-9
    if not ctx.check(len(S1.V) == nV0 + 1, "count:vertices", f"{what}: {len(S1.V)} vertices, expected {nV0 + 1}"):
        return False
    if not ctx.check(S1.V[:nV0].tobytes() == S0.V.tobytes(), "old-vertices", f"{what}: an existing vertex moved"):
        return False
    c = nV0
    if name == "cell_fan":
        old = S0.C[arg]
        centre = S0.V[old].mean(axis=0)
        touched = {arg: old}
        exp = sorted(key([c if j == i else old[j] for j in range(4)]) for i in range(4))
        exp_faces = None
    else:
        fl = S0.F[arg]
        centre = S0.V[fl].mean(axis=0)
        touched = {i: cl for i, cl in enumerate(S0.C) if set(fl) <= set(cl)}
        exp = sorted(key([c if x == r else x for x in cl]) for cl in touched.values() for r in fl)
        exp_faces = sorted(key([c if x == r else x for x in fl]) for r in fl)
    if not ctx.check(float(np.linalg.norm(S1.V[c] - centre)) <= 1e-9 * s, "new-vertices",
                     f"{what}: new vertex {S1.V[c].tolist()} is not the centre {centre.tolist()} of the refined element"):
        return False
    ncells = nC0 + (3 if name == "cell_fan" else 2 * len(touched))
    if not ctx.check(len(S1.C) == ncells, "count:cells", f"{what}: {len(S1.C)} cells, expected {ncells}"):
        return False
    if not ctx.check(all(S1.C[i] == S0.C[i] for i in range(nC0) if i not in touched), "untouched-cells", f"{what}: a cell that does not contain the refined element changed or moved"):
        return False
    new = [S1.C[i] for i in sorted(touched)] + S1.C[nC0:]
    bad = [cl for cl in new if len(cl) != 4 or len(set(cl)) != 4 or any(v < 0 or v > c for v in cl)]
    if not ctx.check(not bad, "cells", f"{what}: malformed new cells {bad[:3]}"):
        return False
    if not ctx.check(sorted(key(cl) for cl in new) == exp, "cells", f"{what}: refined cells {touched} became {new}, expected (as vertex sets) {exp}"):
        return False
    # every new cell keeps the orientation of the cell it refines
    for cl in new:
        parent = [p for p in touched.values() if len(set(p) & set(cl)) == 3][0]
        if not ctx.check(tet_det(S1.V, cl) * tet_det(S0.V, parent) > 0, "orientation", f"{what}: new cell {cl} has the opposite orientation of the cell {parent} it refines"):
            return False
    # face list inside the block: existing faces keep index and content (the split face is replaced by a piece of itself);
    # whatever is appended is a face of a current cell, listed once (the remaining faces are completed when the block ends)
    keep = [i for i in range(nF0) if exp_faces is None or i != arg]
    if not ctx.check(len(S1.F) >= nF0 and all(S1.F[i] == S0.F[i] for i in keep), "untouched-faces", f"{what}: a face that is not being split changed or moved"):
        return False
    cell_faces_now = set(key(cl[:j] + cl[j + 1:]) for cl in S1.C for j in range(4))
    listed = [key(f) for f in S1.F]
    extra = ([listed[arg]] if exp_faces is not None else []) + listed[nF0:]
    if not ctx.check(len(set(listed)) == len(listed) and all(len(set(k2)) == 3 and k2 in cell_faces_now for k2 in extra), "faces",
                     f"{what}: the face list of the editor holds a face twice or a face of no current cell: {[k2 for k2 in extra if k2 not in cell_faces_now][:3]}"):
        return False
    if exp_faces is not None:
        if not ctx.check(all(k2 in extra for k2 in exp_faces) and key(S0.F[arg]) not in listed, "faces",
                         f"{what}: face {S0.F[arg]} became {extra[:6]}, expected its three pieces {exp_faces} (and not the face itself)"):
            return False
    return True


def check_volume_corner_records(ctx, R, SR, what):
    """corner containers of the result: every vertex of every face / cell in order; the four faces of every cell
    (face i opposite vertex i). The owner column of cell_faces is not looked at (known defect of the constructor, C02)."""
    try:
        fc = (ints(R.face_corners._elem), ints(R.face_corners._adj))
        cc = (ints(R.cell_corners._elem), ints(R.cell_corners._adj))
        cf = ints(R.cell_faces._elem)
    except Exception as e:
        ctx.check(False, "result:corners", f"{what}: corner containers unreadable ({type(e).__name__})")
        return
    ctx.check(fc == ([v for f in SR.F for v in f], [i for i, f in enumerate(SR.F) for _ in f]), "result:corners",
              f"{what}: face_corners are not 'every vertex of every face, face by face' ({len(fc[0])} records for {sum(map(len, SR.F))} face vertices)")
    ctx.check(cc == ([v for c in SR.C for v in c], [i for i, c in enumerate(SR.C) for _ in c]), "result:corners",
              f"{what}: cell_corners are not 'every vertex of every cell, cell by cell' ({len(cc[0])} records for {4 * len(SR.C)} cell vertices)")
    good = len(cf) == 4 * len(SR.C) and all(0 <= x < len(SR.F) for x in cf)
    if good:
        good = all(key(SR.F[cf[4 * i + j]]) == key(c[:j] + c[j + 1:]) for i, c in enumerate(SR.C) for j in range(4))
    ctx.check(good, "result:corners", f"{what}: cell_faces do not list, for every cell, the face opposite each of its vertices ({len(cf)} records for {len(SR.C)} cells)")


VOL_TABLE = {"face_to_cells": "cell-adj", "cell_to_face": "cell-adj", "other_face_side": "cell-adj", "is_face_on_border": "cell-adj+border",
             "is_face_on_border_v": "cell-adj+face-id+border", "border_faces": "cell-adj+border", "border_edges": "cell-adj+edge-id+border",
             "border_vertices": "cell-adj+border", "is_edge_on_border": "cell-adj+edge-id+border", "is_edge_on_border_uv": "cell-adj+edge-id+border",
             "is_vertex_on_border": "cell-adj+border", "cell_to_cell": "cell-adj+cell-cell", "edge_to_cell": "cell-adj+edge-id",
             "edge_to_face": "cell-adj+edge-id", "edge_id": "cell-adj+edge-id", "cell_to_edge": "cell-adj+edge-id", "vertex_to_cell": "half-edges",
             "in_cell_index": "none", "in_cell_face_index": "none", "cell_to_vertex": "none", "common_face": "face-id", "face_id": "face-id"}


VOL_GROUPS = [["cell_to_cell"], ["face_id", "common_face"], ["face_to_cells", "cell_to_face", "other_face_side"], ["edge_id", "edge_to_cell", "edge_to_face"],
              ["cell_to_edge"], ["vertex_to_cell"], ["border_faces", "is_face_on_border"], ["border_edges", "is_edge_on_border"],
              ["border_vertices", "is_vertex_on_border"]]


def vol_queries(draw, lo, hi):
    pool = kinds_pool(draw, P3.KINDS, VOL_GROUPS)
    return [[draw(st.sampled_from(pool)), draw(st.integers(0, 10 ** 6)), draw(st.integers(0, 10 ** 6))] for _ in range(draw(st.integers(lo, hi)))]


def vol_ops(draw, lo, hi):
    return [[draw(st.sampled_from(["cell_fan", "face_split", "face_split"])), draw(st.integers(0, 10 ** 4)), draw(st.integers(0, 10 ** 4)),
             draw(st.sampled_from(ID_FORMS))] for _ in range(draw(st.integers(lo, hi)))]


@st.composite
def volume_case(draw):
    t = draw(GT.tets(max_cells=24))
    extra = []
    k = draw(st.integers(0, 9))
    if k in (4, 5, 6):      # a vertex that belongs to no cell, as the first, a middle or the last vertex
        pos = {4: 0, 5: len(t["V"]) // 2, 6: len(t["V"])}[k]
        t = dict(t, V=t["V"][:pos] + [[-3.0, -3.5, -2.0]] + t["V"][pos:], C=[[v + 1 if v >= pos else v for v in c] for c in t["C"]])
        extra.append("unused-vertex-" + {4: "first", 5: "middle", 6: "last"}[k])
    d0 = [GT.lib_det(t["V"], c) for c in t["C"]]

    def ok_int(Vi):
        d1 = [GT.lib_det(Vi.tolist(), c) for c in t["C"]]
        return all(x * y > 0 and abs(y) >= 1 for x, y in zip(d0, d1))
    V, sc, vform, placement = draw_scale_and_vform(draw, t["V"], ok_int)
    pre = vol_queries(draw, 1, 4) if draw(st.integers(0, 2)) else []
    second = None
    if draw(st.integers(0, 3)) == 0:
        second = {"on": draw(st.sampled_from(["result", "input"])), "sweep_first": draw(st.booleans()), "pre": vol_queries(draw, 0, 3), "ops": vol_ops(draw, 1, 2)}
    return {"V": V, "C": t["C"], "tags": t["tags"], "ops": vol_ops(draw, 1, 4), "pre": pre, "sort": draw(st.integers(0, 3)) != 0,
            "form": draw_form(draw, len(V), vform == "float"), "sweep_seed": draw(st.integers(0, 1000)),
            "scale": sc, "vform": vform, "verbose": draw(st.integers(0, 4)) == 0, "verbose_kw": draw(st.booleans()), "second": second,
            "env": draw_env(draw, volume=True), "fail": draw_fail(draw), "placement": placement, "extra": extra}


def build_volume(V, C, form, vform, explicit_faces=False, explicit_edges=False):
    import mouette as M
    from mouette.mesh.mesh_data import RawMeshData
    if form == "from_arrays" and vform == "float" and not (explicit_faces or explicit_edges):
        return M.mesh.from_arrays(np.array(V, dtype=float), C=np.array(C))
    raw = RawMeshData()
    build_vertices(raw, V, vform)
    ref = TetRef(len(V), C)
    if explicit_edges:
        raw.edges += sorted(ref.ekeys)
    if explicit_faces:
        raw.faces += [list(f) for f in sorted(ref.fkeys)]
    raw.cells += records(C, "list" if form == "from_arrays" else form)
    return M.mesh.VolumeMesh(raw)


def volume_queries(ctx, m, nV, C, queries, sort_on, where):
    if not queries:
        return True
    ref = TetRef(nV, C)
    P3._be_cache.clear()
    mfaces, fid, medges, eid, ok = P3.containers(m, ref, ctx)
    if not ok:
        return False
    for q in queries:
        P3.do_query(m, ref, (mfaces, fid, medges, eid), sort_on, q, ctx, where)
    return True


def fail_volume_block(ctx, ed, m, snap, cur, fail, done, sort_on, seed, tag):
    exc = None
    if fail["how"] == "bad-index":
        try:
            if fail["after"] % 2:
                ed.split_cell_as_fan(10 ** 6 + len(cur.C))               # no such cell
            else:
                ed.split_tet_from_face_center(10 ** 6 + len(cur.F))      # no such face
        except Exception as e:
            exc = e
    if exc is None:
        try:
            raise RuntimeError("error raised by user code inside the editing block")
        except RuntimeError as e:
            exc = e
    leave_volume_block_by(ctx, ed, m, snap, cur, exc, done, sort_on, seed, tag)


def leave_volume_block_by(ctx, ed, m, snap, cur, exc, done, sort_on, seed, tag):
    """the exception exc leaves the block (cur = the editor state observed before the call that raised it)"""
    what = f"{tag}block left by {type(exc).__name__} after {done}"
    ok, _ = ctx.call("editor:exit-after-exception", ed.__exit__, type(exc), exc, exc.__traceback__)
    if not ok:
        return
    pc = Pfx(ctx, "input:")
    Sin = observe_volume(m, pc, what)
    if Sin is None:
        return
    d_snap = same_vstate(Sin, snap)
    d_cur = []
    if Sin.V.shape != cur.V.shape or Sin.V.tobytes() != cur.V.tobytes():
        d_cur.append("vertices")
    if Sin.C != cur.C:
        d_cur.append("cells")
    if Sin.corners is None or Sin.corners[1] != [v for c in cur.C for v in c] or len(Sin.corners[2]) != 4 * len(cur.C) \
            or Sin.corners[0] != [v for f in Sin.F for v in f]:
        d_cur.append("corner records")
    if not input_after_exception(ctx, m, d_snap, d_cur, what):
        return
    St = cur if not d_cur else snap
    volume_sweep(m, len(St.V), St.C, sort_on, seed, pc, what + " [input object]")


def run_volume_block(ctx, m, V0, C, ops, sort_on, seed, verbose, tag, do_sweep, idform="int", fail=None, verbose_kw=False):
    """one editing block on the tetrahedral mesh object m whose state is (V0,C). Returns (result object, observed state) or None"""
    import mouette as M
    snap = observe_volume(m, ctx, tag + "input of the block")
    if snap is None:
        return None
    if verbose_kw:
        ok, ed = ctx.call("editor:init", lambda: M.mesh.VolumeSubdivision(m, verbose=verbose))
    else:
        ok, ed = ctx.call("editor:init", M.mesh.VolumeSubdivision, m, verbose)
    if not ok:
        return None
    ok, _ = ctx.call("editor:enter", ed.__enter__)
    if not ok:
        return None
    cur = observe_volume(ed.mesh, ctx, tag + "editor state on entering the block")
    if cur is None:
        return None
    if not ctx.check(not same_vstate(cur, snap, with_corners=False), "editor:enter", f"{tag}entering the block changed {same_vstate(cur, snap, False)}"):
        return None
    done = []
    stop_at = None if not fail else fail["after"] % (len(ops) + 1)
    for k, op in enumerate(ops):
        name, a, b = op[:3]
        flags = op_flags(op)
        if stop_at is not None and k == stop_at:
            break
        if name == "cell_fan":
            arg = a % len(cur.C)
            count = len(cur.C)
            fnc = ed.split_cell_as_fan
        else:
            # mostly a face of a cell touched by the previous operations (the last cells), else any face
            if b % 3 and done:
                cl = cur.C[len(cur.C) - 1 - (a % min(4, len(cur.C)))]
                fk = key(cl[:b % 4] + cl[b % 4 + 1:])
                cands = [i for i, f in enumerate(cur.F) if key(f) == fk]
                arg = cands[0] if cands else a % len(cur.F)
            else:
                arg = a % len(cur.F)
            if len(cur.F[arg]) != 3:
                continue
            count = len(cur.F)
            fnc = ed.split_tet_from_face_center
            if not NEG_VOLUME_FACE_IDS:
                flags = flags - {"neg"}
        passed = as_id(arg - count if "neg" in flags else arg, idform)      # -count..-1 denote elements 0..count-1
        what = (f"{tag}op #{k} {name}({str(passed) + ' = element ' if 'neg' in flags else ''}{arg}){' [argument by keyword]' if 'kw' in flags else ''}"
                f" after {done}")
        if name == "face_split":
            ncell = sum(1 for cl in cur.C if set(cur.F[arg]) <= set(cl))
            if not ctx.check(ncell in (1, 2), "editor:faces", f"{what}: face {cur.F[arg]} of the editor's face list belongs to {ncell} cells"):
                return None
            ctx.label("face_split:" + ("interior" if ncell == 2 else "border"))
        ctx.label("op=" + name)
        label_flags(ctx, name, flags)
        status, _ = call_marginal(ctx, "op:" + name, "neg" in flags, call_with, fnc, name, passed, flags)
        if status == "violation":
            return None
        if status != "ok":
            # the call was rejected: its exception leaves the block
            leave_volume_block_by(ctx, ed, m, snap, cur, status, done, sort_on, seed, tag)
            return None
        done.append(name)
        nxt = observe_volume(ed.mesh, ctx, what)
        if nxt is None:
            return None
        if not check_cell_step(ctx, name, arg, cur, nxt, what):
            return None
        cur = nxt
    if fail:
        fail_volume_block(ctx, ed, m, snap, cur, fail, done, sort_on, seed, tag)
        return None
    ok, _ = ctx.call("editor:exit", ed.__exit__, None, None, None)
    if not ok:
        return None
    R = ed.mesh
    if not ctx.check(isinstance(R, M.mesh.VolumeMesh), "result:type", f"{tag}editor.mesh after the block is a {type(R).__name__}"):
        return None
    SR = observe_volume(R, ctx, tag + "result")
    if SR is None:
        return None
    what = f"{tag}result of {done}"
    if not ctx.check(SR.V.tobytes() == cur.V.tobytes() and SR.C == cur.C, "editor:exit", f"{what}: leaving the block changed vertices or cells"):
        return None
    if not volume_invariants(ctx, V0, C, SR, what):
        return None
    check_volume_corner_records(ctx, R, SR, what)
    if do_sweep:
        volume_sweep(R, len(SR.V), SR.C, sort_on, seed, ctx, what + " [result object]")
    pc = Pfx(ctx, "input:")
    Sin = observe_volume(m, pc, what)
    if Sin is None:
        return R, SR
    d_snap, d_res = same_vstate(Sin, snap), same_vstate(Sin, SR)
    if not pc.check(not d_snap or not d_res, "mixture",
                    f"{what}: the object passed to the editor is neither its former self (differs in {d_snap}) nor the result (differs in {d_res})"):
        return R, SR
    ctx.label("input=result" if not d_res else "input=unchanged")
    if do_sweep:
        if not d_res:
            volume_sweep(m, len(SR.V), SR.C, sort_on, seed + 1, pc, what + " [input object, expected to describe the result]")
        else:
            volume_sweep(m, len(V0), C, sort_on, seed + 1, pc, what + " [input object, expected to describe the original]")
    return R, SR


def fn_volume(case, ctx):
    import mouette as M
    V, C = case["V"], [list(c) for c in case["C"]]
    V0 = np.array(V, dtype=float).reshape(-1, 3)
    if tet_complex_error(len(V), C) is not None:
        raise AssertionError("invalid generated case")
    ref0 = TetRef(len(V), C)
    for t in case.get("tags", []):
        if t.startswith(("interior", "all-", "mixed", "base=")):
            ctx.label(t)
    second = case.get("second")
    ctx.label("pre-queried" if case["pre"] else "not-pre-queried", f"nops={len(case['ops'])}", f"scale={case.get('scale', 1.0):g}",
              "coords=" + case.get("vform", "float"), "second-block=" + (second["on"] if second else "no"))
    label_pre(ctx, case["pre"], VOL_TABLE)
    for x in case.get("extra", []) or ["usual"]:
        ctx.label("element-roles=" + x)
    ctx.nontrivial(any(len(cs) == 2 for cs in ref0.f2c.values()) or len(case["ops"]) >= 2 or bool(second))
    M.config.sort_neighborhoods = bool(case["sort"])
    env = case.get("env", {})
    apply_env(env)
    label_env(ctx, case)
    fail = case.get("fail")
    if fail:
        second = None
    m = build_volume(V, C, case["form"], case.get("vform", "float"), not env.get("complete_faces", True),
                     not env.get("complete_faces", True) or not env.get("complete_edges", True))
    if not volume_queries(Pfx(ctx, "pre:"), m, len(V), C, case["pre"], case["sort"], "query before editing"):
        return
    sweep1 = not second or second["sweep_first"]
    r = run_volume_block(ctx, m, V0, C, case["ops"], case["sort"], case["sweep_seed"], bool(case.get("verbose")), "", sweep1,
                         idform=env.get("ids", "int"), fail=fail, verbose_kw=bool(case.get("verbose_kw")))
    if r is None or not second:
        return
    R, SR = r
    target = R if second["on"] == "result" else m
    St = observe_volume(target, ctx, "object edited a second time")
    if St is None:
        return
    if tet_complex_error(len(St.V), St.C) is not None:
        return      # (input object left in a state already reported / excluded under 'input:')
    if sweep1:
        ctx.label("between-blocks-tables=all")
    else:
        label_pre(ctx, second["pre"], VOL_TABLE, "between-blocks")
    if not volume_queries(ctx, target, len(St.V), St.C, second["pre"], case["sort"], "query between the two editing blocks"):
        return
    run_volume_block(ctx, target, St.V, St.C, second["ops"], case["sort"], case["sweep_seed"] + 7, False, "second block: ", True)


# =============================================================================================== polylines

POLY_KINDS = ["edge_id", "vertex_to_vertices", "vertex_to_edges", "other_edge_end", "edge_to_vertices"]
POLY_TABLE = {"edge_id": "edge-id", "vertex_to_vertices": "adjacency", "vertex_to_edges": "adjacency+edge-id", "other_edge_end": "none", "edge_to_vertices": "none"}


def poly_queries(draw, lo, hi):
    pool = kinds_pool(draw, POLY_KINDS, [["edge_id"], ["vertex_to_vertices"], ["vertex_to_edges"]])
    return [[draw(st.sampled_from(pool)), draw(st.integers(0, 10 ** 4)), draw(st.integers(0, 10 ** 4))] for _ in range(draw(st.integers(lo, hi)))]


@st.composite
def polyline_case(draw):
    n = draw(st.integers(2, 10))
    kind = draw(st.sampled_from(["path", "cycle", "tree", "graph"]))
    E = []
    if kind == "path":
        E = [(i, i + 1) for i in range(n - 1)]
    elif kind == "cycle" and n >= 3:
        E = [(i, (i + 1) % n) for i in range(n)]
    elif kind == "tree":
        E = [(draw(st.integers(0, i - 1)), i) for i in range(1, n)]
    else:
        pairs = [(i, j) for i in range(n) for j in range(i)]
        E = draw(st.lists(st.sampled_from(pairs), unique=True, min_size=1, max_size=14))
    if not E:
        E = [(0, 1)]
    E = [list(e) if draw(st.booleans()) else [e[1], e[0]] for e in E]
    vform = draw(st.sampled_from(["float", "float", "float", "int", "npint"]))
    if vform == "float":
        co = st.floats(-4, 4, allow_nan=False, width=32)
        sc = draw(st.sampled_from(SCALES))
        V = [[draw(co) * sc, draw(co) * sc, draw(co) * sc] for _ in range(n)]
    else:
        sc = 1.0
        V = [[draw(st.integers(-9, 9)), draw(st.integers(-9, 9)), draw(st.integers(-9, 9))] for _ in range(n)]
    ops = draw(st.lists(st.integers(0, 10 ** 4), min_size=1, max_size=4))
    # connectivity before the first split and between splits: nothing / single queries (each fills one table) / everything
    mode = draw(st.sampled_from(["none", "some", "some", "all"]))
    pre = poly_queries(draw, 1, 3) if mode == "some" else mode
    between = []
    for _ in ops:
        k = draw(st.integers(0, 3))
        between.append("none" if k == 0 else "all" if k == 1 else poly_queries(draw, 1, 3))
    forms = [draw(st.sampled_from(ID_FORMS)) for _ in ops]
    return {"V": V, "E": E, "ops": ops, "pre": pre, "between": between, "kind": kind, "scale": sc, "vform": vform, "forms": forms,
            "ids": draw(st.sampled_from(["int", "int", "int", "np.int64", "np.int32"]))}


def polyline_sweep(pl, nV, medges, ctx, where):
    C = pl.connectivity
    eid = {e: i for i, e in enumerate(medges)}
    nbr = {v: set() for v in range(nV)}
    for a, b in medges:
        nbr[a].add(b); nbr[b].add(a)
    for v in range(nV):
        polyline_query(pl, nV, medges, eid, nbr, ["vertex_to_vertices", v, 0], ctx, where)
        polyline_query(pl, nV, medges, eid, nbr, ["vertex_to_edges", v, 0], ctx, where)
        for w in range(nV):
            polyline_query(pl, nV, medges, eid, nbr, ["edge_id", v, w], ctx, where, exact_pair=True)
    for e in range(len(medges)):
        polyline_query(pl, nV, medges, eid, nbr, ["edge_to_vertices", e, 0], ctx, where)
        for o in (0, 1):
            polyline_query(pl, nV, medges, eid, nbr, ["other_edge_end", e, o], ctx, where)


def polyline_query(pl, nV, medges, eid, nbr, q, ctx, where, exact_pair=False):
    """one connectivity query on a polyline, compared with the edge list"""
    kind, a, b = q
    C = pl.connectivity
    sig = "q:" + kind
    if kind == "edge_id":
        if exact_pair:
            v, w = a, b
        elif medges and a % 4:
            v, w = medges[(a // 4) % len(medges)][::1 if b % 2 else -1]       # mostly an existing edge, either order
        else:
            v, w = a % nV, b % nV
        ok, r = ctx.call(sig, C.edge_id, v, w)
        if ok:
            exp = eid.get(key(v, w)) if v != w else None
            ctx.check(r == exp, sig, f"{where}: edge_id({v},{w}) = {r!r}, expected {exp!r}")
    elif kind == "vertex_to_vertices":
        v = a % nV
        ok, r = ctx.call(sig, C.vertex_to_vertices, v)
        if ok:
            ctx.check(r is not None and sorted(ints(r)) == sorted(nbr[v]), sig, f"{where}: vertex_to_vertices({v}) = {r}, edges say {sorted(nbr[v])}")
    elif kind == "vertex_to_edges":
        v = a % nV
        ok, r = ctx.call(sig, C.vertex_to_edges, v)
        if ok:
            exp = sorted(eid[key(v, w)] for w in nbr[v])
            ctx.check(r is not None and None not in r and sorted(r) == exp, sig, f"{where}: vertex_to_edges({v}) = {r}, expected {exp}")
    elif kind == "edge_to_vertices":
        e = a % len(medges)
        ok, r = ctx.call(sig, C.edge_to_vertices, e)
        if ok:
            ctx.check(tuple(ints(r)) == medges[e], sig, f"{where}: edge_to_vertices({e}) = {r}, expected {medges[e]}")
    elif kind == "other_edge_end":
        e = a % len(medges)
        u, w = medges[e]
        x = (u, w)[b % 2]
        ok, r = ctx.call(sig, C.other_edge_end, e, x)
        if ok:
            ctx.check(r == (w if x == u else u), sig, f"{where}: other_edge_end({e},{x}) = {r!r}")
    else:
        raise AssertionError(kind)


def polyline_touch(pl, nV, medges, spec, ctx, where):
    """spec: 'none' | 'all' | list of single queries"""
    if spec == "none":
        return
    if spec == "all":
        polyline_sweep(pl, nV, medges, ctx, where)
        return
    eid = {e: i for i, e in enumerate(medges)}
    nbr = {v: set() for v in range(nV)}
    for a, b in medges:
        nbr[a].add(b); nbr[b].add(a)
    for q in spec:
        polyline_query(pl, nV, medges, eid, nbr, q, ctx, where)


def fn_polyline(case, ctx):
    import mouette as M
    from mouette.mesh.mesh_data import RawMeshData
    V = np.array(case["V"], dtype=float).reshape(-1, 3)
    E = [key(e) for e in case["E"]]
    pre = case["pre"]
    if isinstance(pre, bool):           # cases written before single queries were drawn
        pre = "all" if pre else "none"
    between = case.get("between", [])
    ctx.label("kind=" + case["kind"], f"nops={len(case['ops'])}", f"scale={case.get('scale', 1.0):g}", "coords=" + case.get("vform", "float"))
    if isinstance(pre, str):
        ctx.label("pre-tables=" + ("nothing" if pre == "none" else "all"))
    else:
        label_pre(ctx, pre, POLY_TABLE)
    ctx.nontrivial(len(E) >= 2 or len(case["ops"]) >= 2)
    if case.get("vform", "float") == "float":
        pl = polyline_from(case["V"], [tuple(e) for e in case["E"]])
    else:
        raw = RawMeshData()
        build_vertices(raw, case["V"], case["vform"])
        raw.edges += [tuple(e) for e in case["E"]]
        pl = M.mesh.PolyLine(raw)
    polyline_touch(pl, len(V), E, pre, Pfx(ctx, "pre:"), "before editing")
    mV, mE = V, list(E)
    nops = len(case["ops"])
    forms = case.get("forms", [])
    idform = case.get("ids", "int")
    ctx.label("ids=" + idform)
    for k, a in enumerate(case["ops"]):
        e = a % len(mE)
        A, B = mE[e]
        flags = op_flags(["split_edge", a, 0, forms[k] if k < len(forms) else ""])
        passed = as_id(e - len(mE) if "neg" in flags else e, idform)         # -nE..-1 denote edges 0..nE-1
        what = f"split_edge #{k} of edge {str(passed) + ' = ' if 'neg' in flags else ''}{e}=({A},{B}){' [argument by keyword]' if 'kw' in flags else ''}"
        label_flags(ctx, "split_edge", flags)
        # (the polyline itself is always positional: its parameter is called `polyline` in the signature and `mesh` in the docstring)
        status, ret = call_marginal(ctx, "op:split_edge", "neg" in flags, call_with, M.mesh.split_edge, "split_edge", passed, flags, pl)
        if status == "violation":
            return
        if status != "ok":
            # the call was rejected: the polyline must be what it was
            gV, gE = read_vertices(pl.vertices), read_index_lists(pl.edges)
            same = gV is not None and gE is not None and gV.tobytes() == np.asarray(mV, dtype=float).tobytes() and [tuple(x) for x in gE] == [tuple(x) for x in mE]
            if ctx.check(same, "input:mixture-after-exception", f"{what}: rejected with {type(status).__name__}, but the polyline is no longer what it was"):
                polyline_sweep(pl, len(mV), mE, ctx, what + " [rejected call, read-out afterwards]")
            return
        if not ctx.check(ret is pl, "return", f"{what}: documented to return the processed polyline, returned {type(ret).__name__}"):
            return
        gV = read_vertices(pl.vertices)
        gE = read_index_lists(pl.edges)
        if not ctx.check(gV is not None and gE is not None, "state:unreadable", f"{what}: vertices / edges unreadable"):
            return
        if not ctx.check(len(gV) == len(mV) + 1 and len(gE) == len(mE) + 1, "count", f"{what}: {len(gV)} vertices / {len(gE)} edges, expected {len(mV) + 1} / {len(mE) + 1}"):
            return
        if not ctx.check(gV[:len(mV)].tobytes() == mV.tobytes(), "old-vertices", f"{what}: an existing vertex moved"):
            return
        mid = (mV[A] + mV[B]) / 2
        if not ctx.check(float(np.linalg.norm(gV[-1] - mid)) <= 1e-12 * scale_of(mV), "new-vertices", f"{what}: new vertex {gV[-1].tolist()} is not the midpoint {mid.tolist()}"):
            return
        Cn = len(mV)
        if not ctx.check(all(len(x) == 2 for x in gE), "edges", f"{what}: edge container holds entries that are not vertex pairs: {[x for x in gE if len(x) != 2][:3]}"):
            return
        gE = [tuple(x) for x in gE]
        if not ctx.check(all(gE[i] == mE[i] for i in range(len(mE)) if i != e), "untouched-edges", f"{what}: another edge changed or moved"):
            return
        if not ctx.check(sorted([gE[e], gE[-1]]) == sorted([key(A, Cn), key(B, Cn)]), "edges",
                         f"{what}: the edge became {gE[e]} and {gE[-1]}, expected {key(A, Cn)} and {key(B, Cn)} (smallest index first)"):
            return
        mV, mE = gV, gE
        # connectivity after this split: the drawn single queries first (they are answered from whatever tables survived the
        # split), and a full read-out after the last split
        spec = between[k] if k < len(between) else "none"
        hist = f" [tables touched so far: before={pre if isinstance(pre, str) else [q[0] for q in pre]}]"
        # queries about the split edge itself, in the drawn kinds
        if isinstance(spec, list):
            eid = {x: i for i, x in enumerate(mE)}
            nbr = {v: set() for v in range(len(mV))}
            for x, y in mE:
                nbr[x].add(y); nbr[y].add(x)
            for q in spec:
                kind = q[0]
                for qq in ([kind, A, 0], [kind, B, 0], [kind, Cn, 0]) if kind in ("vertex_to_vertices", "vertex_to_edges") else \
                          ([kind, A, B], [kind, A, Cn], [kind, Cn, B]) if kind == "edge_id" else ([kind, e, q[2]], [kind, len(mE) - 1, q[2]]):
                    polyline_query(pl, len(mV), mE, eid, nbr, qq, ctx, what + " [split edge, connectivity afterwards]" + hist, exact_pair=True)
        polyline_touch(pl, len(mV), mE, spec, ctx, what + " [connectivity afterwards]" + hist)
        if k == nops - 1:
            polyline_sweep(pl, len(mV), mE, ctx, what + " [full read-out after the last split]" + hist)
    # graph invariants (consequences of the step oracles, asserted for the record)
    ctx.check(len(mV) - len(mE) == len(V) - len(E), "topology:euler", "V-E changed")


# =============================================================================================== sizes around powers of two

# (grid nu x nv cut into triangles, operation, rounds): an element count (vertices, faces) stays below 2**8 / 2**16 before the
# refinement and reaches or passes it during the refinement (in the first or in a later round), or lands exactly on / next to it
SIZE_SMALL = [(8, 8, "loop", 1), (7, 8, "loop", 1), (4, 8, "loop", 1), (4, 4, "loop", 2), (6, 6, "quads3", 1), (5, 5, "sub6", 1),
              (9, 7, "loop", 1), (3, 3, "loop", 3), (6, 7, "quads3", 1), (10, 12, "loop", 1)]
SIZE_BIG = [(128, 128, "loop", 1), (64, 64, "loop", 2), (64, 128, "loop", 1), (105, 105, "quads3", 1), (127, 129, "loop", 1), (74, 74, "sub6", 1)]
LOCAL_KINDS = ["next_corner", "previous_corner", "opposite_corner", "corner_to_half_edge", "half_edge_to_corner", "corner_to_face", "direct_face",
               "direct_face_inds", "edge_to_faces", "opposite_face", "vertex_to_vertices", "vertex_to_faces", "vertex_to_corners", "vertex_to_edges",
               "vertex_to_corner_in_face", "face_to_vertices", "face_to_edges", "face_to_corners", "face_to_first_corner", "face_to_faces",
               "in_face_index", "edge_id", "other_edge_end", "edge_to_vertices", "is_edge_on_border", "is_triangular"]


def grid_counts(nu, nv):
    return (nu + 1) * (nv + 1), 3 * nu * nv + nu + nv, 2 * nu * nv


@st.composite
def size_case(draw):
    """kind 'small': a grid whose counts cross 2**8; 'padded': a small grid plus unused vertices (legitimate: vertices that
    belong to no face) so that the vertex count sits just below 2**8 / 2**16 and reaches it during the refinement, exactly or
    by a margin; 'big': a grid that really has > 16000 vertices (about one case in twelve)"""
    k = draw(st.integers(0, 11))
    pad, where = 0, "back"
    if k == 7:
        nu, nv, op, n = draw(st.sampled_from(SIZE_BIG))
        kind = "big"
    elif k in (0, 1, 2):
        nu, nv, op, n = draw(st.sampled_from(SIZE_SMALL))
        kind = "small"
    else:
        kind = "padded"
        nu, nv = draw(st.integers(1, 5)), draw(st.integers(1, 4))
        op, n = draw(st.sampled_from([("loop", 1), ("loop", 1), ("loop", 2), ("quads3", 1), ("sub6", 1)]))
        nV, nE, nF = grid_counts(nu, nv)
        T = 2 ** draw(st.sampled_from([16, 16, 16, 8]))
        added = nE if op == "loop" else nE + nF          # new vertices of the first round
        # vertex count before the refinement: T - d with 1 <= d <= added (+1: stays just below) -> T is reached exactly, passed, or missed by one
        d = draw(st.sampled_from([1, 2, added - 1, added, added + 1, max(1, added // 2)]))
        pad = max(0, T - max(1, d) - nV)
        where = draw(st.sampled_from(["front", "back", "middle"]))
    return {"nu": nu, "nv": nv, "op": op, "n": n, "diag": draw(st.integers(0, 2)), "height": draw(st.booleans()),
            "form": draw(st.sampled_from(["list", "tuple", "np:int32", "np:uint16", "from_arrays"])),
            "pre": draw(st.sampled_from(["none", "edge_id", "half-edges"])), "sweep_seed": draw(st.integers(0, 1000)),
            "kind": kind, "pad": pad, "pad_where": where}


def tri_grid(nu, nv, diag, height):
    """(nu+1)(nv+1) vertices, 2 nu nv triangles; diag: 0 = all '/', 1 = all '\\', 2 = alternating"""
    V = np.array([[float(i), float(j), 0.0] for j in range(nv + 1) for i in range(nu + 1)])
    if height:
        V[:, 2] = 0.25 * np.sin(0.37 * V[:, 0]) * np.cos(0.23 * V[:, 1])
    idx = lambda i, j: j * (nu + 1) + i
    F = []
    for j in range(nv):
        for i in range(nu):
            a, b, c, d = idx(i, j), idx(i + 1, j), idx(i + 1, j + 1), idx(i, j + 1)
            if diag == 0 or (diag == 2 and (i + j) % 2 == 0):
                F += [[a, b, c], [a, c, d]]
            else:
                F += [[a, b, d], [b, c, d]]
    return V, F


def crossed(before, after):
    return [f"2^{k}" for k in (8, 16) if before < 2 ** k <= after] + [f"=2^{k}{d:+d}" for k in (8, 16) for d in (-1, 0, 1) if after == 2 ** k + d]


def fn_size(case, ctx):
    import mouette as M
    nu, nv, op, n = case["nu"], case["nv"], case["op"], case["n"]
    V0, F = tri_grid(nu, nv, case["diag"], case["height"])
    pad = int(case.get("pad", 0))
    if pad:
        # unused vertices (on a line below the grid) first, last, or in the middle of the vertex list
        U = np.array([[0.001 * i, -2.0, 0.0] for i in range(pad)])
        pos = {"front": 0, "back": len(V0), "middle": len(V0) // 2}[case.get("pad_where", "back")]
        V0 = np.vstack([V0[:pos], U, V0[pos:]])
        F = [[v + pad if v >= pos else v for v in f] for f in F]
    big = len(F) > 5000
    ctx.label("op=" + op + str(n), "records=" + case["form"], "pre=" + case["pre"], "kind=" + case.get("kind", "small"),
              "unused-vertices=" + ("no" if not pad else case.get("pad_where", "back")))
    ctx.nontrivial(True)
    M.config.sort_neighborhoods = True
    form = case["form"]
    if form == "np:uint16" and len(V0) >= 2 ** 16:
        form = "np:int32"
    m = build_surface(V0.tolist(), F, form, "float")
    if case["pre"] == "edge_id":
        m.connectivity.edge_id(0, 1)
    elif case["pre"] == "half-edges":
        m.connectivity.vertex_to_faces(0)
    snap = observe_surface(m, ctx, "input")
    if snap is None:
        return
    ok, ed = ctx.call("editor:init", M.mesh.SurfaceSubdivision, m)
    if not ok:
        return
    ok, _ = ctx.call("editor:enter", ed.__enter__)
    if not ok:
        return
    name = {"loop": "loop", "quads3": "quads3", "sub6": "sub6"}[op]
    what = f"{op}({n}) on a {nu}x{nv} triangulated grid ({len(V0)} vertices, {len(F)} faces)"
    ok, _ = ctx.call("op:" + name, apply_surface_op, ed, name, None, n)
    if not ok:
        return
    S1 = observe_surface(ed.mesh, ctx, what)
    if S1 is None:
        return
    # reference refinement (the input is all triangles: no choice is left to the library, except the quad diagonals of the 1-to-6 split)
    Ve, Fe = V0, F
    for r in range(n):
        nV_before, nF_before = len(Ve), len(Fe)
        Ve, Fe = model_loop(Ve, Fe) if op == "loop" else model_quads3(Ve, Fe)
        for lab in crossed(nV_before, len(Ve)):
            ctx.label("vertices:" + lab)
        for lab in crossed(nF_before, len(Fe) * (2 if op == "sub6" else 1)):
            ctx.label("faces:" + lab)
    if op == "sub6":
        # every quad (A, mAB, S, mCA) cut by one of its diagonals
        if not ctx.check(len(S1.V) == len(Ve) and len(S1.F) == 2 * len(Fe), "count:faces", f"{what}: {len(S1.V)} vertices / {len(S1.F)} faces, expected {len(Ve)} / {2 * len(Fe)}"):
            return
        Sq = SState(Ve, Fe, [], None)
        p = match_new(S1.V[len(V0):], Ve[len(V0):], Ve)
        if not ctx.check(p is not None and p != "ambiguous", "new-vertices", f"{what}: new vertices are not the edge midpoints and face centres"):
            return
        mp = list(range(len(V0))) + [len(V0) + q for q in p]
        S1m = SState(Ve, [[mp[v] for v in f] if all(0 <= v < len(mp) for v in f) else f for f in S1.F], [], None)
        tri_ok = sorted(canon(f) for f in S1m.F)
        both = set()
        for q in Fe:
            a, b, c, d = q
            both.add(frozenset([canon([a, b, d]), canon([b, c, d])]))
            both.add(frozenset([canon([a, b, c]), canon([a, c, d])]))
        got = set(tri_ok)
        good = all(any(pair <= got for pair in (frozenset([canon([a, b, d]), canon([b, c, d])]), frozenset([canon([a, b, c]), canon([a, c, d])]))) for a, b, c, d in Fe)
        if not ctx.check(good and len(got) == len(tri_ok), "faces", f"{what}: the triangles are not the 3 quads of every input triangle cut by a diagonal"):
            return
    else:
        if not compare_refinement(ctx, S1, Ve, Fe, len(V0), what):
            return
    if not surface_invariants(ctx, V0, F, S1, not case["height"] or op == "loop" or True, what + " [editor state]"):
        return
    ok, _ = ctx.call("editor:exit", ed.__exit__, None, None, None)
    if not ok:
        return
    R = ed.mesh
    SR = observe_surface(R, ctx, what + " [result]")
    if SR is None:
        return
    if not ctx.check(SR.V.tobytes() == S1.V.tobytes() and SR.F == S1.F, "editor:exit", f"{what}: leaving the block changed vertices or faces"):
        return
    ctx.check(SR.corners == ([v for f in SR.F for v in f], [i for i, f in enumerate(SR.F) for _ in f]), "result:corners", f"{what}: corner records are not 'every vertex of every face'")
    surface_sweep(R, len(SR.V), SR.F, True, case["sweep_seed"], ctx, what + " [result object]", only=LOCAL_KINDS if big else None)
    pin = Pfx(ctx, "input:")
    Sin = observe_surface(m, pin, what)
    if Sin is not None and pin.check(not same_state(Sin, snap) or not same_state(Sin, SR), "mixture", f"{what}: input object is neither its former self nor the result"):
        if not big:
            St = SR if not same_state(Sin, SR) else snap
            surface_sweep(m, len(St.V), St.F, True, case["sweep_seed"] + 1, pin, what + " [input object]")


# =============================================================================================== self test / registration

def self_test():
    V = np.array([[0, 0, 0], [1, 0, 0], [0, 1, 0.0]])
    V2, F2 = model_loop(V, [[0, 1, 2]])
    assert len(V2) == 6 and len(F2) == 4 and abs(total_area(V2, F2) - 0.5) < 1e-15
    assert SurfRef(6, F2).validate() is None
    V3, F3 = model_quads3(V, [[0, 1, 2]])
    assert len(V3) == 7 and len(F3) == 3 and abs(total_area(V3, F3) - 0.5) < 1e-15 and SurfRef(7, F3).validate() is None
    # triangulation predicate: both diagonals and the centre fan are accepted, a wrong piece is not

    class C0:
        def __init__(self): self.fails = []
        def check(self, cond, sig, msg="", **k):
            if not cond: self.fails.append(sig)
            return bool(cond)
        def discard(self, r): pass
    Q = np.array([[0, 0, 0], [1, 0, 0], [1, 1, 0], [0, 1, 0.0]])
    S0 = SState(Q, [[0, 1, 2, 3]], [], None)
    for F1 in ([[0, 1, 3], [1, 2, 3]], [[0, 1, 2], [0, 2, 3]]):
        c = C0()
        assert check_triangulation_step(c, S0, SState(Q, F1, [], None), [0], "t") and not c.fails
    Qc = np.vstack([Q, [[.5, .5, 0]]])
    c = C0()
    assert check_triangulation_step(c, S0, SState(Qc, [[0, 1, 4], [1, 2, 4], [2, 3, 4], [3, 0, 4]], [], None), [0], "t")
    c = C0()
    assert not check_triangulation_step(c, S0, SState(Q, [[0, 1, 3], [1, 3, 2]], [], None), [0], "t")
    c = C0()
    Qd = np.vstack([Q, [[.5, .6, 0]]])
    assert not check_triangulation_step(c, S0, SState(Qd, [[0, 1, 4], [1, 2, 4], [2, 3, 4], [3, 0, 4]], [], None), [0], "t")
    assert is_flat(Q, [[0, 1, 2, 3]]) and not is_flat(np.array([[0, 0, 0], [1, 0, 0], [.2, .2, 0], [0, 1, 0.0]]), [[0, 1, 2, 3]])
    assert tet_topology(4, [[0, 1, 2, 3]]) == {"euler": 1, "boundary euler": 2, "cell components": 1, "boundary components": 1}
    assert match_new(np.array([[1., 0, 0], [0, 0, 0]]), np.array([[0., 0, 0], [1, 0, 0]]), np.array([[0., 0, 0], [1, 0, 0]])) == [1, 0]


SUBCHECKS = [
    SubCheck("surface_edit", surface_case(), fn_surface, quick=240, thorough=1500),
    SubCheck("volume_edit", volume_case(), fn_volume, quick=240, thorough=1500),
    SubCheck("polyline_split", polyline_case(), fn_polyline, quick=200, thorough=1500),
    SubCheck("double_boundary", ears_case(), fn_ears, quick=160, thorough=800),
    SubCheck("size_thresholds", size_case(), fn_size, quick=16, thorough=40, watchdog=(150, 400)),
]


# ----------------------------------------------------------------------------------------------- proposed known finding
def kf_input_object_half_updated(case, violation):
    """The object handed to SurfaceSubdivision / VolumeSubdivision (shared containers, stale connectivity caches) is left in
    a state that is neither its former self nor the result. Narrow: only oracles evaluated on the *input object* after the
    block (signature prefix 'input:'), never anything about the result."""
    return violation.sub_check in ("surface_edit", "volume_edit", "double_boundary") and violation.signature.startswith("input:")


def quads_with_diagonal_edge(F):
    """quads (A,B,C,D) of a face list whose diagonal B-D (the one triangulate_face cuts along) already is an edge of the
    mesh, or is the cut diagonal of another quad as well"""
    ue = set(key(f[i], f[(i + 1) % len(f)]) for f in F for i in range(len(f)))
    cuts = {}
    for f in F:
        if len(f) == 4:
            cuts[key(f[1], f[3])] = cuts.get(key(f[1], f[3]), 0) + 1
    return [list(f) for f in F if len(f) == 4 and (key(f[1], f[3]) in ue or cuts[key(f[1], f[3])] > 1)]


def kf_quad_diagonal_already_an_edge(case, violation):
    """triangulate_face always cuts a quad (A,B,C,D) along B-D. When B and D are already joined by an edge of another face,
    or by the cut of another quad (coarse meshes: quads around a valence-2 vertex, a tetrahedron with two faces merged), the
    result has an edge with more than two faces / two faces on the same vertices, which the data model cannot represent
    (the other diagonal would have been fine). Narrow: the *input* face list contains such a quad and the symptom is the
    validity of the state right after a triangulating step."""
    return (violation.sub_check == "surface_edit" and violation.signature in ("step:valid", "decomposed:step:valid")
            and bool(quads_with_diagonal_edge(case["F"])))


MATCHERS = {"kf_input_object_half_updated": kf_input_object_half_updated,
            "kf_quad_diagonal_already_an_edge": kf_quad_diagonal_already_an_edge}
