"""C19 - samplers stay on their domain; Bezier evaluation matches the Bernstein form."""
import copy
import gc
import math
import pickle
import random
import numpy as np
from hypothesis import strategies as st
from vlib.runner import SubCheck
from vlib import gen_surface as G
from vlib import ref_bernstein as RB
from vlib.build import surface_from, polyline_from, coords

PROPERTY = "C19"
RULE = ("Samplers: generated axis-aligned boxes (dimension 1-5; unit / centred / integer / general / thin / far-from-origin corners "
        "within 1e-3..1e3, tuple / list / numpy corners) x mode (uniform, grid) x count 0-400 x array / point-cloud result; "
        "spheres and balls with centre components and radius log-uniform in 1e-3..1e3 (plus centre 0, radius 1); polylines "
        "(path / cycle / tree / graph / disjoint segments on 2-12 distinct vertices, planar or not, scaled 1e-3..1e3 and shifted) "
        "and well-shaped triangulated surfaces (vlib.gen_surface.well_shaped_trisurf, scaled and shifted) x count 0-400 x "
        "array / point-cloud x normals; three statistical sub-checks with 4000 draws each and few cases (edge shares by length, face shares "
        "by area on radially stretched surfaces, radial law of the ball). Categories, flags and magnitudes come from a PRNG seeded "
        "by the first drawn integer of the case (Hypothesis' own choices starve the non-default classes), sizes are ordinary draws. "
        "Bezier: control nets with integer or log-uniform coordinates, degree 0-6 (curves) and (0-4)x(0-4) (patches) in 2-D/3-D, "
        "parameters inside [0,1] (incl. 0, 1) and outside (incl. 1e-9 beyond, nan, inf), export resolutions 2-9 (n1, n2 drawn "
        "independently). Class 'cached-attr' (40 % of the polyline / surface cases, 50 % of the share cases): the mesh is built on an earlier, "
        "non-affinely different geometry, the persistent attributes edge 'length' / face 'area' / face 'normals' are computed there, then every "
        "vertex is rebound to the final geometry before sampling - all oracles follow the final geometry. Class 'degenerate-faces' / "
        "'zero-length-edge' (25 % of the surface / polyline cases, 40 % / 25 % of the share cases): one or two faces are 1-to-3 split by a vertex "
        "placed exactly on a corner or on a side midpoint (exactly zero-area faces in the middle of the face list), an extra vertex duplicates a "
        "position and is joined by a zero-length edge: such elements have share 0 and hold no sample of their own. Class 'second-call' (30 %): the "
        "same box / centre Vec / mesh object serves a second request with other parameters; every curve / patch is exported twice (patch with "
        "swapped resolutions). After every call the arguments are compared with a snapshot (box and its corner sequences, centre Vec, mesh "
        "coordinates / connectivity / attribute names, control points). Scales: meshes 1e-6..1e6, radii 1e-6..1e6 (class 'r extreme'), control "
        "nets 'tiny' (1e-6) / 'huge' (1e6); integer-typed centres, radii, box corners and control nets (numpy-int / vec-int). "
        "Class 'edited-net' (50 % of the curves / patches): after the first round of evaluations and exports a second, independent object "
        "is evaluated, then 1-2 control points of the FIRST object are edited (rebinding pts[i] / pts[i][j] or writing components in place) and "
        "every parameter already used is evaluated again, the export repeated with the same resolution, and finally the arrays returned by "
        "evaluate are overwritten in place by the caller before the next evaluation; the reference is always the Bernstein form of the control "
        "points the object reports at that moment. Control points are also handed in as one-shot generators ('ctor=generator'). Size regime (2-4 % "
        "each): counts 1000-5000, polylines with > 1000 edges, surfaces with > 1000 faces ('big-mesh'), as_polyline(100..150), as_surface with a "
        "side > 20; between the two requests of a 'second-call' case an independent mesh is sampled. "
        "Order and roles: polyline edge lists as built / shuffled / reversed (open chains listed out of vertex order), unused vertices at id 0 / "
        "a middle id / the last id of polylines and surfaces. Histories of the mesh samplers: vertices moved IN PLACE between two requests "
        "('moved-in-place', 30 %), short-lived meshes of the same connectivity built, sampled, dropped and garbage collected before the mesh of the "
        "case ('recycled-objects'), sampling through copy.copy / deepcopy / pickle round trips of the mesh, box, centre, curve or patch "
        "('clone=...'), box.pad() or `centre += shift` between two requests, counts and parameters passed as numpy scalars. Values near special "
        "ones: radius 1 +- 8e-6, boxes within 8e-6 of the unit cube, parameters a few ulps inside [0,1]; counts 255 / 256 / 257 and (box, sphere, "
        "ball) 65535 / 65536 / 65537; curve degrees 16-18, 32, 33, 64, 66 and 67, 68, 70, 100, patch nets with one direction of degree 17, 33, 67, "
        "68, 70 (about 1.5 % each, kept light: few parameters, small resolutions). "
        "Parameter sequences of the polyline export (keyword custom_pos, 35 % of the curves): 2-10 parameters of [0,1] sorted / reversed / "
        "shuffled / with a repeated entry ('custom-order=...'), handed over as list / tuple / numpy array / one-shot generator / list of numpy "
        "scalars ('custom-form=...'), with n_pts omitted or equal to their number ('custom-n_pts=...'); repeated on the edited net. Class "
        "'custom-out-of-range' (50 % of the curves, 1-2 requests each, one more after the edits): such a sequence with the first / a middle / the "
        "last / several / all entries OUTSIDE [0,1] (1e-9 .. 10 beyond an end, one ulp beyond, nan, +-inf, 1e300; 'custom-out@...', "
        "'custom-out-by<1e-6') in the same container forms - the export has to reject it (any exception; returning a polyline is the violation), "
        "and the exports that follow show the curve is still usable. Out-of-range parameters of evaluate are also passed as numpy scalars "
        "('numpy-parameter'), and in 30 % of the curves the documented module function de_casteljau(P, t) is called directly with parameters "
        "inside (Bernstein value) and outside (InvalidRangeArgumentError) ('de_casteljau-direct'). "
        "numpy.random is seeded from the case. non-trivial = box differs from the unit cube and n>0 / "
        "radius != 1 or centre != 0 (n>0) / >=2 edges or faces and n>0 / degree >= 2 (curves) / n1 != n2 (patches); "
        "distinct = distinct realised cases.")
ASSUMPTIONS = [
    "the control points of a curve / patch object are its public `pts`; editing them is an ordinary use and later answers refer to the edited net",
    "grid mode: 'nearest perfect power' is read as round(n**(1/d))**d (the integer nearest to the d-th root), as in DESIGN C19",
    "a box with mini >= maxi on some axis is 'empty' (AABB.is_empty) and sampling it must raise, as documented",
    "patch convention: evaluate(u, v) runs u along the inner index of the control net and v along the outer one (the code's own, undocumented, convention)",
    "statistical sub-checks: a sample is attributed to the edge/face it lies on; criterion = exact two-sided binomial tail >= 1e-8/(2m) per element "
    "(m elements; the sound form of the 6-sigma rule, false-alarm probability < 1e-8 per case)",
    "stat_ball_radial grounds on the docstring 'Samples points uniformly inside a 3D ball' (the property text itself only demands containment)",
    "polylines have >= 1 edge of positive length; surfaces are triangulated, their non-degenerate faces have min angle >= 8 degrees (>= 3 degrees "
    "after the stretch of stat_share_surface) and there is >= 1 of them; exactly degenerate elements (zero-length edge, zero-area face) are in "
    "the domain of sampling WITHOUT normals (the unchanged library samples the other elements correctly); with return_normals=True a zero-area "
    "face makes face_normals raise FloatingPointError - normals of a degenerate face are undefined, so that combination is not generated",
    "as_polyline(custom_pos=...) takes any iterable of numbers as the curve parameters of the successive vertices (the code only iterates it once); "
    "they are 'parameters' in the sense of the statement, so one outside [0,1] has to be rejected as evaluate() rejects it. The export has no "
    "docstring: only 'raises instead of returning a polyline' is demanded, not the exception class. n_pts is only combined with custom_pos as "
    "omitted or equal to len(custom_pos); other combinations are unspecified and not generated",
    "mouette.splines.bezier.de_casteljau is a public documented function (docstring: Raises InvalidRangeArgumentError if t is not in [0;1]); the "
    "direct call is skipped if the module no longer has that name",
    "box:uniform-spread (>= 100 uniform draws span at least half of every side; false-alarm probability < 1e-27) grounds on the docstring "
    "'uniformly at random inside' the box; the property text itself only demands containment",
]

EPS = 2.0 ** -52


# =============================================================================================== small helpers

def sig6(x):
    return float(f"{x:.6g}")


SPECIAL_COUNTS = [27, 8, 64, 100, 9, 16, 243, 256, 343, 400, 32, 4, 3, 2, 1, 0, 255, 257, 256]


def mixer(draw):
    """Categories, flags and most magnitudes are derived from ONE drawn integer (the first draw of every case) through a PRNG.
    Hypothesis' own choices are strongly biased towards the first / smallest alternative and towards 0 / 0.0 for the later draws of a
    composite (measured with --collect: radius 10**0 in 36 % of the cases, n = 0 in 40 %, all-zero control nets), which starves the
    classes this property is about.  Sizes stay (partly) ordinary draws so that failing cases still shrink."""
    return random.Random(draw(st.integers(0, 2 ** 32)))


def rlog(rnd, lo=-3.0, hi=3.0):
    return sig6(10.0 ** rnd.uniform(lo, hi))


def rslog(rnd, lo=-3.0, hi=3.0):
    return rlog(rnd, lo, hi) * rnd.choice([-1.0, 1.0])


def draw_count(draw, rnd, huge_ok=False):
    c = rnd.random()
    if huge_ok and c > 0.99:
        return rnd.choice([65535, 65536, 65537])   # vectorised samplers only: a count around 2**16
    if c < 0.012:
        return rnd.choice([1000, 1024, 5000])      # size regime: well above the stated 0-400 and above any plausible internal threshold
    if c < 0.15:
        return rnd.choice(SPECIAL_COUNTS)
    if c < 0.5:
        return rnd.randint(0, 400)
    if c < 0.65:
        return rnd.randint(0, 12)
    return draw(st.integers(0, 400))


def expect_raises(ctx, sig, exc_types, what, f, *a, **kw):
    """the library is documented to reject this input"""
    ctx.n_assert += 1
    try:
        r = f(*a, **kw)
    except exc_types:
        return True
    except Exception as e:
        ctx.fail(sig, f"{what}: raised {type(e).__name__}: {e} instead of {[t.__name__ for t in exc_types]}")
        return False
    ctx.fail(sig, f"{what}: no exception (returned {str(r)[:80]})")
    return False


def binom_ok(k, n, p, alpha):
    from scipy.stats import binom
    if p <= 0.0:
        return k == 0
    if p >= 1.0:
        return k == n
    return bool(binom.cdf(k, n, p) >= alpha and binom.sf(k - 1, n, p) >= alpha)


def as_points(res, want_cloud, ctx, sig):
    """normalise a sampler result to an (n, k) float array, checking its type"""
    import mouette as M
    if want_cloud:
        if not ctx.check(isinstance(res, M.mesh.PointCloud), sig + ":type", f"return_point_cloud=True returned {type(res).__name__}"):
            return None
        return coords(res)
    if not ctx.check(isinstance(res, np.ndarray) and res.ndim == 2, sig + ":type",
                     f"expected a 2-d numpy array, got {type(res).__name__} of shape {getattr(res, 'shape', None)}"):
        return None
    return np.asarray(res, dtype=float)


# =============================================================================================== boxes

def grid_resolution(n, d):
    """the integer r nearest to n**(1/d), in exact integer arithmetic: (2r-1)^d < 2^d n < (2r+1)^d"""
    if n <= 0:
        return 0
    r = max(0, int(round(n ** (1.0 / d))) - 2)
    while (2 * r + 1) ** d < (2 ** d) * n:
        r += 1
    return r


@st.composite
def box_case(draw):
    rnd = mixer(draw)
    d = rnd.randint(1, 5)
    kind = rnd.choice(["unit", "near-unit", "centered", "int", "int", "general", "general", "general", "thin", "far", "far", "empty"])
    if kind == "unit":
        lo, hi = [0.0] * d, [1.0] * d
    elif kind == "near-unit":                   # within 1e-5 of the unit cube: an isclose()-style shortcut must not fire
        lo, hi = [rnd.choice([0.0, 8e-6, -8e-6]) for _ in range(d)], [rnd.choice([1.000008, 0.999992, 1.0]) for _ in range(d)]
    elif kind == "centered":
        lo, hi = [-0.5] * d, [0.5] * d
    elif kind == "int":
        lo = [rnd.randint(-5, 5) for _ in range(d)]
        hi = [l + rnd.randint(1, 6) for l in lo]
        if rnd.random() < 0.5:
            lo, hi = [float(x) for x in lo], [float(x) for x in hi]
    elif kind in ("general", "thin"):
        lo = [0.0 if rnd.random() < 0.15 else rslog(rnd) for _ in range(d)]
        hi = [sig6(l + rlog(rnd)) for l in lo]
        if kind == "thin":
            k = rnd.randrange(d)
            hi[k] = lo[k] + max(abs(lo[k]), 1.0) * 1e-6
    elif kind == "far":
        c = rnd.choice([1e3, -1e3, 500.0])
        lo = [sig6(c + rnd.uniform(-1, 1)) for _ in range(d)]
        hi = [sig6(l + rlog(rnd, -2, 1)) for l in lo]
    else:  # empty: some axis has mini >= maxi
        lo = [float(rnd.randint(-3, 3)) for _ in range(d)]
        hi = [l + 1.0 for l in lo]
        k = rnd.randrange(d)
        hi[k] = lo[k] - rnd.choice([0.0, 1.0, 1e-3])
    if kind != "empty":
        for k in range(d):
            if not hi[k] > lo[k]:
                hi[k] = lo[k] + 1.0
    n = draw_count(draw, rnd, huge_ok=True)
    return {"lo": lo, "hi": hi, "kind": kind, "mode": rnd.choice(["uniform", "grid"]), "n": n,
            "pc": rnd.random() < 0.3 and n < 10000, "ctor": rnd.choice(["tuple", "list", "numpy"]),
            "again": [rnd.choice(["uniform", "grid"]), rnd.choice([0, 1, 2, 5, 30, 64, 81, 255, 256, 257]), rnd.random() < 0.3] if rnd.random() < 0.3 else None,
            # between the two requests the box is enlarged by its documented mutator pad()
            "pad": rnd.choice([0.5, 1e-3, [0.25] * d, [float(k) for k in range(d)]]) if rnd.random() < 0.5 else None,
            "clone": rnd.choice(["copy", "deepcopy", "pickle"]) if rnd.random() < 0.1 else None, "n_np": rnd.random() < 0.12}


def fn_box(case, ctx):
    from mouette.geometry import AABB
    lo, hi, n, mode, pc = case["lo"], case["hi"], case["n"], case["mode"], case["pc"]
    d = len(lo)
    conv = {"tuple": tuple, "list": list, "numpy": lambda x: np.array(x)}[case["ctor"]]
    args = (conv(lo), conv(hi))
    box = AABB(*args)
    ctx.label("dim=%d" % d, "mode=" + mode, "kind=" + case["kind"], "pc" if pc else "array",
              "n=0" if n == 0 else "n=1" if n == 1 else "n>1" if n < 1000 else "n>=1000" if n < 60000 else "n~2^16")
    if case.get("clone"):
        ctx.label("clone=" + case["clone"])
        box = clone_of(box, case["clone"])
    if case.get("n_np"):
        ctx.label("numpy-int-count")
    check_box(box, args, case, n, mode, pc, ctx)
    if case.get("again") and case["kind"] != "empty":
        ctx.label("second-call")
        mode2, n2, pc2 = case["again"]
        case2, note = case, f" [second request on the same AABB object, after mode={mode!r}]"
        if case.get("pad") is not None:
            ctx.label("padded-between-calls")
            pad = case["pad"]
            ok, _ = ctx.call("box:pad", box.pad, pad)
            if not ok:
                return
            pv = pad if isinstance(pad, list) else [pad] * d
            case2 = dict(case, lo=[l - q for l, q in zip(lo, pv)], hi=[h + q for h, q in zip(hi, pv)], arg_lo=lo, arg_hi=hi)
            note = f" [second request on the same AABB object, after mode={mode!r} and box.pad({pad})]"
        check_box(box, args, case2, n2, mode2, pc2 and d <= 3, ctx, note=note, first=False)


def check_box(box, args, case, n, mode, pc, ctx, note="", first=True):
    from mouette import sampling
    lo, hi = case["lo"], case["hi"]
    d = len(lo)
    what = f"sample_AABB(AABB({lo},{hi}), {n}, mode={mode!r}, return_point_cloud={pc}){note}"
    if case["kind"] == "empty":
        ctx.label("expect-raise")
        expect_raises(ctx, "box:empty-accepted", (Exception,), what, sampling.sample_AABB, box, n, mode=mode, return_point_cloud=pc)
        return
    if d > 3 and pc:
        ctx.label("expect-raise")
        expect_raises(ctx, "box:pc-highdim", (ValueError,), what, sampling.sample_AABB, box, n, mode=mode, return_point_cloud=pc)
        return
    ok, res = ctx.call("box:call", sampling.sample_AABB, box, np.int64(n) if case.get("n_np") else n, mode=mode, return_point_cloud=pc)
    if not ok:
        return
    # neither the box handed in nor the corner sequences it was built from are altered by sampling it
    L, H = np.array(lo, dtype=float), np.array(hi, dtype=float)
    ctx.check(bool(np.all(np.asarray(box.mini, dtype=float) == L) and np.all(np.asarray(box.maxi, dtype=float) == H)
                   and list(args[0]) == list(case.get("arg_lo", lo)) and list(args[1]) == list(case.get("arg_hi", hi))), "box:mutated",
              f"{what}: the box changed to {box} (corner arguments now {args})")
    P = as_points(res, pc, ctx, "box")
    if P is None:
        return
    r = grid_resolution(n, d)
    expected = n if mode == "uniform" else r ** d
    unit = all(l == 0 for l in lo) and all(h == 1 for h in hi)
    ctx.nontrivial(not unit and expected > 0)
    if mode == "grid" and first:
        ctx.label("res=%s" % (r if r < 3 else ">=3"))
    if not ctx.check(P.shape[0] == expected, "box:count",
                     f"{what}: {P.shape[0]} points, expected {expected}" + (f" (= {r}^{d})" if mode == "grid" else "")):
        return
    width = 3 if pc else d
    if not ctx.check(P.shape[1] == width, "box:shape", f"{what}: points have {P.shape[1]} coordinates, expected {width}"):
        return
    if pc and d < 3:
        ctx.check(bool(np.all(P[:, d:] == 0.0)), "box:pc-padding", f"{what}: padded coordinates of the point cloud are not 0")
    P = P[:, :d]
    if expected == 0:
        return
    scale = float(max(np.max(np.abs(L)), np.max(np.abs(H))))
    tol = 1e-12 * scale
    ctx.check(bool(np.all(np.isfinite(P))), "box:finite", f"{what}: non-finite coordinates")
    out = ((P < L - tol) | (P > H + tol)).any(axis=1)
    if not ctx.check(not out.any(), "box:outside",
                     f"{what}: {int(out.sum())} of {expected} points outside the box; e.g. "
                     f"{P[out][:1].tolist()} ; sample min {P.min(axis=0).tolist()} max {P.max(axis=0).tolist()}"):
        return
    if mode == "uniform" and expected >= 100:
        # docstring: "uniformly at random inside" the box. 100 independent uniform draws all fall into one half-length sub-interval of an
        # axis with probability < 1e-27: a sample spanning less than half of an axis is not a uniform sample of *this* box.
        spread = (P.max(axis=0) - P.min(axis=0)) / (H - L)
        ctx.check(bool(np.all(spread >= 0.5)), "box:uniform-spread",
                  f"{what}: the {expected} points span only the fractions {spread.tolist()} of the box sides")
    if mode == "grid" and r >= 2:
        # docstring: "a grid of regularly spaced points"; the statement pins the count and the domain, not where the grid sits in the
        # box (corner to corner as today, or cell centred): per axis there must be exactly r distinct, equally spaced ticks inside the
        # box, and the points must be the r^d distinct nodes of their product
        S = H - L
        idx = np.zeros(P.shape, dtype=int)
        ok = True
        for a in range(d):
            col = P[:, a]
            ticks = np.sort(col)
            ticks = ticks[np.concatenate(([True], np.diff(ticks) > 1e-9 * S[a]))]
            if not ctx.check(len(ticks) == r, "box:grid-lattice",
                             f"{what}: axis {a} carries {len(ticks)} distinct coordinates, a {r}^{d} grid has {r}"):
                ok = False
                break
            steps = np.diff(ticks)
            if not ctx.check(bool(np.all(np.abs(steps - steps.mean()) <= 1e-9 * S[a] + tol)), "box:grid-lattice",
                             f"{what}: the ticks of axis {a} are not regularly spaced: steps between {steps.min()!r} and {steps.max()!r}"):
                ok = False
                break
            j = np.clip(np.searchsorted(ticks, col), 1, r - 1)
            idx[:, a] = np.where(np.abs(col - ticks[j - 1]) <= np.abs(col - ticks[j]), j - 1, j)
        if not ok:
            return
        keys = set(map(tuple, idx.tolist()))
        ctx.check(len(keys) == expected, "box:grid-distinct", f"{what}: only {len(keys)} distinct lattice nodes among {expected} points")


def fn_box_mode(case, ctx):
    """argument check of `mode` (documented values 'uniform' / 'grid')"""
    from mouette import sampling
    from mouette.geometry import AABB
    from mouette.utils.argument_check import InvalidArgumentValueError, InvalidArgumentTypeError
    box = AABB.unit_cube(case["d"])
    ctx.label("mode=" + repr(case["mode"]))
    expect_raises(ctx, "box:bad-mode", (InvalidArgumentValueError, InvalidArgumentTypeError), f"mode={case['mode']!r}",
                  sampling.sample_AABB, box, 5, mode=case["mode"])


# =============================================================================================== sphere / ball

def draw_center(draw, rnd):
    c = rnd.random()
    if c < 0.15:
        return [0.0, 0.0, 0.0]
    if c < 0.3:
        return [float(rnd.randint(-3, 3)) for _ in range(3)]
    return [rslog(rnd) if rnd.random() < 0.85 else 0.0 for _ in range(3)]


def draw_radius(draw, rnd):
    c = rnd.random()
    if c < 0.08:
        return 1.0
    if c < 0.3:
        return rnd.choice([0.5, 2.0, 8.0, 1e-3, 1e3, 0.9, 1.1, 2, 5, 1e-6, 1e6, 1.000008, 0.999992])      # 2, 5: integer-typed radius
    if c < 0.4:
        return rlog(rnd, -6, 6)
    return rlog(rnd)


@st.composite
def round_case(draw):
    rnd = mixer(draw)
    c = draw_center(draw, rnd)
    if all(float(x).is_integer() for x in c) and rnd.random() < 0.6:
        c = [int(x) for x in c]                                                      # integer-typed Vec centre
    n = draw_count(draw, rnd, huge_ok=True)
    return {"which": rnd.choice(["sphere", "ball"]), "center": c, "radius": draw_radius(draw, rnd),
            "n": n, "pc": rnd.random() < 0.3 and n < 10000,
            "again": [rnd.choice(["sphere", "ball"]), rnd.randint(0, 60), rnd.random() < 0.3] if rnd.random() < 0.3 else None,
            # between the two requests the caller moves the centre object in place
            "shift": [rnd.choice([1, -2, 10]) for _ in range(3)] if rnd.random() < 0.5 else None,
            "clone": rnd.choice(["copy", "deepcopy", "pickle"]) if rnd.random() < 0.1 else None, "n_np": rnd.random() < 0.12}


def check_round(which, centre, c, r, n, pc, ctx, note="", n_np=False):
    from mouette import sampling
    f = sampling.sample_sphere if which == "sphere" else sampling.sample_ball
    what = f"sample_{which}(Vec{tuple(c)}, {r!r}, {n}, return_point_cloud={pc}){note}"
    ok, res = ctx.call(which + ":call", f, centre, r, np.int64(n) if n_np else n, return_point_cloud=pc)
    if not ok:
        return
    ctx.check(len(centre) == 3 and all(type(a) is type(b) and a == b for a, b in zip(centre.tolist(), c)), which + ":centre-mutated",
              f"{what}: the centre passed in is now {centre!r}")
    P = as_points(res, pc, ctx, which)
    if P is None:
        return
    if not ctx.check(P.shape == (n, 3), which + ":count", f"{what}: result of shape {P.shape}, expected ({n}, 3)"):
        return
    if n == 0:
        return
    C = np.array(c, dtype=float)
    ctx.check(bool(np.all(np.isfinite(P))), which + ":finite", f"{what}: non-finite coordinates")
    dist = np.linalg.norm(P - C, axis=1)
    slack = 1e-9 * r + 16 * EPS * float(np.max(np.abs(C)))       # second term: rounding of c + r*x when |c| >> r
    if which == "sphere":
        dev = np.abs(dist - r)
        k = int(np.argmax(dev))
        ctx.check(bool(dev[k] <= slack), "sphere:off-sphere",
                  f"{what}: point {P[k].tolist()} is at distance {dist[k]!r} from the centre, radius {r} (|d-r| = {dev[k]:.3e} > {slack:.3e})")
    else:
        k = int(np.argmax(dist))
        ctx.check(bool(dist[k] <= r + slack), "ball:outside",
                  f"{what}: point {P[k].tolist()} is at distance {dist[k]!r} > radius {r} from the centre "
                  f"({int((dist > r + slack).sum())} of {n} points outside)")


def fn_round(case, ctx):
    import mouette as M
    c, r, n, pc, which = case["center"], case["radius"], case["n"], case["pc"], case["which"]
    ctx.label(which, "r<1" if r < 1 else "r=1" if r == 1 else "r>1", "centre=0" if not any(c) else "centre!=0",
              "pc" if pc else "array", "n=0" if n == 0 else "n>0" if n < 1000 else "n>=1000" if n < 60000 else "n~2^16",
              "r~1" if r != 1 and abs(r - 1) < 1e-4 else "r-not-near-1", "r in 1e-3..1e3" if 1e-3 <= r <= 1e3 else "r extreme")
    if isinstance(c[0], int):
        ctx.label("int-centre")
    if isinstance(r, int):
        ctx.label("int-radius")
    ctx.nontrivial((r != 1 or any(c)) and n > 0)
    centre = M.Vec(*c)
    if case.get("clone"):
        ctx.label("clone=" + case["clone"])
        centre = clone_of(centre, case["clone"])
    if case.get("n_np"):
        ctx.label("numpy-int-count")
    check_round(which, centre, c, r, n, pc, ctx, n_np=bool(case.get("n_np")))
    if case.get("again"):
        # the same Vec object is the centre of a second request
        ctx.label("second-call")
        w2, n2, pc2 = case["again"]
        note = f" [second use of the centre object, after sample_{which}]"
        if case.get("shift"):
            ctx.label("centre-moved-in-place")
            sh = case["shift"] if isinstance(c[0], int) else [float(x) for x in case["shift"]]
            centre += np.array(sh)
            c = [a + b for a, b in zip(c, sh)]
            note = f" [second use of the centre object, after sample_{which} and `centre += {sh}`]"
        check_round(w2, centre, c, r, n2, pc2, ctx, note=note)


# =============================================================================================== polylines

SCALES = [-6, -3, -2, -1, 0, 0, 0, 1, 2, 3, 6]


def stretched(V, d, g=3.0):
    """stretch radially about the centroid by a factor 1/g .. g growing along the unit direction d (non-affine: length and area
    *ratios* change, also on planar meshes when d has an in-plane component)"""
    V = np.array(V, dtype=float)
    c = V.mean(axis=0)
    R = max(float(np.max(np.linalg.norm(V - c, axis=1))), 1e-300)
    return c + (V - c) * np.exp(math.log(g) * ((V - c) @ np.asarray(d)) / R)[:, None]


def nondegenerate(V, F):
    """boolean mask: faces whose doubled area exceeds 1e-12 x (longest side)^2"""
    V, F = np.asarray(V, dtype=float), np.asarray(F, dtype=int)
    A, B, C = V[F[:, 0]], V[F[:, 1]], V[F[:, 2]]
    dbl = np.linalg.norm(np.cross(B - A, C - A), axis=1)
    L2 = np.maximum(np.maximum(np.sum((B - A) ** 2, axis=1), np.sum((C - B) ** 2, axis=1)), np.sum((A - C) ** 2, axis=1))
    return dbl > 1e-12 * L2


def add_degenerate_faces(rnd, V, F):
    """1-to-3 split of a face (a,b,c) by a new vertex m placed ON the face's boundary: exactly at corner a (then (a,b,m) and (c,a,m) have
    exactly zero area and (b,c,m) is the old triangle) or at the midpoint of side ab ((a,b,m) is collinear).  Same surface as a point set,
    valid manifold connectivity; the three faces replace the old one in place, in a drawn order (degenerate faces are not last)."""
    V, F = [list(v) for v in V], [list(f) for f in F]
    k = rnd.randrange(len(F))
    f = F[k]
    r0 = rnd.randrange(3)
    a, b, c = f[r0], f[(r0 + 1) % 3], f[(r0 + 2) % 3]
    m = len(V)
    how = rnd.choice(["corner", "corner", "midpoint"])
    V.append(list(V[a]) if how == "corner" else [(x + y) / 2 for x, y in zip(V[a], V[b])])
    new = [[a, b, m], [b, c, m], [c, a, m]]
    rnd.shuffle(new)
    return V, F[:k] + new + F[k + 1:], "degenerate=" + how


def insert_unused_vertex(rnd, V, elems):
    """an isolated vertex (belongs to no edge / face) at id 0, a middle id or the last id; elements are renumbered"""
    V, where = [list(v) for v in V], rnd.choice(["first", "middle", "last"])
    k = {"first": 0, "middle": len(V) // 2, "last": len(V)}[where]
    a, b = V[rnd.randrange(len(V))], V[rnd.randrange(len(V))]
    V.insert(k, [(x + y) / 2 + (abs(x) + abs(y) + 1e-3) * 0.25 for x, y in zip(a, b)])
    return V, [[v + (v >= k) for v in e] for e in elems], "unused-vertex=" + where


def history_extras(rnd, V, F=None):
    """optional history of a mesh-sampling case (every geometry is stored in the case):
    V2       - the vertices are moved IN PLACE (component writes) to this geometry between the first and the second request
    recycle  - two other geometries of the same connectivity: a mesh is built on each, sampled, dropped and garbage collected before the
               mesh of the case is built (an id()-keyed cache would hand the data of a dead object to the new one at the same address)
    clone    - the mesh is sampled through copy.copy / copy.deepcopy / a pickle round trip of itself
    n_np     - the count is passed as numpy.int64"""
    out = {"V2": None, "recycle": None, "clone": None, "n_np": rnd.random() < 0.12}
    big = len(V) > 500
    if rnd.random() < 0.3:
        out["V2"] = stale_geometry(rnd, V, F, allow_dup=True)
    if rnd.random() < 0.05 and not big:
        g = [stale_geometry(rnd, V, F, allow_dup=True) for _ in range(2)]
        out["recycle"] = [x for x in g if x] or None
    if rnd.random() < 0.12:
        out["clone"] = rnd.choice(["copy", "deepcopy", "pickle"])
    return out


def clone_of(obj, how):
    return {"copy": copy.copy, "deepcopy": copy.deepcopy, "pickle": lambda x: pickle.loads(pickle.dumps(x))}[how](obj)


def move_in_place(mesh, V2):
    for i, p in enumerate(V2):
        for k in range(3):
            mesh.vertices[i][k] = float(p[k])


def add_zero_edge(rnd, V, E):
    """an extra vertex at the position of an existing one, joined to it by an (exactly) zero-length edge at a drawn place of the edge list"""
    V, E = [list(v) for v in V], [list(e) for e in E]
    a = rnd.randrange(len(V))
    V.append(list(V[a]))
    E.insert(rnd.randrange(len(E) + 1), [a, len(V) - 1] if rnd.random() < 0.5 else [len(V) - 1, a])
    return V, E


def stale_geometry(rnd, V, F=None, allow_dup=False):
    """An *earlier* geometry V0 of the same mesh (class 'cached-attr'): the case builds the mesh on V0, computes the persistent
    attributes a sampler could be tempted to reuse (edge 'length' / face 'area' / face 'normals'), then moves every vertex to V by
    rebinding mesh.vertices[i].  Samples, shares and normals must follow V.  Returns None when V0 would be degenerate."""
    A = np.array(V, dtype=float)
    # direction chosen inside the span of the point set, so that planar inputs are stretched in their plane
    c = A.mean(axis=0)
    w = np.array([rnd.gauss(0, 1) for _ in range(len(A))])
    d = (A - c).T @ w
    if not np.linalg.norm(d) > 0:
        return None
    d = d / np.linalg.norm(d)
    W = stretched(A, d, 4.0)
    # plus an anisotropic scaling about the centroid (changes the ratios between non-parallel edges / non-parallel faces)
    W = c + (W - c) * np.array([rnd.choice([0.4, 1.0, 2.5]) for _ in range(3)])
    if not np.all(np.isfinite(W)):
        return None
    if F is not None:
        keep = nondegenerate(V, F)                      # faces that are degenerate on purpose stay so (the map keeps coincidences)
        Fk = [f for f, k in zip(F, keep) if k]
        if Fk and G.min_angle_deg(W.tolist(), Fk) < 3.0:
            return None
    if not allow_dup and len(set(map(tuple, W.tolist()))) < len(W):
        return None
    return W.tolist()


STALE_NOTE = " [mesh built on an earlier geometry, persistent length/area/normals attributes computed there, vertices then moved]"


def build_mesh(case, kind, ctx, normals=False):
    """fresh mesh on case['V']; with case['V0']: built on V0, persistent attributes computed there, then every vertex rebound to V"""
    import mouette as M
    V0 = case.get("V0")
    first = V0 if V0 else case["V"]
    mesh = polyline_from(first, case["E"]) if kind == "polyline" else surface_from(first, case["F"])
    if not V0:
        ctx.label("fresh-mesh")
        return mesh
    ctx.label("cached-attr")
    if kind == "polyline":
        M.attributes.edge_length(mesh)                 # persistent by default: stores the edge attribute "length"
    else:
        M.attributes.face_area(mesh)                   # stores the face attribute "area"
        if normals:
            M.attributes.face_normals(mesh)            # stores the face attribute "normals"
            ctx.label("cached-normals")
    for i, p in enumerate(case["V"]):
        mesh.vertices[i] = M.Vec(float(p[0]), float(p[1]), float(p[2]))
    return mesh


@st.composite
def polylines(draw, mix, min_edges=1):
    n = max(draw(st.integers(2, 12)), mix.choice([2, 2, 3, 4, 5, 6, 8]))
    kind = mix.choice(["path", "cycle", "tree", "graph", "segments"])
    if mix.random() < 0.02 and min_edges == 1:                                            # (not in the 4000-draw share cases: too heavy)
        n, kind = mix.choice([1100, 1500]), mix.choice(["path", "cycle", "tree"])          # size regime: > 1000 edges
    rnd = np.random.RandomState(mix.randrange(2 ** 31))
    planar = mix.random() < 0.25
    pts = []
    seen = set()
    while len(pts) < n:                      # distinct nodes of a 1000^3 lattice in the unit cube: pairwise distance >= 1e-3
        p = tuple(int(x) for x in rnd.randint(0, 1001, 3))
        if planar:
            p = (p[0], p[1], 0)
        if p not in seen:
            seen.add(p); pts.append(p)
    if kind == "path" or (kind == "cycle" and n < 3):
        E = [(i, i + 1) for i in range(n - 1)]
    elif kind == "cycle":
        E = [(i, (i + 1) % n) for i in range(n)]
    elif kind == "tree":
        E = [(int(rnd.randint(0, i)), i) for i in range(1, n)]
    elif kind == "segments":
        E = [(2 * i, 2 * i + 1) for i in range(n // 2)]
    else:
        pairs = [(i, j) for i in range(n) for j in range(i)]
        rnd.shuffle(pairs)
        hi_e = min(len(pairs), 14)
        E = pairs[:int(rnd.randint(min(max(1, min_edges), hi_e), hi_e + 1))]
    if len(E) < min_edges:
        E = [(i, i + 1) for i in range(n - 1)]
        if len(E) < min_edges:
            pts.append((1001, 1001, 1001)); E.append((n - 1, n)); n += 1
    E = [[int(a), int(b)] if rnd.randint(2) else [int(b), int(a)] for a, b in E]
    order = mix.choice(["as-built", "shuffled", "shuffled", "reversed"])        # the edge list need not follow the vertex numbering
    if order == "shuffled":
        mix.shuffle(E)
    elif order == "reversed":
        E = E[::-1]
    s = 10.0 ** mix.choice(SCALES)
    off = s * mix.choice([0.0, 0.0, 1.0, -7.5, 100.0])
    V = [[sig6(x * 1e-3 * s + off) if off == 0 else float(x * 1e-3 * s + off) for x in p] for p in pts]
    tags = ["kind=" + kind, "planar" if planar else "spatial", "scale=%g" % s, "edge-order=" + order]
    if mix.random() < 0.25:
        V, E = add_zero_edge(mix, V, E)
        tags.append("zero-length-edge")
    if mix.random() < 0.2:
        V, E, t = insert_unused_vertex(mix, V, E)
        tags.append(t)
    return {"V": V, "E": E, "tags": tags + ["edges=%s" % (len(E) if len(E) < 3 else ">=3")]}


@st.composite
def polyline_case(draw):
    rnd = mixer(draw)
    p = draw(polylines(rnd))
    p.update({"n": draw_count(draw, rnd), "pc": rnd.random() < 0.3,
              "V0": stale_geometry(rnd, p["V"], allow_dup=True) if rnd.random() < 0.4 else None,
              "again": [rnd.randint(0, 80), rnd.random() < 0.3] if rnd.random() < 0.3 else None})
    p.update(history_extras(rnd, p["V"]))
    if len(p["E"]) > 1000:
        p["n"] = min(p["n"], 300)              # (the oracle is O(points x edges) in memory)
    return p


def seg_dist(P, A, B):
    """(n, m) distances from points P to segments [A_j, B_j]"""
    D = P[:, None, :] - A[None, :, :]
    d = (B - A)[None, :, :]
    t = np.clip(np.sum(D * d, axis=2) / np.maximum(np.sum(d * d, axis=2), 1e-300), 0.0, 1.0)
    return np.linalg.norm(D - t[:, :, None] * d, axis=2)


def history_labels(case, ctx):
    ctx.label("moved-in-place" if case.get("V2") else "not-moved")
    if case.get("recycle"):
        ctx.label("recycled-objects")
    if case.get("clone"):
        ctx.label("clone=" + case["clone"])
    if case.get("n_np"):
        ctx.label("numpy-int-count")


def mesh_snapshot(mesh):
    """what sampling must leave alone: coordinates, connectivity, and the names of the attributes stored on the mesh"""
    snap = {"V": coords(mesh).tolist(), "vattr": sorted(mesh.vertices.attributes)}
    if hasattr(mesh, "edges"):
        snap["E"] = [[int(x) for x in e] for e in mesh.edges]
        snap["eattr"] = sorted(mesh.edges.attributes)
    if hasattr(mesh, "faces"):
        snap["F"] = [[int(x) for x in f] for f in mesh.faces]
        snap["fattr"] = sorted(mesh.faces.attributes)
    return snap


def check_unchanged(mesh, snap, ctx, sig, what):
    now = mesh_snapshot(mesh)
    diff = [k for k in snap if snap[k] != now[k]]
    ctx.check(not diff, sig + ":mesh-mutated", f"{what}: the sampled mesh changed ({diff}: " +
              "; ".join(f"{k} {str(snap[k])[:80]} -> {str(now[k])[:80]}" for k in diff if k.endswith("attr")) + ")")


def check_polyline_sample(mesh, case, n, pc, ctx, note=""):
    from mouette import sampling
    V, E = np.array(case["V"], dtype=float), case["E"]
    what = f"sample_polyline(<{len(V)} vertices, edges {E}>, {n}, return_point_cloud={pc})" + STALE_NOTE * bool(case.get("V0")) + note
    snap = mesh_snapshot(mesh)
    ok, res = ctx.call("polyline:call", sampling.sample_polyline, mesh, np.int64(n) if case.get("n_np") else n, return_point_cloud=pc)
    if not ok:
        return
    check_unchanged(mesh, snap, ctx, "polyline", what)
    P = as_points(res, pc, ctx, "polyline")
    if P is None:
        return
    if not ctx.check(P.shape == (n, 3), "polyline:count", f"{what}: result of shape {P.shape}, expected ({n}, 3)"):
        return
    if n == 0:
        return
    ctx.check(bool(np.all(np.isfinite(P))), "polyline:finite", f"{what}: non-finite coordinates")
    EA = np.array(E, dtype=int)
    dist = seg_dist(P, V[EA[:, 0]], V[EA[:, 1]]).min(axis=1)
    tol = 1e-9 * float(np.max(np.abs(V)))
    k = int(np.argmax(dist))
    ctx.check(bool(dist[k] <= tol), "polyline:off-edge",
              f"{what}: point {P[k].tolist()} is at distance {dist[k]:.3e} (> {tol:.1e}) from the nearest edge")


def fn_polyline(case, ctx):
    E, n, pc = case["E"], case["n"], case["pc"]
    for t in case["tags"]:
        ctx.label(t)
    ctx.label("pc" if pc else "array", "n=0" if n == 0 else "n>0" if n < 1000 else "n>=1000", "edges>1000" if len(E) > 1000 else "edges<=1000")
    ctx.nontrivial(len(E) >= 2 and n > 0)
    history_labels(case, ctx)
    for g in case.get("recycle") or []:
        tmp_case = dict(case, V=g, V0=None)
        tmp = polyline_from(g, E)
        check_polyline_sample(tmp, tmp_case, 40, False, ctx, note=" [short-lived mesh, dropped and garbage collected before the next one is built]")
        del tmp
        gc.collect(1)           # the mesh <-> connectivity cycle is young: collecting generations 0-1 frees it (a full pass costs ~0.1 s)
    mesh = build_mesh(case, "polyline", ctx)
    if case.get("clone"):
        mesh = clone_of(mesh, case["clone"])
    check_polyline_sample(mesh, case, n, pc, ctx, note=f" [on a {case['clone']} of the mesh]" if case.get("clone") else "")
    if case.get("V2"):
        move_in_place(mesh, case["V2"])
        check_polyline_sample(mesh, dict(case, V=case["V2"], V0=None), max(n, 30) if n < 1000 else 60, pc, ctx,
                              note=" [second request, after every vertex of the same mesh object was moved in place]")
    if case.get("again") and not case.get("V2"):
        ctx.label("second-call")
        # an independent polyline is sampled in between (no state may be shared between mesh objects)
        other = {"V": [[100.0, 0.0, 0.0], [103.0, 0.0, 0.0], [103.0, 4.0, 0.0], [103.0, 4.0, 12.0]], "E": [[0, 1], [2, 1], [2, 3]]}
        check_polyline_sample(polyline_from(other["V"], other["E"]), other, 25, False, ctx, note=" [independent mesh sampled between two requests]")
        check_polyline_sample(mesh, case, case["again"][0], case["again"][1], ctx, note=" [second request on the same mesh object]")


# =============================================================================================== surfaces

@st.composite
def scaled_trisurf(draw, mix, max_faces=60, degenerate=True):
    s = draw(G.well_shaped_trisurf(max_faces=max_faces))
    if degenerate and mix.random() < 0.02:
        # size regime: > 1000 faces (regular grid of quads cut along a diagonal, bumped out of the plane)
        Vg, Fg = G.op_triangulate_all(*G.grid(mix.choice([24, 30]), mix.choice([22, 26])), mix.randrange(2))
        Vg = [[v[0], v[1], 0.3 * math.sin(0.4 * v[0]) * math.cos(0.3 * v[1])] for v in Vg]
        s = {"V": Vg, "F": [list(map(int, f)) for f in Fg], "tags": ["base=biggrid", "bordered", "big-mesh"]}
    k = 10.0 ** mix.choice(SCALES)
    off = k * np.array(mix.choice([[0.0, 0.0, 0.0], [0.0, 0.0, 0.0], [1.0, -2.0, 0.5], [30.0, 10.0, -20.0]]))
    V = (np.array(s["V"], dtype=float) * k + off).tolist()
    F, tags = s["F"], s["tags"] + ["scale=%g" % k]
    if degenerate and mix.random() < 0.25:
        for _ in range(mix.choice([1, 1, 2])):
            V, F, t = add_degenerate_faces(mix, V, F)
            tags = tags + [t]
        tags.append("degenerate-faces")
    if degenerate and mix.random() < 0.15:
        V, F, t = insert_unused_vertex(mix, V, F)
        tags.append(t)
    return {"V": V, "F": F, "tags": tags}


@st.composite
def surface_case(draw):
    rnd = mixer(draw)
    s = draw(scaled_trisurf(rnd))
    deg = "degenerate-faces" in s["tags"]
    # normals are only requested when every face has one (face_normals raises on a zero-area face: outside the property's domain)
    s.update({"n": draw_count(draw, rnd), "pc": rnd.random() < 0.5, "normals": rnd.random() < 0.6 and not deg,
              "V0": stale_geometry(rnd, s["V"], s["F"], allow_dup=True) if rnd.random() < 0.4 else None})
    s["again"] = [rnd.randint(0, 80), rnd.random() < 0.5, rnd.random() < 0.5 and not deg] if rnd.random() < 0.3 else None
    s.update(history_extras(rnd, s["V"], s["F"]))
    if len(s["F"]) > 1000:
        s["n"] = min(s["n"], 300)              # (the oracle is O(points x faces) in memory)
    return s


def tri_frames(V, F):
    """per-face frames; degenerate faces (see `nondegenerate`) get area 0 and contain no point: a sample on such a face (a segment or a
    point) is legitimate only if it also lies in a neighbouring proper face"""
    A, B, C = V[F[:, 0]], V[F[:, 1]], V[F[:, 2]]
    good = nondegenerate(V, F)
    N = np.cross(B - A, C - A)
    dbl = np.where(good, np.linalg.norm(N, axis=1), 0.0)
    Nu = np.where(good[:, None], N / np.where(good, dbl, 1.0)[:, None], 0.0)

    def unit(x):
        nx = np.linalg.norm(x, axis=1)
        return np.where(good[:, None], x / np.where(good, nx, 1.0)[:, None], 0.0)
    return {"A": A, "B": B, "C": C, "N": Nu, "area": dbl / 2, "good": good,
            "eAB": unit(np.cross(Nu, B - A)), "eBC": unit(np.cross(Nu, C - B)), "eCA": unit(np.cross(Nu, A - C))}


def insideness(P, fr):
    """(n, m): min over {signed in-plane distance to the three side lines (= barycentric coordinate x altitude), -|distance to the plane|};
    >= -tol  <=>  the point is in the (closed) triangle up to tol"""
    DA = P[:, None, :] - fr["A"][None]
    DB = P[:, None, :] - fr["B"][None]
    dpl = np.abs(np.einsum("nmk,mk->nm", DA, fr["N"]))
    s1 = np.einsum("nmk,mk->nm", DA, fr["eAB"])
    s2 = np.einsum("nmk,mk->nm", DB, fr["eBC"])
    s3 = np.einsum("nmk,mk->nm", DA, fr["eCA"])
    return np.where(fr["good"][None, :], np.minimum(np.minimum(s1, s2), np.minimum(s3, -dpl)), -np.inf)


def check_surface_sample(mesh, case, n, pc, wn, ctx, note=""):
    from mouette import sampling
    V, F = np.array(case["V"], dtype=float), np.array(case["F"], dtype=int)
    what = (f"sample_surface(<{len(V)} vertices, {len(F)} triangles>, {n}, return_point_cloud={pc}, return_normals={wn})"
            + STALE_NOTE * bool(case.get("V0")) + note)
    snap = mesh_snapshot(mesh)
    ok, res = ctx.call("surface:call", sampling.sample_surface, mesh, np.int64(n) if case.get("n_np") else n, return_point_cloud=pc, return_normals=wn)
    if not ok:
        return
    check_unchanged(mesh, snap, ctx, "surface", what)
    NRM = None
    if wn and not pc:
        if not ctx.check(isinstance(res, tuple) and len(res) == 2, "surface:type", f"{what}: expected (points, normals), got {type(res).__name__}"):
            return
        res, NRM = res
    P = as_points(res, pc, ctx, "surface")
    if P is None:
        return
    if not ctx.check(P.shape == (n, 3), "surface:count", f"{what}: result of shape {P.shape}, expected ({n}, 3)"):
        return
    if wn and pc:
        if not ctx.check(res.vertices.has_attribute("normals"), "surface:normals-missing", f"{what}: point cloud has no 'normals' attribute"):
            return
        att = res.vertices.get_attribute("normals")
        ok, NRM = ctx.call("surface:normals-read", lambda: np.array([np.asarray(att[i], dtype=float) for i in range(n)], dtype=float).reshape(n, 3))
        if not ok:
            return
    if n == 0:
        return
    if NRM is not None:
        NRM = np.asarray(NRM, dtype=float)
        if not ctx.check(NRM.shape == (n, 3), "surface:normals-shape", f"{what}: normals of shape {NRM.shape}, expected ({n}, 3)"):
            return
    ctx.check(bool(np.all(np.isfinite(P))), "surface:finite", f"{what}: non-finite coordinates")
    fr = tri_frames(V, F)
    tol = 1e-9 * float(np.max(np.abs(V)))
    ins = insideness(P, fr)
    best = ins.max(axis=1)
    k = int(np.argmin(best))
    if not ctx.check(bool(best[k] >= -tol), "surface:off-face",
                     f"{what}: point {P[k].tolist()} is in no face of positive area (closest: face {int(np.argmax(ins[k]))}, outside by {-best[k]:.3e} > {tol:.1e}; "
                     f"zero-area faces: {np.flatnonzero(~fr['good']).tolist()})"):
        return
    if NRM is not None:
        match = (np.abs(NRM[:, None, :] - fr["N"][None]).max(axis=2) <= 1e-9) & (ins >= -tol)
        bad = ~match.any(axis=1)
        if bad.any():
            k = int(np.argmax(bad))
            f = int(np.argmax(ins[k]))
            ctx.check(False, "surface:normal", f"{what}: point #{k} {P[k].tolist()} lies in face {f} with unit normal {fr['N'][f].tolist()} "
                                               f"but carries normal {NRM[k].tolist()} ({int(bad.sum())} of {n} points)")
        else:
            ctx.check(True, "surface:normal")


def fn_surface(case, ctx):
    F, n, pc, wn = case["F"], case["n"], case["pc"], case["normals"]
    for t in case["tags"]:
        if t.startswith(("base=", "scale=", "closed", "bordered", "degenerate", "big-mesh", "unused-vertex")):
            ctx.label(t)
    ctx.label("pc" if pc else "array", "normals" if wn else "no-normals", "n=0" if n == 0 else "n>0" if n < 1000 else "n>=1000")
    ctx.nontrivial(len(F) >= 2 and n > 0)
    history_labels(case, ctx)
    for g in case.get("recycle") or []:
        tmp_case = dict(case, V=g, V0=None)
        tmp = surface_from(g, F)
        check_surface_sample(tmp, tmp_case, 40, False, wn, ctx, note=" [short-lived mesh, dropped and garbage collected before the next one is built]")
        del tmp
        gc.collect(1)           # the mesh <-> connectivity cycle is young: collecting generations 0-1 frees it (a full pass costs ~0.1 s)
    mesh = build_mesh(case, "surface", ctx, normals=wn or bool(case.get("again") and case["again"][2]))
    if case.get("clone"):
        mesh = clone_of(mesh, case["clone"])
    check_surface_sample(mesh, case, n, pc, wn, ctx, note=f" [on a {case['clone']} of the mesh]" if case.get("clone") else "")
    if case.get("V2"):
        move_in_place(mesh, case["V2"])
        check_surface_sample(mesh, dict(case, V=case["V2"], V0=None), max(n, 30) if n < 1000 else 60, pc, wn, ctx,
                             note=" [second request, after every vertex of the same mesh object was moved in place]")
    if case.get("again") and not case.get("V2"):
        ctx.label("second-call")
        n2, pc2, wn2 = case["again"]
        other = {"V": [[100.0, 0.0, 0.0], [104.0, 0.0, 0.0], [100.0, 3.0, 0.0], [104.0, 3.0, 5.0]], "F": [[0, 1, 2], [1, 3, 2]]}
        check_surface_sample(surface_from(other["V"], other["F"]), other, 25, False, True, ctx, note=" [independent mesh sampled between two requests]")
        check_surface_sample(mesh, case, n2, pc2, wn2, ctx, note=" [second request on the same mesh object]")


# =============================================================================================== statistical sub-checks

N_STAT = 4000


@st.composite
def stat_case(draw, kind):
    rnd = mixer(draw)
    if kind == "polyline":
        p = draw(polylines(rnd, min_edges=2))
    else:
        p = draw(scaled_trisurf(rnd, max_faces=40, degenerate=False))
        if len(p["F"]) < 2:                   # a share test needs two faces: split the single triangle at its centroid
            p["V"], p["F"] = G.op_tri_1to3(p["V"], p["F"], 0)
        if rnd.random() < 0.7:
            # unequal face areas: stretch radially about the centroid by a factor 1/3 .. 3 growing along a drawn direction
            d = np.array([rnd.gauss(0, 1) for _ in range(3)]); d /= np.linalg.norm(d)
            W = stretched(p["V"], d, 3.0)
            if G.min_angle_deg(W.tolist(), p["F"]) >= 3.0:
                p["V"] = W.tolist()
                p["tags"] = p["tags"] + ["stretched"]
        if rnd.random() < 0.4:                  # zero-area faces in the middle of the face list: share 0, the others keep their area share
            for _ in range(rnd.choice([1, 1, 2])):
                p["V"], p["F"], t = add_degenerate_faces(rnd, p["V"], p["F"])
            p["tags"] = p["tags"] + ["degenerate-faces"]
    p["kind"] = kind
    p["V0"] = None
    if rnd.random() < 0.5:
        for _ in range(4):                      # the degeneracy guard rejects some stretches of already stretched surfaces: retry
            p["V0"] = stale_geometry(rnd, p["V"], p.get("F"), allow_dup=True)
            if p["V0"]:
                break
    p["salt"] = rnd.randrange(10 ** 6)       # only varies the seed derived from the case
    p["clone"] = rnd.choice(["copy", "deepcopy", "pickle"]) if rnd.random() < 0.15 else None
    return p


def fn_stat(case, ctx):
    from mouette import sampling
    V = np.array(case["V"], dtype=float)
    tol = 1e-9 * float(np.max(np.abs(V)))
    ctx.label(case["kind"])
    if case["kind"] == "polyline":
        E = np.array(case["E"], dtype=int)
        mesh = build_mesh(case, "polyline", ctx)
        if case.get("clone"):
            mesh = clone_of(mesh, case["clone"]); ctx.label("clone=" + case["clone"])
        ok, P = ctx.call("stat:call", sampling.sample_polyline, mesh, N_STAT)
        if not ok:
            return
        P = np.asarray(P, dtype=float)
        if not ctx.check(P.shape == (N_STAT, 3), "stat:count", f"sample_polyline returned shape {P.shape}"):
            return
        dist = seg_dist(P, V[E[:, 0]], V[E[:, 1]])
        near = dist <= tol
        owner = dist.argmin(axis=1)
        weight = np.linalg.norm(V[E[:, 0]] - V[E[:, 1]], axis=1)
        name = "edge"
    else:
        F = np.array(case["F"], dtype=int)
        mesh = build_mesh(case, "surface", ctx)
        if case.get("clone"):
            mesh = clone_of(mesh, case["clone"]); ctx.label("clone=" + case["clone"])
        ok, P = ctx.call("stat:call", sampling.sample_surface, mesh, N_STAT)
        if not ok:
            return
        P = np.asarray(P, dtype=float)
        if not ctx.check(P.shape == (N_STAT, 3), "stat:count", f"sample_surface returned shape {P.shape}"):
            return
        fr = tri_frames(V, F)
        ins = insideness(P, fr)
        near = ins >= -tol
        owner = ins.argmax(axis=1)
        weight = fr["area"]
        name = "face"
    m = len(weight)
    if not ctx.check(bool(near.any(axis=1).all()), "stat:off-domain", f"{int((~near.any(axis=1)).sum())} of {N_STAT} samples lie on no {name}"):
        return
    if int((near.sum(axis=1) > 1).sum()) > 5:
        ctx.discard("stat: overlapping elements (attribution ambiguous)")
        return
    share = weight / weight.sum()
    counts = np.bincount(owner, minlength=m)
    ctx.label("m=%s" % (m if m < 3 else "3-9" if m < 10 else ">=10"))
    uneven = float(share.max() / share[share > 0].min()) >= 2.0
    ctx.label("uneven" if uneven else "even")
    for t in case.get("tags", []):
        if t in ("degenerate-faces", "zero-length-edge") or t.startswith(("edge-order=", "unused-vertex", "kind=")):
            ctx.label(t)
    if (share == 0).any():
        ctx.label("zero-share-not-last" if share[-1] > 0 else "zero-share-last")
    ctx.nontrivial(m >= 2 and uneven)
    alpha = 1e-8 / (2 * m)
    for j in range(m):
        p = float(share[j])
        sigma = math.sqrt(N_STAT * p * (1 - p))
        ctx.check(binom_ok(int(counts[j]), N_STAT, p, alpha), "stat:share",
                  STALE_NOTE * bool(case.get("V0")) +
                  f"{name} {j} has {name == 'edge' and 'length' or 'area'} share {p:.4f} (expected {N_STAT * p:.1f} of {N_STAT} samples, sigma {sigma:.1f}) "
                  f"but received {int(counts[j])} samples ({(counts[j] - N_STAT * p) / max(sigma, 1e-12):+.1f} sigma; binomial tail < {alpha:.1e}); "
                  f"all counts {counts.tolist()} vs expected {[round(N_STAT * float(x), 1) for x in share]}")


@st.composite
def stat_ball_case(draw):
    rnd = mixer(draw)
    return {"center": draw_center(draw, rnd), "radius": draw_radius(draw, rnd), "salt": rnd.randrange(10 ** 6)}


def fn_stat_ball(case, ctx):
    """docstring: 'Samples points uniformly inside a 3D ball' => P(|p-c| <= rho) = (rho/r)^3; tested at the three quartile radii"""
    import mouette as M
    from mouette import sampling
    c, r = case["center"], case["radius"]
    ctx.label("r<1" if r < 1 else "r=1" if r == 1 else "r>1")
    ctx.nontrivial(r != 1)
    ok, P = ctx.call("stat_ball:call", sampling.sample_ball, M.Vec(*c), r, N_STAT)
    if not ok:
        return
    P = np.asarray(P, dtype=float)
    if not ctx.check(P.shape == (N_STAT, 3), "stat_ball:count", f"sample_ball returned shape {P.shape}"):
        return
    dist = np.linalg.norm(P - np.array(c, dtype=float), axis=1)
    alpha = 1e-8 / 6
    for q in (0.25, 0.5, 0.75):
        rho = r * q ** (1.0 / 3.0)
        k = int((dist <= rho).sum())
        sigma = math.sqrt(N_STAT * q * (1 - q))
        ctx.check(binom_ok(k, N_STAT, q, alpha), "stat_ball:radial-law",
                  f"sample_ball(Vec{tuple(c)}, {r}, {N_STAT}): {k} samples within {rho:.6g} = r*{q}^(1/3) of the centre, a uniform ball gives "
                  f"{N_STAT * q:.0f} +- {sigma:.1f} ({(k - N_STAT * q) / sigma:+.1f} sigma); max distance {dist.max():.6g}, radius {r}")


# =============================================================================================== Bezier

T_IN = st.one_of(st.sampled_from([0.0, 1.0, 0.5, 0.25, 0.75, 0, 1, 1e-9, 1 - 1e-9, 5e-324, 2.220446049250313e-16, 0.9999999999999999,
                                  0.5000000000000001, 8e-6, 0.999992]),
                 st.floats(0.0, 1.0, allow_nan=False).map(sig6))
T_OUT = st.one_of(st.sampled_from([-1e-9, 1.000000001, -1.0, 2.0, -0.5, 1.5, -1, 2, float("nan"), float("inf"), float("-inf"), 1e300, -1e-300,
                                   1.0000000000000002, -5e-324]),
                  st.floats(1.0, 10.0, exclude_min=True), st.floats(-10.0, 0.0, exclude_max=True).filter(lambda x: x < 0))


def control_net(rnd, shape):
    """control points from the PRNG: small integers / unit box / log-uniform magnitudes / the latter around a far offset"""
    dim = rnd.choice([2, 3])
    style = rnd.choice(["int", "int", "unit", "log", "log-offset", "tiny", "huge"])
    off = [rslog(rnd) for _ in range(dim)] if style == "log-offset" else [0.0] * dim

    def point():
        if style == "int":
            return [float(rnd.randint(-6, 6)) for _ in range(dim)]
        if style == "unit":
            return [sig6(rnd.uniform(-1, 1)) for _ in range(dim)]
        if style in ("tiny", "huge"):           # uniformly scaled nets: every tolerance is relative to the scale of the control points
            return [sig6(rnd.uniform(-1, 1) * (1e-6 if style == "tiny" else 1e6)) for _ in range(dim)]
        return [sig6(off[k] + rslog(rnd)) for k in range(dim)]
    if len(shape) == 1:
        return [point() for _ in range(shape[0])], style, point
    return [[point() for _ in range(shape[1])] for _ in range(shape[0])], style, point


CTORS = ["list", "numpy", "vec", "generator"]

# parameters outside [0,1] as plain values (drawn through the case PRNG; never rounded, so that they stay outside)
T_OUT_VALUES = [-1e-9, 1.000000001, -1.0, 2.0, -0.5, 1.5, -1, 2, float("nan"), float("inf"), float("-inf"), 1e300, -1e-300,
                1.0000000000000002, -5e-324, 1.001, -0.25, 3, -3.0, 4.0]
T_IN_VALUES = [0.0, 1.0, 0.5, 0.25, 0.75, 0, 1, 1e-9, 1 - 1e-9, 0.9999999999999999, 0.125, 1 / 3]
CUSTOM_FORMS = ["list", "list", "tuple", "numpy", "generator", "numpy-scalars"]


def outside(t):
    """the statement's 'parameter outside [0,1]' (nan included: it is not inside)"""
    return not (0.0 <= t <= 1.0)


def rnd_out(rnd):
    c = rnd.random()
    if c < 0.6:
        return rnd.choice(T_OUT_VALUES)
    x = 10.0 ** rnd.uniform(-9.0, 1.0)           # distance beyond the end: 1e-9 .. 10
    t = 1.0 + x if c < 0.8 else -x
    assert outside(t)
    return t


def rnd_in(rnd):
    return rnd.choice(T_IN_VALUES) if rnd.random() < 0.5 else sig6(rnd.random())


def bad_params(rnd, max_good=5):
    """a parameter sequence of which at least one entry (first / middle / last / several / all) lies outside [0,1]"""
    where = rnd.choice(["first", "middle", "last", "last", "several", "all"])
    n = rnd.randint(1, max_good + 1) if where != "middle" else rnd.randint(3, max_good + 1)
    ts = sorted(rnd_in(rnd) for _ in range(n)) if rnd.random() < 0.6 else [rnd_in(rnd) for _ in range(n)]
    idx = {"first": [0], "last": [n - 1], "middle": [rnd.randrange(1, max(n - 1, 2))], "all": list(range(n)),
           "several": sorted(set(rnd.randrange(n) for _ in range(2)))}[where]
    for i in idx:
        ts[i] = rnd_out(rnd)
    return {"ts": ts, "where": where, "form": rnd.choice(CUSTOM_FORMS), "n_pts": rnd.choice(["default", "len", "len"])}


def param_container(ts, form):
    """the caller's container of curve parameters (custom_pos): any iterable of numbers"""
    if form == "tuple":
        return tuple(ts)
    if form == "numpy":
        return np.array(ts, dtype=float)
    if form == "generator":
        return (t for t in ts)                   # one-shot iterable
    if form == "numpy-scalars":
        return [np.int64(t) if isinstance(t, int) else np.float64(t) for t in ts]
    return list(ts)


@st.composite
def curve_case(draw):
    rnd = mixer(draw)
    deg = rnd.choice([0, 1, 2, 3, 4, 5, 6, draw(st.integers(0, 6))])
    c = rnd.random()
    if c < 0.015:
        deg = rnd.choice([16, 17, 18, 32, 33, 64, 66])         # degree regime: around 2**4, 2**5, 2**6
    elif c < 0.03:
        deg = rnd.choice([67, 68, 70, 100])                    # C(67,33) > 2**63: binomials no longer fit a 64-bit integer
    P, style, point = control_net(rnd, (deg + 1,))
    custom, custom_order = None, "sorted"
    if rnd.random() < 0.35:
        custom = sorted(draw(st.lists(T_IN, min_size=2, max_size=9)))
        custom_order = rnd.choice(["sorted", "sorted", "reversed", "shuffled", "repeated"])
        if custom_order == "reversed":
            custom.reverse()
        elif custom_order == "shuffled":
            rnd.shuffle(custom)
        elif custom_order == "repeated":        # the same parameter twice in a row: two vertices at the same place, still a chain
            k = rnd.randrange(len(custom))
            custom.insert(k, custom[k])
    custom_opts = {"order": custom_order, "form": rnd.choice(CUSTOM_FORMS), "n_pts": rnd.choice(["default", "len", "len"])}
    # parameter sequences with entries outside [0,1] handed to the export (custom_pos): have to be rejected like evaluate() rejects them
    custom_bad = [bad_params(rnd) for _ in range(rnd.choice([1, 1, 2]))] if rnd.random() < 0.5 else []
    ts = [sig6(rnd.random()) for _ in range(rnd.randint(1, 3))]
    if deg > 16:                                # (each evaluation costs deg^2/2 vector operations)
        return {"P": P, "style": style, "ts_in": ts[:2] + draw(st.lists(T_IN, max_size=1)), "ts_out": [], "n": rnd.randint(2, 4), "n_again": 2,
                "custom": None, "custom_opts": custom_opts, "custom_bad": custom_bad[:1], "direct": rnd.random() < 0.3,
                "dir_seed": rnd.randrange(10 ** 6), "ctor": rnd.choice(CTORS + ["numpy-int"] * (style == "int")),
                "edits": [[rnd.randrange(deg + 1), point(), "rebind"]] if rnd.random() < 0.3 else None, "t_np": False, "clone": None, "recycle": False}
    return {"P": P, "style": style, "ts_in": ts + draw(st.lists(T_IN, max_size=4)), "ts_out": draw(st.lists(T_OUT, max_size=3)),
            "n": rnd.randint(2, 9), "n_again": rnd.choice([100, 101, 150]) if rnd.random() < 0.04 else rnd.randint(2, 9),
            "custom": custom, "custom_opts": custom_opts, "custom_bad": custom_bad, "direct": rnd.random() < 0.3,
            "dir_seed": rnd.randrange(10 ** 6),
            "ctor": rnd.choice(CTORS + ["numpy-int", "vec-int"] * (style == "int")),
            # history: control points of the already evaluated / exported curve are edited, then everything is asked again
            "edits": [[rnd.randrange(deg + 1), point(), rnd.choice(["rebind", "in-place"])] for _ in range(rnd.choice([1, 1, 2]))]
                     if rnd.random() < 0.5 else None,
            "t_np": rnd.random() < 0.15, "clone": rnd.choice(["copy", "deepcopy", "pickle"]) if rnd.random() < 0.15 else None,
            "recycle": rnd.random() < 0.12}


def directions(seed, dim):
    rnd = np.random.RandomState(seed)
    D = rnd.normal(size=(8, dim))
    D[0] = 0.0; D[0, 0] = 1.0                       # one axis direction is always included
    return D / np.linalg.norm(D, axis=1)[:, None]


def vec_of(x, dim, ctx, sig, what):
    """library value -> float array of `dim` components (validated)"""
    try:
        a = np.asarray(x, dtype=float).reshape(-1)
    except Exception:
        ctx.fail(sig + ":type", f"{what} returned {x!r}")
        return None
    if not ctx.check(a.shape == (dim,), sig + ":type", f"{what} returned {a.tolist()} ({a.size} components, expected {dim})"):
        return None
    return a


def in_hull_support(val, CP, D, slack):
    """min_i <d,P_i> - slack <= <d,val> <= max_i <d,P_i> + slack for each direction"""
    pr = CP @ D.T                     # (n_ctrl, 8)
    x = val @ D.T
    return bool(np.all(x >= pr.min(axis=0) - slack) and np.all(x <= pr.max(axis=0) + slack))


def fn_curve(case, ctx):
    import mouette as M
    from mouette.splines import BezierCurve
    from mouette.utils.argument_check import InvalidRangeArgumentError
    P = np.array(case["P"], dtype=float)
    deg, dim = P.shape[0] - 1, P.shape[1]
    scale = max(float(np.max(np.abs(P))), 1e-300)
    D = directions(case["dir_seed"], dim)
    ctor = {"list": lambda: [list(p) for p in case["P"]], "numpy": lambda: np.array(case["P"], dtype=float),
            "vec": lambda: [M.Vec(*p) for p in case["P"]], "numpy-int": lambda: np.array(case["P"]).astype(int),
            "vec-int": lambda: [M.Vec(*[int(x) for x in p]) for p in case["P"]],
            "generator": lambda: (list(p) for p in case["P"])}[case["ctor"]]           # one-shot iterable
    ctx.label("deg=%d" % deg if deg <= 6 else "deg=16..66" if deg <= 66 else "deg>=67", "dim=%d" % dim, "style=" + case["style"],
              "custom" if case["custom"] else "linspace", "ctor=" + case["ctor"])
    ctx.nontrivial(deg >= 2)
    npt = (lambda t: (np.int64(t) if isinstance(t, int) else np.float64(t))) if case.get("t_np") else (lambda t: t)
    if case.get("t_np"):
        ctx.label("numpy-parameter")
    if case.get("recycle"):
        # short-lived objects of the same shape, dropped and garbage collected before the curve of the case is built
        ctx.label("recycled-objects")
        for Q in (P[::-1] * 0.5 + 1.0, -2.0 * P - 3.0):
            tmp = BezierCurve([list(q) for q in Q])
            for t in case["ts_in"][:2]:
                ok, val = ctx.call("curve:evaluate", tmp.evaluate, t)
                if ok:
                    ctx.check(ctx.close(np.asarray(val, dtype=float), RB.curve(Q, t), 1e-12, 2.0 * scale + 3.0), "curve:bernstein",
                              f"short-lived curve with control points {Q.tolist()}: evaluate({t!r}) = {val}")
            del tmp                                     # no reference cycle: freed at once, its address can be reused by the next object
    arg = ctor()
    curve = BezierCurve(arg)
    ctx.check(curve.order == deg, "curve:order", f"order = {curve.order!r} for {deg + 1} control points")

    def read_points():
        return np.array([np.asarray(x, dtype=float).reshape(-1) for x in curve.pts], dtype=float)

    def evaluate(t, tag, garble=False):
        nonlocal P, scale
        ok, raw = ctx.call("curve:evaluate", curve.evaluate, npt(t))
        if not ok:
            return None
        val = vec_of(raw, dim, ctx, "curve:evaluate", f"evaluate({t!r})")
        if val is None:
            return None
        ref = RB.curve(P, t)
        ctx.check(ctx.close(val, ref, 1e-12, scale), "curve:bernstein",
                  f"degree {deg} control points {P.tolist()}: evaluate({t!r}) = {val.tolist()}, Bernstein form gives {ref.tolist()} ({tag})")
        ctx.check(in_hull_support(val, P, D, 1e-9 * scale), "curve:hull",
                  f"control points {P.tolist()}: evaluate({t!r}) = {val.tolist()} leaves the support interval of the control points along a direction")
        if garble and isinstance(raw, np.ndarray):
            # the caller overwrites the array it was handed; whatever that array aliases, later answers must still be the Bernstein form of
            # the control points as the object reports them afterwards
            raw *= -3
            raw += 7
            P = read_points()
            scale = max(float(np.max(np.abs(P))), 1e-300)
        return val

    for t in case["ts_in"]:
        evaluate(t, "drawn parameter")
    v0, v1 = evaluate(0.0, "t=0"), evaluate(1.0, "t=1")
    if v0 is not None:
        ctx.check(ctx.close(v0, P[0], 1e-12, scale), "curve:endpoint", f"evaluate(0) = {v0.tolist()} but the first control point is {P[0].tolist()}")
    if v1 is not None:
        ctx.check(ctx.close(v1, P[-1], 1e-12, scale), "curve:endpoint", f"evaluate(1) = {v1.tolist()} but the last control point is {P[-1].tolist()}")
    for t in case["ts_out"]:
        ctx.label("out-of-range")
        expect_raises(ctx, "curve:range", (InvalidRangeArgumentError,), f"evaluate({npt(t)!r}) outside [0,1]", curve.evaluate, npt(t))
    if case.get("direct"):
        # the documented module-level evaluator (docstring: returns B_P(t), raises InvalidRangeArgumentError outside [0,1]) called directly
        import mouette.splines.bezier as bezier_module
        dc = getattr(bezier_module, "de_casteljau", None)
        if dc is not None:
            ctx.label("de_casteljau-direct")
            for t in case["ts_in"][:2]:
                ok, raw = ctx.call("curve:de_casteljau", dc, [M.Vec(*p) for p in P.tolist()], npt(t))
                val = vec_of(raw, dim, ctx, "curve:de_casteljau", f"de_casteljau(P, {t!r})") if ok else None
                if val is not None:
                    ctx.check(ctx.close(val, RB.curve(P, t), 1e-12, scale), "curve:bernstein",
                              f"de_casteljau({P.tolist()}, {t!r}) = {val.tolist()}, Bernstein form gives {RB.curve(P, t).tolist()}")
            for t in case["ts_out"][:2]:
                expect_raises(ctx, "curve:range", (InvalidRangeArgumentError,), f"de_casteljau(P, {npt(t)!r}) outside [0,1]", dc,
                              [M.Vec(*p) for p in P.tolist()], npt(t))

    copts = case.get("custom_opts") or {"order": "sorted", "form": "list", "n_pts": "default"}

    def export(custom, n_req, note=""):
        if custom:
            ts = [float(t) for t in custom]
            kw = {"n_pts": len(custom)} if copts["n_pts"] == "len" else {}
            ok, pl = ctx.call("curve:as_polyline", curve.as_polyline, custom_pos=param_container(custom, copts["form"]), **kw)
            what = f"as_polyline({'n_pts=%d, ' % len(custom) if kw else ''}custom_pos={custom} as {copts['form']}){note}"
        else:
            ts = np.linspace(0, 1, n_req).tolist()
            ok, pl = ctx.call("curve:as_polyline", curve.as_polyline, n_req)
            what = f"as_polyline({n_req}){note}"
        if not ok:
            return
        n = len(ts)
        if not ctx.check(isinstance(pl, M.mesh.PolyLine), "curve:polyline-type", f"{what} returned {type(pl).__name__}"):
            return
        if not ctx.check(len(pl.vertices) == n, "curve:polyline-vertices", f"{what} (degree {deg}, dim {dim}): {len(pl.vertices)} vertices, expected {n}"):
            return
        edges = [tuple(int(x) for x in e) for e in pl.edges]
        ctx.check(edges == [(i, i + 1) for i in range(n - 1)], "curve:polyline-edges", f"{what}: edges {edges}, expected the chain 0-1-...-{n - 1}")
        X = coords(pl)
        ref = np.zeros((n, 3))
        ref[:, :dim] = np.array([RB.curve(P, t) for t in ts])
        bad = np.abs(X - ref).max(axis=1) > 1e-12 * scale
        ctx.check(not bad.any(), "curve:polyline-positions",
                  f"{what}: vertex {int(np.argmax(bad))} = {X[int(np.argmax(bad))].tolist()}, curve at t={ts[int(np.argmax(bad))]} is {ref[int(np.argmax(bad))].tolist()}")
        if ctx.check(pl.vertices.has_attribute("t"), "curve:polyline-attr", f"{what}: no vertex attribute 't'"):
            att = pl.vertices.get_attribute("t")
            got = [float(att[i]) for i in range(n)]
            ctx.check(ctx.close(got, ts, 1e-15, 1.0), "curve:polyline-attr", f"{what}: attribute t = {got}, expected {ts}")

    def export_rejected(bad, note=""):
        """a parameter outside [0,1] is rejected whichever way it reaches the curve: through custom_pos the export must not hand back a polyline
        (the kind of exception is not specified for the export; evaluate's is InvalidRangeArgumentError)"""
        ts = bad["ts"]
        out = [t for t in ts if outside(t)]
        assert out, bad
        ctx.label("custom-out-of-range", "custom-out@" + bad["where"], "custom-bad-form=" + bad["form"], "custom-bad-n_pts=" + bad["n_pts"])
        if all(t == t and -1e-6 <= t <= 1.0 + 1e-6 for t in out):
            ctx.label("custom-out-by<1e-6")
        kw = {"n_pts": len(ts)} if bad["n_pts"] == "len" else {}
        expect_raises(ctx, "curve:custom-range", (Exception,),
                      f"as_polyline({'n_pts=%d, ' % len(ts) if kw else ''}custom_pos={ts} as {bad['form']}) with {out} outside [0,1]{note}",
                      curve.as_polyline, custom_pos=param_container(ts, bad["form"]), **kw)

    if case["custom"]:
        ctx.label("custom-order=" + copts["order"], "custom-form=" + copts["form"], "custom-n_pts=" + copts["n_pts"])
    export(case["custom"], case["n"])
    for bad in case.get("custom_bad") or []:
        export_rejected(bad)
    # (the export that follows also shows that a rejected request leaves the curve usable)
    export(None, case.get("n_again", 3), " [second export of the same curve object]")
    # the control points (the object's and the caller's) are left alone by evaluation and export
    now = np.array([np.asarray(x, dtype=float).reshape(-1) for x in curve.pts], dtype=float)
    ctx.check(now.shape == P.shape and bool(np.all(now == P)), "curve:control-points-mutated", f"control points {case['P']} became {now.tolist()}")
    if case["ctor"] != "generator":
        ctx.check(bool(np.all(np.asarray(arg, dtype=float) == P)), "curve:argument-mutated", f"the control point argument {case['P']} became {np.asarray(arg, dtype=float).tolist()}")

    if case.get("clone"):
        ctx.label("clone=" + case["clone"])
        twin, original = clone_of(curve, case["clone"]), curve
        curve = twin                                    # (the closures above now talk to the clone)
        for t in case["ts_in"]:
            evaluate(t, f"on a {case['clone']} of the curve object")
        export(None, case["n"], f" [on a {case['clone']} of the curve object]")
        if case["clone"] == "copy":
            curve = original

    # ---- history: the same object after its control points were edited (and after another curve object was used in between)
    if case.get("edits"):
        ctx.label("edited-net")
        other = BezierCurve([list(p) for p in (P[::-1] * 0.5 + 1.0)])
        for t in case["ts_in"][:2]:
            ok, val = ctx.call("curve:evaluate", other.evaluate, t)
            if ok:
                ctx.check(ctx.close(np.asarray(val, dtype=float), RB.curve(P[::-1] * 0.5 + 1.0, t), 1e-12, max(scale, 1.0)), "curve:bernstein",
                          f"second, independent curve object: evaluate({t!r}) = {val}")
        expected = P.copy()
        for i, new, how in case["edits"]:
            typed = [int(x) for x in new] if case["ctor"] in ("numpy-int", "vec-int") else [float(x) for x in new]
            if how == "rebind":
                curve.pts[i] = M.Vec(*typed)
            else:
                for k, x in enumerate(typed):
                    curve.pts[i][k] = x
            expected[i] = new
        P = read_points()
        scale = max(float(np.max(np.abs(P))), 1e-300)
        if not ctx.check(P.shape == expected.shape and bool(np.all(P == expected)), "curve:edit-not-visible",
                         f"after the edits {case['edits']} the object reports the control points {P.tolist()}, expected {expected.tolist()}"):
            return
        stage = f"after the edits {case['edits']} of the already evaluated and exported curve"
        for t in case["ts_in"]:
            evaluate(t, stage)
        export(None, case["n"], f" [{stage}]")
        if case["custom"]:
            export(case["custom"], case["n"], f" [{stage}]")
        for bad in (case.get("custom_bad") or [])[:1]:
            export_rejected(bad, f" [{stage}]")
        for t in list(case["ts_in"]) + [0.0, 1.0, 0.0]:
            evaluate(t, stage + ", returned arrays overwritten by the caller", garble=True)
        v0, v1 = evaluate(0.0, stage), evaluate(1.0, stage)
        if v0 is not None:
            ctx.check(ctx.close(v0, P[0], 1e-12, scale), "curve:endpoint", f"{stage}: evaluate(0) = {v0.tolist()} but the first control point is {P[0].tolist()}")
        if v1 is not None:
            ctx.check(ctx.close(v1, P[-1], 1e-12, scale), "curve:endpoint", f"{stage}: evaluate(1) = {v1.tolist()} but the last control point is {P[-1].tolist()}")


@st.composite
def patch_case(draw):
    rnd = mixer(draw)
    m, n = rnd.randint(0, 4), rnd.randint(0, 4)
    high = rnd.random() < 0.025
    if high:                                    # degree regime in one direction of the net (see curve_case)
        m, n = rnd.choice([(67, 0), (0, 68), (17, 1), (1, 17), (68, 1), (1, 70), (33, 2)])
    P, style, point = control_net(rnd, (m + 1, n + 1))
    n1 = rnd.randint(2, 9)
    n2 = n1 if rnd.random() < 0.2 else rnd.randint(2, 9)
    if high:
        n1, n2 = rnd.randint(2, 4), rnd.randint(2, 4)
    elif rnd.random() < 0.03:                   # size regime: a resolution well above the documented default of 20
        n1, n2 = rnd.choice([(24, 3), (3, 25), (21, 22)])
    uv = [[sig6(rnd.random()), sig6(rnd.random())] for _ in range(rnd.randint(1, 3))]
    if high:
        return {"P": P, "style": style, "uv_in": uv[:2], "uv_out": [], "n1": n1, "n2": n2, "dir_seed": rnd.randrange(10 ** 6),
                "ctor": rnd.choice(CTORS), "edits": None, "t_np": False, "clone": None, "recycle": False}
    return {"P": P, "style": style, "uv_in": uv + draw(st.lists(st.tuples(T_IN, T_IN).map(list), max_size=3)),
            "uv_out": draw(st.lists(st.one_of(st.tuples(T_OUT, T_IN), st.tuples(T_IN, T_OUT), st.tuples(T_OUT, T_OUT)).map(list), max_size=3)),
            "n1": n1, "n2": n2, "dir_seed": rnd.randrange(10 ** 6),
            "ctor": rnd.choice(CTORS + ["numpy-int", "vec-int"] * (style == "int")),
            "edits": [[rnd.randrange(m + 1), rnd.randrange(n + 1), point(), rnd.choice(["rebind", "in-place"])] for _ in range(rnd.choice([1, 1, 2]))]
                     if rnd.random() < 0.5 else None,
            "t_np": rnd.random() < 0.15, "clone": rnd.choice(["copy", "deepcopy", "pickle"]) if rnd.random() < 0.15 else None,
            "recycle": rnd.random() < 0.12}


def fn_patch(case, ctx):
    import mouette as M
    from mouette.splines import BezierPatch
    from mouette.utils.argument_check import InvalidRangeArgumentError
    P = np.array(case["P"], dtype=float)                       # (m+1, n+1, dim)
    m, n, dim = P.shape[0] - 1, P.shape[1] - 1, P.shape[2]
    n1, n2 = case["n1"], case["n2"]
    scale = max(float(np.max(np.abs(P))), 1e-300)
    flat = P.reshape(-1, dim)
    D = directions(case["dir_seed"], dim)
    ctor = {"list": lambda: [[list(p) for p in row] for row in case["P"]], "numpy": lambda: np.array(case["P"], dtype=float),
            "vec": lambda: [[M.Vec(*p) for p in row] for row in case["P"]], "numpy-int": lambda: np.array(case["P"]).astype(int),
            "vec-int": lambda: [[M.Vec(*[int(x) for x in p]) for p in row] for row in case["P"]],
            "generator": lambda: ((list(p) for p in row) for row in case["P"])}[case["ctor"]]        # one-shot iterables
    ctx.label("deg=%dx%d" % (m, n) if max(m, n) < 2 else "deg>=2", "dim=%d" % dim, "style=" + case["style"],
              "n1=n2" if n1 == n2 else "n1<n2" if n1 < n2 else "n1>n2", "square-net" if m == n else "rect-net")
    ctx.nontrivial(n1 != n2)
    ctx.label("ctor=" + case["ctor"], "high-degree" if max(m, n) > 16 else "deg<=4")
    npt = (lambda t: (np.int64(t) if isinstance(t, int) else np.float64(t))) if case.get("t_np") else (lambda t: t)
    if case.get("t_np"):
        ctx.label("numpy-parameter")
    if case.get("recycle"):
        ctx.label("recycled-objects")
        for Q in (P[::-1, ::-1] * 0.5 + 1.0, -2.0 * P - 3.0):
            tmp = BezierPatch([[list(q) for q in row] for row in Q])
            for u, v in case["uv_in"][:2]:
                ok, val = ctx.call("patch:evaluate", tmp.evaluate, u, v)
                if ok:
                    ctx.check(ctx.close(np.asarray(val, dtype=float), RB.patch(Q, u, v), 1e-12, 2.0 * scale + 3.0), "patch:bernstein",
                              f"short-lived patch with control net {Q.tolist()}: evaluate({u!r},{v!r}) = {val}")
            del tmp
    arg = ctor()
    patch = BezierPatch(arg)
    ctx.check(tuple(patch.order) == (m, n), "patch:order", f"order = {patch.order!r} for a {m + 1} x {n + 1} control net")

    def read_net():
        return np.array([[np.asarray(x, dtype=float).reshape(-1) for x in row] for row in patch.pts], dtype=float)

    def refresh():
        nonlocal P, scale, flat
        P = read_net()
        scale = max(float(np.max(np.abs(P))), 1e-300)
        flat = P.reshape(-1, dim)

    def evaluate(u, v, tag, garble=False):
        ok, raw = ctx.call("patch:evaluate", patch.evaluate, npt(u), npt(v))
        if not ok:
            return None
        val = vec_of(raw, dim, ctx, "patch:evaluate", f"evaluate({u!r},{v!r})")
        if val is None:
            return None
        ref = RB.patch(P, u, v)
        ctx.check(ctx.close(val, ref, 1e-12, scale), "patch:bernstein",
                  f"{m}x{n} control net {P.tolist()}: evaluate({u!r},{v!r}) = {val.tolist()}, Bernstein form gives {ref.tolist()} ({tag})")
        ctx.check(in_hull_support(val, flat, D, 1e-9 * scale), "patch:hull",
                  f"control net {P.tolist()}: evaluate({u!r},{v!r}) = {val.tolist()} leaves the support interval of the control points along a direction")
        if garble and isinstance(raw, np.ndarray):
            raw *= -3            # the caller overwrites the array it was handed (see fn_curve)
            raw += 7
            refresh()
        return val

    for u, v in case["uv_in"]:
        evaluate(u, v, "drawn parameters")
    for (u, v, i, j) in ((0.0, 0.0, 0, 0), (1.0, 0.0, 0, n), (0.0, 1.0, m, 0), (1.0, 1.0, m, n)):
        val = evaluate(u, v, "corner")
        if val is not None:
            ctx.check(ctx.close(val, P[i, j], 1e-12, scale), "patch:corner", f"evaluate({u},{v}) = {val.tolist()} but the corner control point [{i}][{j}] is {P[i, j].tolist()}")
    for u, v in case["uv_out"]:
        ctx.label("out-of-range")
        expect_raises(ctx, "patch:range", (InvalidRangeArgumentError,), f"evaluate({npt(u)!r},{npt(v)!r}) outside [0,1]^2", patch.evaluate, npt(u), npt(v))

    def export(n1, n2, note=""):
        what = f"as_surface({n1},{n2}) of a {m}x{n} patch{note}"
        ok, S = ctx.call("patch:as_surface", patch.as_surface, n1, n2)
        if not ok:
            return
        if not ctx.check(isinstance(S, M.mesh.SurfaceMesh), "patch:surface-type", f"{what} returned {type(S).__name__}"):
            return
        nv = len(S.vertices)
        if not ctx.check(nv == n1 * n2, "patch:surface-vertices", f"{what}: {nv} vertices, expected {n1 * n2}"):
            return
        if not ctx.check(S.vertices.has_attribute("uv_coords"), "patch:surface-uv", f"{what}: no vertex attribute 'uv_coords'"):
            return
        att = S.vertices.get_attribute("uv_coords")
        ok, UV = ctx.call("patch:surface-uv", lambda: np.array([np.asarray(att[k], dtype=float).reshape(2) for k in range(nv)], dtype=float))
        if not ok:
            return
        U, Vp = np.linspace(0, 1, n1), np.linspace(0, 1, n2)
        I = np.rint(UV[:, 0] * (n1 - 1)).astype(int)
        J = np.rint(UV[:, 1] * (n2 - 1)).astype(int)
        ongrid = (I >= 0) & (I < n1) & (J >= 0) & (J < n2)
        ongrid &= (np.abs(UV[:, 0] - U[np.clip(I, 0, n1 - 1)]) <= 1e-12) & (np.abs(UV[:, 1] - Vp[np.clip(J, 0, n2 - 1)]) <= 1e-12)
        if not ctx.check(bool(ongrid.all()), "patch:surface-uv", f"{what}: uv_coords {UV[~ongrid][:3].tolist()} are not nodes of linspace(0,1,{n1}) x linspace(0,1,{n2})"):
            return
        ctx.check(len(set(zip(I.tolist(), J.tolist()))) == nv, "patch:surface-uv", f"{what}: some parameter pair appears on several vertices")
        for k in range(nv):
            x = np.asarray(S.vertices[k], dtype=float).reshape(-1)
            ref = RB.patch(P, UV[k, 0], UV[k, 1])
            good = x.size in (dim, 3) and ctx.close(x[:dim], ref, 1e-12, scale) and bool(np.all(x[dim:] == 0))
            if not ctx.check(good, "patch:surface-positions", f"{what}: vertex {k} = {x.tolist()} but the patch at its uv_coords {UV[k].tolist()} is {ref.tolist()}"):
                return
        faces = [[int(x) for x in f] for f in S.faces]
        if not ctx.check(len(faces) == (n1 - 1) * (n2 - 1), "patch:surface-faces", f"{what}: {len(faces)} faces, expected {(n1 - 1) * (n2 - 1)}"):
            return
        cells = set()
        for f in faces:
            if not ctx.check(len(f) == 4 and all(0 <= x < nv for x in f), "patch:face-index-range",
                             f"{what}: face {f} is not a quad with indices in [0,{nv}) (all faces: {faces[:12]}{'...' if len(faces) > 12 else ''})"):
                return
            ij = [(int(I[x]), int(J[x])) for x in f]
            i0, j0 = min(a for a, _ in ij), min(b for _, b in ij)
            ring = [(i0, j0), (i0, j0 + 1), (i0 + 1, j0 + 1), (i0 + 1, j0)]
            k0 = ij.index(ring[0]) if ring[0] in ij else 0
            rot = ij[k0:] + ij[:k0]
            isring = rot == ring or rot == [ring[0]] + ring[:0:-1]
            if not ctx.check(isring, "patch:face-not-a-grid-cell",
                             f"{what}: face {f} joins the grid nodes (i,j) = {ij} (uv {[UV[x].tolist() for x in f]}), which is not the boundary of one cell "
                             f"[i,i+1]x[j,j+1] of the {n1}x{n2} parameter grid"):
                return
            cells.add((i0, j0))
        ctx.check(len(cells) == len(faces), "patch:face-duplicate", f"{what}: only {len(cells)} distinct grid cells among {len(faces)} faces")

    export(n1, n2)
    export(n2, n1, " [second export of the same patch object, resolutions swapped]")
    now = np.array([[np.asarray(x, dtype=float).reshape(-1) for x in row] for row in patch.pts], dtype=float)
    ctx.check(now.shape == P.shape and bool(np.all(now == P)), "patch:control-points-mutated", f"control net {case['P']} became {now.tolist()}")
    if case["ctor"] != "generator":
        ctx.check(bool(np.all(np.asarray(arg, dtype=float) == P)), "patch:argument-mutated", f"the control net argument {case['P']} became {np.asarray(arg, dtype=float).tolist()}")

    if case.get("clone"):
        ctx.label("clone=" + case["clone"])
        twin, original = clone_of(patch, case["clone"]), patch
        patch = twin                                    # (the closures above now talk to the clone)
        for u, v in case["uv_in"]:
            evaluate(u, v, f"on a {case['clone']} of the patch object")
        export(n1, n2, f" [on a {case['clone']} of the patch object]")
        if case["clone"] == "copy":
            patch = original

    # ---- history: the same object after its control points were edited (and after another patch object was used in between)
    if case.get("edits"):
        ctx.label("edited-net")
        Q = P[::-1, ::-1] * 0.5 + 1.0
        other = BezierPatch([[list(p) for p in row] for row in Q])
        for u, v in case["uv_in"][:2]:
            ok, val = ctx.call("patch:evaluate", other.evaluate, u, v)
            if ok:
                ctx.check(ctx.close(np.asarray(val, dtype=float), RB.patch(Q, u, v), 1e-12, max(scale, 1.0)), "patch:bernstein",
                          f"second, independent patch object: evaluate({u!r},{v!r}) = {val}")
        expected = P.copy()
        for i, j, new, how in case["edits"]:
            typed = [int(x) for x in new] if case["ctor"] in ("numpy-int", "vec-int") else [float(x) for x in new]
            if how == "rebind":
                patch.pts[i][j] = M.Vec(*typed)
            else:
                for k, x in enumerate(typed):
                    patch.pts[i][j][k] = x
            expected[i, j] = new
        refresh()
        if not ctx.check(P.shape == expected.shape and bool(np.all(P == expected)), "patch:edit-not-visible",
                         f"after the edits {case['edits']} the object reports the control net {P.tolist()}, expected {expected.tolist()}"):
            return
        stage = f"after the edits {case['edits']} of the already evaluated and exported patch"
        corners = ((0.0, 0.0, 0, 0), (1.0, 0.0, 0, n), (0.0, 1.0, m, 0), (1.0, 1.0, m, n))
        for u, v in case["uv_in"]:
            evaluate(u, v, stage)
        for (u, v, i, j) in corners:
            val = evaluate(u, v, stage + ", corner")
            if val is not None:
                ctx.check(ctx.close(val, P[i, j], 1e-12, scale), "patch:corner",
                          f"{stage}: evaluate({u},{v}) = {val.tolist()} but the corner control point [{i}][{j}] is {P[i, j].tolist()}")
        export(n1, n2, f" [{stage}]")
        for u, v in [tuple(x) for x in case["uv_in"]] + [(c[0], c[1]) for c in corners] + [(0.0, 0.0)]:
            evaluate(u, v, stage + ", returned arrays overwritten by the caller", garble=True)
        for u, v in case["uv_in"]:
            evaluate(u, v, stage + ", after the caller overwrote returned arrays")


# =============================================================================================== registration

def self_test():
    RB.self_test()
    assert [grid_resolution(n, d) for n, d in [(0, 3), (1, 5), (2, 2), (3, 2), (5, 3), (4, 3), (400, 2), (400, 3), (400, 4), (400, 5), (343, 3), (6, 2), (7, 2)]] == \
        [0, 1, 1, 2, 2, 2, 20, 7, 4, 3, 7, 2, 3]
    V = np.array([[0, 0, 0], [1, 0, 0], [0, 1, 0], [1, 1, 1]], dtype=float)
    fr = tri_frames(V, np.array([[0, 1, 2], [1, 3, 2]]))
    ins = insideness(np.array([[0.25, 0.25, 0.0], [0.25, 0.25, 0.1], [-0.1, 0.2, 0.0], [2 / 3, 2 / 3, 1 / 3]]), fr)
    assert abs(ins[0, 0]) < 1e-15 and abs(ins[1, 0] + 0.1) < 1e-12 and abs(ins[2, 0] + 0.1) < 1e-12 and abs(ins[3, 1]) < 1e-15 and ins[3, 0] < -0.3 and ins[0, 1] < -0.2
    assert np.allclose(fr["N"][0], [0, 0, 1]) and np.allclose(fr["area"][0], 0.5)
    d = seg_dist(np.array([[0.5, 1.0, 0.0], [2.0, 0.0, 0.0]]), V[[0]], V[[1]])
    assert np.allclose(d[:, 0], [1.0, 1.0])
    assert binom_ok(1000, 4000, 0.25, 1e-9) and not binom_ok(1200, 4000, 0.25, 1e-9) and not binom_ok(800, 4000, 0.25, 1e-9)
    assert binom_ok(0, 4000, 1e-4, 1e-9) and not binom_ok(12, 4000, 1e-4, 1e-9)


BAD_MODES = st.fixed_dictionaries({"d": st.integers(1, 3), "mode": st.sampled_from(["Uniform", "random", "", "regular", "GRID", 0, None])})

SUBCHECKS = [
    SubCheck("box", box_case(), fn_box, quick=3000, thorough=8000),
    SubCheck("box_bad_mode", BAD_MODES, fn_box_mode, quick=16, thorough=30),
    SubCheck("sphere_ball", round_case(), fn_round, quick=3000, thorough=8000),
    SubCheck("polyline", polyline_case(), fn_polyline, quick=1500, thorough=4000),
    SubCheck("surface", surface_case(), fn_surface, quick=1200, thorough=3000),
    # statistical sub-checks: few cases on purpose (each case has a false-alarm probability < 1e-8)
    SubCheck("stat_share_polyline", stat_case("polyline"), fn_stat, quick=48, thorough=60),
    SubCheck("stat_share_surface", stat_case("surface"), fn_stat, quick=48, thorough=60),
    SubCheck("stat_ball_radial", stat_ball_case(), fn_stat_ball, quick=48, thorough=60),
    SubCheck("bezier_curve", curve_case(), fn_curve, quick=2500, thorough=6000),
    SubCheck("bezier_patch", patch_case(), fn_patch, quick=1500, thorough=4000),
]

MATCHERS = {}
