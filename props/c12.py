"""C12 - geometric primitives and boxes obey their algebra, with no side effects."""
import math
import cmath
import copy
import pickle
from fractions import Fraction as Fr
import numpy as np
from hypothesis import strategies as st, assume
from vlib.runner import SubCheck

PROPERTY = "C12"
RULE = ("Laws: generated boxes of dimension 1-4 (normal / point / flat / inverted; coordinates small integers, dyadic rationals "
        "or general floats; second box drawn partly from the first one's coordinates so that touching / nested / disjoint pairs "
        "occur), query points built per coordinate from {min face, max face, centre, below, above, random}, point clouds with "
        "padding; 2D/3D vectors and triangles incl. zero, duplicate, parallel and collinear ones; angles incl. multiples of pi/2, "
        "tiny and large values; complex numbers incl. 0. Exact modes (int/dyadic) are compared with fractions.Fraction arithmetic "
        "bit for bit, float mode with a tolerance relative to the magnitude of the terms. Conditioned laws (cotan, circumcentre, "
        "signed-angle antisymmetry, line intersection) are asserted only when the case passes an exact (Fraction) "
        "well-conditioning predicate; the rest is labelled 'degenerate' and only the universal laws are asserted. "
        "Classes added after seeded misses: points carrying an integer type (int64 array / int Vec / list or tuple of Python ints) "
        "against boxes with fractional corners (one case in four; every query on a point receives the same argument object, which is "
        "compared with its snapshot; the returned projection must realise the returned distance); uniform power-of-two scales "
        "2^-20..2^20 of boxes, vectors and triangles (exact modes stay exact, tolerances are relative); integer-typed Vec inputs of the "
        "triangle / angle functions; every law call goes through a wrapper asserting its arguments and numpy.geterr() unchanged. "
        "Third round: every law call returning a container (array, list, tuple of arrays, box) is followed by an in-place change of that "
        "result by its owner (overwrite / append / pad) and an identical second call, which must give the first answer again with "
        "unchanged arguments (results that are an argument, a cached object or internal state fail; documented numpy views of an array "
        "argument are not scribbled on); nested / equal box pairs (3 in 10); clouds of 1500-4000 points (1 in 5). In the histories each "
        "box a step returns is a handle of its own, so a pad of one handle that changes another handle is reported even when the "
        "library returned the same object twice; macros pad the result of a union / intersection of nested, equal or identical boxes. "
        "Fifth round: augmented assignment (b |= o, b &= o) in the laws (value, the arrays the box was built from, a box built from its "
        "corners and the other operand unchanged; accumulation over the rows of one caller array starting from AABB(row, row)) and as "
        "history op 'box.iop' (the handle is rebound to the result, nothing else may change) with macros on boxes wrapping caller "
        "arrays / sibling boxes / one array used for both corners; copy.copy / deepcopy / pickle of a box; queries through one buffer "
        "overwritten in place; planar (2-coordinate) points: a function that answers for them must agree with the same points "
        "embedded in z=0 and keep angle_3pts in [0,pi] (raising is accepted as 'unsupported'), about 1 case in 8 straddles the negative "
        "x axis; Python-int angles / coefficients; rotation axes within 1e-6 of unit length. "
        "Sixth round (sub-check sharp_laws): the ill-conditioned end of the angle / triangle primitives. Corners ABC whose angle is within "
        "2^-7 .. 2^-43 * 1/30 (about 1e-2 .. 1e-13 rad, log-uniform) of 0 or of pi: arms k*u+e_a and +-(k'*u+e_c) with u an integer vector of "
        "full 7..43-bit mantissas ('full'), a short arm against a long one ('lever'), arms along a coordinate axis ('axis', most products "
        "vanish); spatial or planar (one coordinate of both arms zero); all points are integers < 2^47 times one power of two 2^s, s in "
        "{0, -q (arms of length O(1), offsets of 1e-3..1e-13), -10, -20, -43, -70, 20, 60}, so that A-B, C-B are exact in floating point and "
        "every reference (dot, cross, circumcentre, line intersection) is a rational number evaluated with fractions.Fraction. Asserted with "
        "tolerances equal to the first-order conditioning of each quantity times a safety factor (K_ANG, K_COT, K_CC; measured margin of the "
        "library >= 30): angle_3pts / angle_2vec3D / angle_2vec2D / signed angles to 32 eps absolute (range, symmetry, antisymmetry, sign = "
        "sign of the exact (V1xV2).N whenever that exceeds the rounding of the cross product, normal flip, signed_angle_3pts), cotan(A,B,C) "
        "and cotan(C,B,A) to a relative 32 eps / sin(angle) against exact cos/sin and to twice that against 1/tan(angle_3pts), triangle_area "
        "to 32 eps * (longest edge)^2, the circumcentre of the thin triangle ABC (every argument rotation) within 64 eps (R + |coords|) / "
        "sin(smallest angle) of the exact rational circumcentre and equidistant within twice that, intersect_2lines2D of two near-parallel "
        "lines within 64 eps * (|p1|+|p2|+distances to the intersection) / sin. maths_laws: angles of magnitude 1e4 .. 1e12 (log-uniform, "
        "multiples of pi/2 up to 1e6 pi, multiples of 2pi up to 1e11 and their float neighbours; one pair in four is a large pair with a "
        "difference <= 7), congruence judged in exact arithmetic modulo the float 2pi with a slack of k*(2pi - float(2pi)) (accepts "
        "reductions modulo the real 2pi) plus the half-ulp roundings of the additions. non-trivial (sharp_laws): angle within 1e-6 of 0 / pi. "
        "Lengths that a result does not depend on: the plane normal of project_to_plane and the axis of rotate_around_axis are multiplied "
        "by 2^-30 / 2^-70 / 2^40 (3 cases in 8); uniform scales 2^-70 and 2^60 of the vector and angle laws (1 case in 6). "
        "Side effects: an operation history (2-25 ops over AABB.*, Vec.*, geometry.*, rotations.*, maths.* and a harness-level "
        "numpy.seterr change), arguments either fresh literals (list/tuple/float array/int array/Vec) or references to arrays "
        "and boxes created earlier in the same history (so boxes share caller arrays and other boxes' corners); about one op in "
        "six is designed to raise. After every call all tracked arrays, boxes and the mesh are compared bytewise with their "
        "snapshot, numpy.geterr() with its previous value. non-trivial: (laws) the case is in the asserted, well-conditioned "
        "class of its sub-check; (history) a raising call is followed by at least one further call. distinct = distinct "
        "realised cases.")
ASSUMPTIONS = ["coordinates are finite floats of magnitude <= 1e3 x a uniform scale in [2^-20, 2^20] (boxes, triangles) or [2^-70, 2^60] (vectors, angles, "
               "near-degenerate corners): no overflow / underflow of a product is probed; "
               "integer-typed inputs have magnitude <= 4096 (no int64 overflow of cubic expressions is probed)",
               "triangle functions are asserted for edge lengths >= 1e-4 (circumcenter inherits the absolute 1e-12 parallelism threshold "
               "of intersect_2lines2D and fails below a size of about 1e-6: observed, not asserted)",
               "empty (inverted) boxes: only union containment, intersection = componentwise overlap, do_intersect and is_empty "
               "are asserted; projection / distance onto an empty set are not defined and not asserted",
               "Vec(ndarray) is a numpy view (documented: 'inherits from a numpy array'): in-place Vec methods (normalize, x/y/z "
               "setters) may change every array that shares memory with the receiver; AABB has value semantics: pad may change the "
               "receiver box only",
               "scalar padding is given as a float (docstring: 'float | iterable')",
               "shape_laws: intersect_2lines2D / circumcenter have a 1e-12 parallelism threshold: asserted for directions of norm in "
               "[1e-2, 1e3] that are not near-parallel (near-parallel lines and thin triangles: sharp_laws)",
               "axis_rot_from_z is asserted off the antiparallel direction (v within 1e-6 of -Z is labelled, not asserted)",
               "sharp_laws: circumcenter and intersect_2lines2D are asserted when the sine of the (smallest) angle is >= 1e-10: below its 1e-12 "
               "parallelism threshold (relative to the direction lengths) intersect_2lines2D documents None and circumcenter raises - labelled, "
               "not asserted; cotan is asserted while 32 eps / sin(angle) <= 1/4 (angles down to about 3e-14 rad; none smaller is generated); "
               "a correct evaluation is taken to be backward stable up to a factor 32-64 (an acos-based angle, which loses half the digits "
               "near 0 and pi, would be reported)",
               "principal_angle / angle_diff: |arguments| <= 1e12; a result congruent modulo either the float or the real 2pi is accepted"]

EPS = 2.0 ** -52


# =============================================================================================== generic helpers
def F(x):
    return Fr(float(x))


def fv(v):
    return [Fr(float(x)) for x in v]


def fdot(a, b):
    return sum((x * y for x, y in zip(a, b)), Fr(0))


def fsub(a, b):
    return [x - y for x, y in zip(a, b)]


def fcross(a, b):
    return [a[1] * b[2] - a[2] * b[1], a[2] * b[0] - a[0] * b[2], a[0] * b[1] - a[1] * b[0]]


def fdet2(a, b):
    return a[0] * b[1] - a[1] * b[0]


def fdet3(a, b, c):
    return fdot(a, fcross(b, c))


def fsqrt(q):
    """sqrt of a non-negative Fraction as float, accurate to a few ulp even for huge/tiny values"""
    if q <= 0:
        return 0.0
    n, d = q.numerator, q.denominator
    # scale to keep precision: sqrt(n/d) = isqrt(n*d*4^k) / (d*2^k)
    k = 64
    return math.isqrt(n * d << (2 * k)) / (d << k)


def fnorm(v, which="l2"):
    if which == "l2":
        return fsqrt(fdot(v, v))
    if which == "l1":
        return sum((abs(x) for x in v), Fr(0))
    return max((abs(x) for x in v), default=Fr(0))


def real(x):
    """float value of something that should be a real scalar, else None"""
    try:
        if isinstance(x, (bool, np.bool_, str, bytes, complex)) or x is None:
            return None
        a = np.asarray(x)
        if a.shape != () or a.dtype.kind not in "fiu":
            return None
        return float(a)
    except Exception:
        return None


def vec_of(x, n):
    """1-D float array of size n of something that should be a vector, else None"""
    try:
        a = np.asarray(x)
        if a.shape != (n,) or a.dtype.kind not in "fiu":
            return None
        return a.astype(float)
    except Exception:
        return None


def gcall(ctx, sig, f, *a, pure=True, **kw):
    """ctx.call + the side-effect oracle of the property on this single call: every argument object is bytewise unchanged and
    numpy's error configuration is as before, whether the call returned or raised"""
    snaps = [snap(x) for x in a]
    err = np.geterr()
    ok, val = ctx.call(sig, f, *a, **kw)
    after = np.geterr()
    if after != err:
        np.seterr(**err)
        ctx.check(False, "side-effect:numpy-errstate", f"{sig}: numpy.geterr() was {err}, is {after}")
    for i, (x, sn) in enumerate(zip(a, snaps)):
        ctx.check(snap(x) == sn, "side-effect:argument", f"{sig}: argument {i} is now {show(x)}")
    if not ok or not pure or not is_mutable_result(val):
        return ok, val
    # a returned container belongs to the caller: change it in place, then the same call must give the same answer again and the
    # arguments must still be what they were (a result that is an argument / a cached object / internal state fails here)
    first = snap(val)
    arg_arrays = [x for x in a if isinstance(x, np.ndarray)]
    if not scribble(val, arg_arrays):
        return ok, val
    for i, (x, sn) in enumerate(zip(a, snaps)):
        ctx.check(snap(x) == sn, "side-effect:result-aliases-argument", f"{sig}: changing the returned object in place changed argument {i} to {show(x)}")
    ok2, val2 = ctx.call(sig, f, *a, **kw)
    if ok2:
        ctx.check(snap(val2) == first, "side-effect:result-aliases-state",
                  f"{sig}: after the first result was changed in place by its owner, the same call returns {show(val2)} instead of the first answer")
    return ok2, val2


def is_box(o):
    return type(o).__name__ == "AABB" and hasattr(o, "pad")


def is_mutable_result(v):
    if isinstance(v, np.ndarray):
        return v.ndim >= 1 and v.size > 0
    if is_box(v):
        return True
    if isinstance(v, list):
        return True
    if isinstance(v, tuple):
        return any(is_mutable_result(x) for x in v)
    return False


def scribble(v, arg_arrays):
    """change a returned object in place the way its owner may; False if nothing could be changed (e.g. documented view of an argument)"""
    if isinstance(v, np.ndarray):
        if not v.flags.writeable or any(np.shares_memory(v, x) for x in arg_arrays):
            return False              # Vec(ndarray) / 'pt is its own projection' are views of the argument (numpy semantics, see ASSUMPTIONS)
        try:
            v[...] = 7 if v.dtype.kind in "iu" else True if v.dtype.kind == "b" else 12345.678
        except Exception:
            return False
        return True
    if is_box(v):
        try:
            v.pad(1.0)
        except Exception:
            return False
        return True
    if isinstance(v, list):
        v.append("scribble")
        return True
    if isinstance(v, tuple):
        return any([scribble(x, arg_arrays) for x in v if is_mutable_result(x)])
    return False


def make(vals, form):
    """fresh argument object of the given form from a list of numbers"""
    from mouette.geometry import Vec
    if form in ("list", "mixlist"):
        return [float(x) for x in vals]
    if form == "tuple":
        return tuple(float(x) for x in vals)
    integral = all(float(x) == int(x) and abs(x) <= 4096 for x in vals)      # no int64 overflow of cubic expressions is probed
    if form == "ilist":
        return [int(x) for x in vals] if integral else [float(x) for x in vals]
    if form == "ituple":
        return tuple(int(x) for x in vals) if integral else tuple(float(x) for x in vals)
    if form == "i8" and integral:
        return np.array([int(x) for x in vals], dtype=np.int64)
    if form == "ivec" and integral:
        return Vec([int(x) for x in vals])
    if form in ("vec", "ivec"):
        return Vec([float(x) for x in vals])
    return np.array([float(x) for x in vals], dtype=float)


def coord(mode):
    if mode == "int":
        return st.integers(-6, 6).map(float)
    if mode == "dyadic":
        return st.integers(-48, 48).map(lambda k: k / 8.0)
    chop = lambda x: 0.0 if abs(x) < 1e-9 else x           # no underflow of products is probed
    return st.one_of(st.floats(min_value=-100, max_value=100, allow_nan=False, allow_infinity=False, width=64).map(chop),
                     st.integers(-3, 3).map(float),
                     st.floats(min_value=-1e-3, max_value=1e-3, allow_nan=False, allow_infinity=False, width=64).map(chop))


MODES = ["int", "int", "dyadic", "float", "float"]
FORMS = ["list", "tuple", "f8", "f8", "vec", "vec", "i8", "ivec", "ilist", "ituple"]
INT_FORMS = ["i8", "ivec", "ilist", "ituple"]
SCALES = [1.0] * 6 + [2.0 ** -10, 2.0 ** -20, 2.0 ** 10, 2.0 ** 20]          # powers of two: exact modes stay exact
VSCALES = SCALES + [2.0 ** -70, 2.0 ** 60]                                     # vectors / angles: also far from 1 (no product under- or overflows)


def is_int_typed(o):
    """does the argument object carry an integer type (numpy int dtype or only Python ints)"""
    if isinstance(o, np.ndarray):
        return o.dtype.kind in "iu"
    return isinstance(o, (list, tuple)) and len(o) > 0 and all(isinstance(x, int) for x in o)


def scaled(x, s):
    if isinstance(x, list):
        return [scaled(y, s) for y in x]
    return x * s if isinstance(x, float) else x


def vec_st(mode, n):
    return st.lists(coord(mode), min_size=n, max_size=n)


# =============================================================================================== 1. AABB laws
@st.composite
def box_st(draw, mode, dim, pool=None):
    kind = draw(st.sampled_from(["normal"] * 5 + ["point", "flat", "inverted", "inverted"]))
    c = coord(mode) if not pool else st.one_of(coord(mode), st.sampled_from(pool))
    lo = [draw(c) for _ in range(dim)]
    if kind == "point":
        return [lo, list(lo)]
    hi = [draw(c) for _ in range(dim)]
    for i in range(dim):
        a, b = min(lo[i], hi[i]), max(lo[i], hi[i])
        if a == b:
            b = a + 1.0
        lo[i], hi[i] = a, b
    if kind == "flat":
        j = draw(st.integers(0, dim - 1))
        hi[j] = lo[j]
    if kind == "inverted":
        j = draw(st.integers(0, dim - 1))
        lo[j], hi[j] = hi[j], lo[j]
    return [lo, hi]


@st.composite
def aabb_case(draw):
    mode = draw(st.sampled_from(MODES))
    dim = draw(st.sampled_from([1, 2, 2, 3, 3, 3, 4]))
    b1 = draw(box_st(mode, dim))
    b2 = draw(box_st(mode, dim, pool=b1[0] + b1[1]))
    nest = draw(st.sampled_from(["no"] * 7 + ["inside", "around", "equal"]))          # one operand contains the other
    if nest != "no" and all(l <= h for l, h in zip(*b1)):
        q = [(h - l) / 4 for l, h in zip(*b1)]
        b2 = {"inside": [[l + x for l, x in zip(b1[0], q)], [h - x for h, x in zip(b1[1], q)]],
              "around": [[l - x - 1.0 for l, x in zip(b1[0], q)], [h + x + 1.0 for h, x in zip(b1[1], q)]],
              "equal": [list(b1[0]), list(b1[1])]}[nest]
    delta = draw(st.sampled_from([1.0, 0.5, 2.0, 0.125])) if mode != "float" else draw(st.floats(1e-6, 50.0))
    pts = []
    intpts = draw(st.integers(0, 3)) == 0            # integer-valued points (given with an integer type) against any box
    for _ in range(draw(st.integers(1, 5))):
        p = []
        for i in range(dim):
            lo, hi = min(b1[0][i], b1[1][i]), max(b1[0][i], b1[1][i])
            how = draw(st.sampled_from(["lo", "hi", "mid", "below", "above", "rand", "mid", "rand"]))
            if intpts:
                k = float(draw(st.integers(0, 3)))
                p.append({"lo": float(math.floor(lo)), "hi": float(math.ceil(hi)), "mid": float(round((lo + hi) / 2)), "below": math.floor(lo) - 1.0 - k,
                          "above": math.ceil(hi) + 1.0 + k, "rand": float(draw(st.integers(-8, 8)))}[how])
            else:
                p.append({"lo": lo, "hi": hi, "mid": (lo + hi) / 2, "below": lo - delta, "above": hi + delta}.get(how)
                         if how != "rand" else draw(coord(mode)))
        pts.append(p)
    cloud = draw(st.lists(vec_st(mode, dim), min_size=1, max_size=8))
    padc = draw(st.sampled_from([0.0, 0.0, 0.5, 1.0, 0.25])) if mode != "float" else draw(st.floats(0, 10.0))
    if draw(st.booleans()):
        pad = draw(st.sampled_from([0.0, 0.5, 1.0, 2.0, -1.0, -0.5])) if mode != "float" else draw(st.floats(-5, 5))
    else:
        pad = draw(vec_st(mode, dim))
    s = 1.0 if intpts else draw(st.sampled_from(SCALES))
    return {"mode": mode, "dim": dim, "b1": scaled(b1, s), "b2": scaled(b2, s), "pts": scaled(pts, s), "cloud": scaled(cloud, s),
            "cloud_pad": padc * s, "pad": scaled(pad, s), "scale": s, "big": draw(st.sampled_from([0] * 9 + [1500, 4000])),
            "form": draw(st.sampled_from(FORMS)), "pform": draw(st.sampled_from(INT_FORMS if intpts else FORMS)),
            "cform": draw(st.sampled_from(["list", "f8", "vecs", "i8"]))}


def fn_aabb(case, ctx):
    from mouette.geometry import AABB, Vec
    mode, dim = case["mode"], case["dim"]
    exact = mode != "float"
    form, pform = case["form"], case["pform"]
    ctx.label("mode=" + mode, "dim=%d" % dim, "form=" + form, "scale=%g" % case.get("scale", 1.0))

    def newbox(b):
        ok, bb = gcall(ctx, "AABB.__init__", AABB, make(b[0], form), make(b[1], form))
        return bb if ok else None

    def corners(bb, sig):
        lo, hi = vec_of(bb.mini, dim), vec_of(bb.maxi, dim)
        if not ctx.check(lo is not None and hi is not None, sig + ":shape", f"mini={bb.mini!r} maxi={bb.maxi!r} are not {dim}-vectors"):
            return None, None
        return lo, hi

    def same(a, b, scale=None):
        a, b = np.asarray(a, dtype=float), np.asarray(b, dtype=float)
        if a.shape != b.shape:
            return False
        if exact:
            return bool(np.array_equal(a, b))
        s = max([1e-300, float(np.max(np.abs(a), initial=0)), float(np.max(np.abs(b), initial=0))] + ([scale] if scale else []))
        return bool(np.all(np.abs(a - b) <= 1e-12 * s))

    L1, H1 = np.array(case["b1"][0], float), np.array(case["b1"][1], float)
    L2, H2 = np.array(case["b2"][0], float), np.array(case["b2"][1], float)
    box1, box2 = newbox(case["b1"]), newbox(case["b2"])
    if box1 is None or box2 is None:
        return
    inv1, inv2 = bool(np.any(L1 > H1)), bool(np.any(L2 > H2))
    ctx.label("b1=" + ("inverted" if inv1 else "point" if np.all(L1 == H1) else "flat" if np.any(L1 == H1) else "normal"))

    # --- construction and derived quantities
    for bb, lo, hi, nm in ((box1, L1, H1, "b1"), (box2, L2, H2, "b2")):
        glo, ghi = corners(bb, "AABB.__init__")
        if glo is None:
            return
        ctx.check(np.array_equal(glo, lo) and np.array_equal(ghi, hi), "AABB.__init__:corners", f"{nm}: AABB({lo},{hi}) has mini={glo} maxi={ghi}")
        ctx.check(bb.dim == dim, "AABB.dim", f"{nm}: dim={bb.dim!r} expected {dim}")
        ok, sp = gcall(ctx, "AABB.span", lambda: bb.span)
        if ok:
            ctx.check(vec_of(sp, dim) is not None and same(sp, hi - lo), "AABB.span", f"{nm}: span={sp!r} expected {hi - lo}")
        ok, ce = gcall(ctx, "AABB.center", lambda: bb.center)
        if ok:
            ctx.check(vec_of(ce, dim) is not None and same(ce, (lo + hi) / 2), "AABB.center", f"{nm}: center={ce!r} expected {(lo + hi) / 2}")
        ok, em = gcall(ctx, "AABB.is_empty", bb.is_empty)
        if ok:
            ctx.check(bool(em) == bool(np.any(lo >= hi)), "AABB.is_empty", f"{nm}: is_empty={em} for [{lo},{hi}]")
        ok, r = gcall(ctx, "AABB.__repr__", repr, bb)

    # --- points against b1
    n_out = n_face = n_in = 0
    if not inv1:
        for p in case["pts"]:
            P = np.array(p, float)
            fp, fl, fh = fv(P), fv(L1), fv(H1)
            inside_half = bool(np.all(L1 <= P) and np.all(P < H1))
            inside_closed = bool(np.all(L1 <= P) and np.all(P <= H1))
            on_face = inside_closed and bool(np.any(P == L1) or np.any(P == H1))
            n_out += not inside_closed
            n_face += on_face
            n_in += inside_half
            parg = make(p, pform)                # the same object is handed to every query on this point
            psnap = snap(parg)
            frac_box = bool(np.any(L1 != np.round(L1)) or np.any(H1 != np.round(H1)))
            if is_int_typed(parg):
                ctx.label("pt=int-typed", "pt=int-typed,box-fractional" if frac_box else "pt=int-typed,box-integral")
                if frac_box and not inside_closed:
                    ctx.label("pt=int-typed,outside-fractional-box")
            ok, c = gcall(ctx, "AABB.contains_point", box1.contains_point, parg)
            if ok:
                ctx.check(bool(c) == inside_half, "AABB.contains_point",
                          f"contains_point({p}) = {c} for box [{L1},{H1}] (documented: min inclusive, max exclusive)")
            ok, pr = gcall(ctx, "AABB.project", box1.project, parg)
            ref_pr = np.minimum(np.maximum(P, L1), H1)
            if ok:
                prv = vec_of(pr, dim)
                if ctx.check(prv is not None, "AABB.project:shape", f"project({p}) = {pr!r}"):
                    ctx.check(bool(np.all(L1 <= prv) and np.all(prv <= H1)), "AABB.project:inside",
                              f"project({p}) = {prv} not in closed box [{L1},{H1}]")
                    ctx.check(np.array_equal(prv, ref_pr), "AABB.project:closest", f"project({show(parg)}) = {prv}, closest point of [{L1},{H1}] is {ref_pr}")
            diff = [max(l - x, x - h, Fr(0)) for x, l, h in zip(fp, fl, fh)]      # == |p - clamp(p)| componentwise
            for which in ("l2", "l1", "linf"):
                ok, d = gcall(ctx, "AABB.distance", box1.distance, parg, which)
                if not ok:
                    continue
                dv = real(d)
                if not ctx.check(dv is not None, "AABB.distance:type", f"distance({p},{which}) = {d!r}"):
                    continue
                ref = float(fnorm(diff, which))
                good = (dv == ref) if (exact and which != "l2") else abs(dv - ref) <= 1e-12 * max(ref, 1e-300)
                ctx.check(good, "AABB.distance:value", f"distance({p},{which}) = {dv!r}, ||p - project(p)|| = {ref!r} for box [{L1},{H1}]")
                if inside_closed:
                    ctx.check(dv == 0, "AABB.distance:contained", f"distance({p},{which}) = {dv!r} for a point of the closed box [{L1},{H1}]")
                elif exact:
                    ctx.check(dv > 0, "AABB.distance:outside", f"distance({p},{which}) = {dv!r} for a point outside [{L1},{H1}]")
                if ok and pr is not None and vec_of(pr, dim) is not None:
                    # the statement itself: the returned projection realises the returned distance
                    back = float(fnorm(fsub(fp, fv(vec_of(pr, dim))), which))
                    ctx.check(abs(dv - back) <= 1e-12 * max(dv, back), "AABB.distance:realised-by-projection",
                              f"distance({show(parg)},{which}) = {dv!r} but ||p - project(p)|| = {back!r} with project(p) = {pr!r}, box [{L1},{H1}]")
            ctx.check(snap(parg) == psnap, "AABB:query-changes-point", f"point argument {p} became {show(parg)} after contains_point/project/distance")
        # the SAME buffer object, overwritten in place between queries (an answer must depend on the values only)
        buf = np.empty(dim, dtype=float)
        for p in case["pts"]:
            buf[:] = p
            P = np.array(p, float)
            ok, pr = ctx.call("AABB.project", box1.project, buf)
            if ok and vec_of(pr, dim) is not None:
                ctx.check(np.array_equal(vec_of(pr, dim), np.minimum(np.maximum(P, L1), H1)), "AABB.project:reused-buffer",
                          f"project(buffer holding {p}) = {pr!r} for box [{L1},{H1}] (the buffer held other points before)")
            ok, d = ctx.call("AABB.distance", box1.distance, buf, "l1")
            if ok and real(d) is not None:
                ref = float(sum((max(l - x, x - h, Fr(0)) for x, l, h in zip(fv(P), fv(L1), fv(H1))), Fr(0)))
                ctx.check(abs(real(d) - ref) <= 1e-12 * max(ref, 1e-300), "AABB.distance:reused-buffer", f"distance(buffer holding {p}, l1) = {d!r}, expected {ref!r}")
            ctx.check(np.array_equal(buf, P), "AABB:query-changes-point", f"buffer holding {p} became {buf}")
        ctx.label("pts:out" if n_out else "pts:no-out", "pts:face" if n_face else "pts:no-face")
        if n_out and (n_face or n_in):
            ctx.nontrivial()
    else:
        ctx.label("pts:skipped-empty-box")
    for bb, lo, hi, nm in ((box1, L1, H1, "b1"), (box2, L2, H2, "b2")):
        ctx.check(np.array_equal(np.asarray(bb.mini, float), lo) and np.array_equal(np.asarray(bb.maxi, float), hi), "AABB:query-changes-box", f"{nm} is now {bb!r} after point queries")

    # --- two boxes
    ok, un = gcall(ctx, "AABB.union", AABB.union, box1, box2)
    if ok and ctx.check(isinstance(un, AABB), "AABB.union:type", f"{un!r}"):
        ulo, uhi = corners(un, "AABB.union")
        if ulo is not None:
            ctx.check(bool(np.all(ulo <= np.minimum(L1, L2)) and np.all(uhi >= np.maximum(H1, H2))), "AABB.union:contains",
                      f"union of [{L1},{H1}] and [{L2},{H2}] = [{ulo},{uhi}] does not contain both")
            if not inv1 and not inv2:
                ctx.check(np.array_equal(ulo, np.minimum(L1, L2)) and np.array_equal(uhi, np.maximum(H1, H2)), "AABB.union:tight",
                          f"union of [{L1},{H1}] and [{L2},{H2}] = [{ulo},{uhi}]")
        ok, un2 = gcall(ctx, "AABB.__or__", lambda: box1 | box2)
        if ok and ulo is not None and isinstance(un2, AABB):
            ctx.check(np.array_equal(np.asarray(un2.mini), ulo) and np.array_equal(np.asarray(un2.maxi), uhi), "AABB.__or__", "b1|b2 differs from union(b1,b2)")
    ilo_ref, ihi_ref = np.maximum(L1, L2), np.minimum(H1, H2)
    ok, it = gcall(ctx, "AABB.intersection", AABB.intersection, box1, box2)
    if ok and ctx.check(isinstance(it, AABB), "AABB.intersection:type", f"{it!r}"):
        ilo, ihi = corners(it, "AABB.intersection")
        if ilo is not None:
            ctx.check(np.array_equal(ilo, ilo_ref) and np.array_equal(ihi, ihi_ref), "AABB.intersection:value",
                      f"intersection of [{L1},{H1}] and [{L2},{H2}] = [{ilo},{ihi}], componentwise overlap is [{ilo_ref},{ihi_ref}]")
        ok, it2 = gcall(ctx, "AABB.__and__", lambda: box1 & box2)
        if ok and ilo is not None and isinstance(it2, AABB):
            ctx.check(np.array_equal(np.asarray(it2.mini), ilo) and np.array_equal(np.asarray(it2.maxi), ihi), "AABB.__and__", "b1&b2 differs from intersection(b1,b2)")
    overlap = all(h >= l for l, h in zip(ilo_ref, ihi_ref))
    touching = overlap and any(h == l for l, h in zip(ilo_ref, ihi_ref))
    ctx.label("pair=" + ("inverted" if (inv1 or inv2) else "touching" if touching else "overlap" if overlap else "disjoint"))
    if not inv1 and not inv2 and (bool(np.all(L1 <= L2) and np.all(H2 <= H1)) or bool(np.all(L2 <= L1) and np.all(H1 <= H2))):
        ctx.label("pair-nested")
    for a, b, nm in ((box1, box2, "b1,b2"), (box2, box1, "b2,b1")):
        ok, di = gcall(ctx, "AABB.do_intersect", AABB.do_intersect, a, b)
        if ok:
            ctx.check(isinstance(di, (bool, np.bool_)) and bool(di) == overlap, "AABB.do_intersect",
                      f"do_intersect({nm}) = {di!r} for [{L1},{H1}] and [{L2},{H2}]: overlap extents {ihi_ref - ilo_ref}")

    # --- augmented assignment: 'b |= o' / 'b &= o' give the union / intersection under the name b and change nothing else:
    # not the arrays the box was built from, not a box built from its corners, not the other operand
    for kind, (elo, ehi) in (("ior", (np.minimum(L1, L2), np.maximum(H1, H2))), ("iand", (ilo_ref, ihi_ref))):
        ina, inb = make(case["b1"][0], form), make(case["b1"][1], form)
        sa, sb = snap(ina), snap(inb)
        try:
            acc = AABB(ina, inb)
            sib = AABB(acc.mini, acc.maxi)
        except Exception:
            break

        def aug(b=acc, kind=kind):
            if kind == "ior":
                b |= box2
            else:
                b &= box2
            return b
        ok, r = ctx.call("AABB.__%s__" % kind, aug)
        if ok and ctx.check(isinstance(r, AABB), "AABB.__%s__:type" % kind, f"{r!r}"):
            ctx.label("iop:in-place" if r is acc else "iop:new-object")
            rlo, rhi = corners(r, "AABB.__%s__" % kind)
            if rlo is not None:
                if kind == "iand" or (not inv1 and not inv2):
                    ctx.check(np.array_equal(rlo, elo) and np.array_equal(rhi, ehi), "AABB.__%s__:value" % kind,
                              f"b {'|=' if kind == 'ior' else '&='} o with b=[{L1},{H1}], o=[{L2},{H2}] gives [{rlo},{rhi}], expected [{elo},{ehi}]")
                else:
                    ctx.check(bool(np.all(rlo <= np.minimum(L1, L2)) and np.all(rhi >= np.maximum(H1, H2))), "AABB.__ior__:value", f"b |= o = [{rlo},{rhi}] does not contain both")
            ctx.check(snap(ina) == sa and snap(inb) == sb, "AABB.__%s__:changes-constructor-arrays" % kind,
                      f"b = AABB(lo, hi); b {'|=' if kind == 'ior' else '&='} [{L2},{H2}] changed the caller's arrays to {show(ina)}, {show(inb)}")
            ctx.check(np.array_equal(np.asarray(sib.mini, float), L1) and np.array_equal(np.asarray(sib.maxi, float), H1), "AABB.__%s__:changes-sibling-box" % kind,
                      f"c = AABB(b.mini, b.maxi); b {'|=' if kind == 'ior' else '&='} [{L2},{H2}] changed c to {sib!r}")
    # accumulation over a point set, starting from a point box whose two corners are the same row of the caller's array
    rows = np.array(case["cloud"], dtype=float).reshape(len(case["cloud"]), dim)
    rows_before = rows.tobytes()

    def accumulate():
        acc = AABB(rows[0], rows[0])
        for q in rows[1:]:
            acc |= AABB(q, q)
        return acc
    ok, acc = ctx.call("AABB.__ior__:accumulate", accumulate)
    if ok and isinstance(acc, AABB):
        alo, ahi = corners(acc, "AABB.__ior__:accumulate")
        ref_rows = np.array(case["cloud"], dtype=float).reshape(len(case["cloud"]), dim)
        if alo is not None:
            ctx.check(np.array_equal(alo, ref_rows.min(axis=0)) and np.array_equal(ahi, ref_rows.max(axis=0)), "AABB.__ior__:accumulate",
                      f"box accumulated with |= over the rows {case['cloud']} is [{alo},{ahi}], expected [{ref_rows.min(axis=0)},{ref_rows.max(axis=0)}]")
        ctx.check(rows.tobytes() == rows_before, "AABB.__ior__:changes-constructor-arrays", f"accumulating with |= changed the caller's point array to {rows.tolist()}")
    # copies of a box carry the same corners; a deep copy / pickle round trip is independent of the original
    for nm, mk_copy, independent in (("copy.copy", copy.copy, False), ("copy.deepcopy", copy.deepcopy, True), ("pickle", lambda b: pickle.loads(pickle.dumps(b)), True)):
        ok, cp = ctx.call("AABB:" + nm, mk_copy, box1)
        if ok and ctx.check(isinstance(cp, AABB) and cp is not box1, "AABB:%s:type" % nm, f"{cp!r}"):
            clo, chi = corners(cp, "AABB:" + nm)
            if clo is not None:
                ctx.check(np.array_equal(clo, L1) and np.array_equal(chi, H1), "AABB:%s:value" % nm, f"{nm} of [{L1},{H1}] is {cp!r}")
            if independent:
                ctx.call("AABB.pad", cp.pad, 1.0)
    for bb, lo, hi, nm in ((box1, L1, H1, "b1"), (box2, L2, H2, "b2")):
        ctx.check(np.array_equal(np.asarray(bb.mini, float), lo) and np.array_equal(np.asarray(bb.maxi, float), hi), "AABB:binary-op-changes-box", f"{nm} is now {bb!r} after union / intersection / do_intersect / |= / &= / padding a copy")

    # --- box of a point set
    cloud = case["cloud"]
    C = np.array(cloud, float).reshape(len(cloud), dim)
    cf = case["cform"]
    if cf == "f8":
        arg = C.copy()
    elif cf == "i8" and np.all(C == np.round(C)):
        arg = C.astype(np.int64)
    elif cf == "vecs":
        arg = [Vec(list(map(float, p))) for p in cloud]
    else:
        arg = [list(map(float, p)) for p in cloud]
    for padc in (None, case["cloud_pad"]):
        ok, cb = (gcall(ctx, "AABB.of_points", AABB.of_points, arg) if padc is None else gcall(ctx, "AABB.of_points", AABB.of_points, arg, float(padc)))
        if ok and ctx.check(isinstance(cb, AABB), "AABB.of_points:type", f"{cb!r}"):
            clo, chi = corners(cb, "AABB.of_points")
            if clo is not None:
                pd = 0.0 if padc is None else float(padc)
                ctx.check(same(clo, C.min(axis=0) - pd) and same(chi, C.max(axis=0) + pd), "AABB.of_points:tight",
                          f"of_points({cloud}, padding={pd}) = [{clo},{chi}], expected [{C.min(axis=0) - pd},{C.max(axis=0) + pd}]")
                if pd == 0:
                    ctx.check(all(bool(np.all(clo <= q) and np.all(q <= chi)) for q in C), "AABB.of_points:contains", f"a point of {cloud} outside [{clo},{chi}]")

    if case.get("big"):
        # size regime: a cloud well above any plausible internal threshold (coordinates derived from the case alone)
        ctx.label("cloud=big")
        big = np.random.RandomState(case["big"] + dim).randint(-4096, 4097, size=(case["big"], dim)) / 8.0 * case.get("scale", 1.0)
        ok, cb = gcall(ctx, "AABB.of_points", AABB.of_points, big, float(case["cloud_pad"]))
        if ok and isinstance(cb, AABB):
            clo, chi = corners(cb, "AABB.of_points")
            if clo is not None:
                ctx.check(same(clo, big.min(axis=0) - float(case["cloud_pad"])) and same(chi, big.max(axis=0) + float(case["cloud_pad"])), "AABB.of_points:tight",
                          f"of_points({case['big']} points, padding={case['cloud_pad']}) = [{clo},{chi}], expected [{big.min(axis=0) - case['cloud_pad']},{big.max(axis=0) + case['cloud_pad']}]")
    if dim == 3:
        from vlib.build import pointcloud_from, coords
        pc = pointcloud_from(cloud)
        before = coords(pc).tobytes()
        for padc in (None, case["cloud_pad"]):
            ok, cb = (gcall(ctx, "AABB.of_mesh", AABB.of_mesh, pc) if padc is None else gcall(ctx, "AABB.of_mesh", AABB.of_mesh, pc, float(padc)))
            if ok and ctx.check(isinstance(cb, AABB), "AABB.of_mesh:type", f"{cb!r}"):
                clo, chi = corners(cb, "AABB.of_mesh")
                if clo is not None:
                    pd = 0.0 if padc is None else float(padc)
                    ctx.check(same(clo, C.min(axis=0) - pd) and same(chi, C.max(axis=0) + pd), "AABB.of_mesh:tight",
                              f"of_mesh(point cloud {cloud}, padding={pd}) = [{clo},{chi}], expected [{C.min(axis=0) - pd},{C.max(axis=0) + pd}]")
        ctx.check(coords(pc).tobytes() == before, "AABB.of_mesh:changes-mesh", "mesh vertices changed by of_mesh")

    # --- pad on a fresh box (receiver is the box; the law is the documented arithmetic)
    pad = case["pad"]
    pb = newbox(case["b1"])
    if pb is not None:
        if isinstance(pad, list):
            parg, pv = make(pad, pform), np.maximum(np.array(pad, float), 0)
        else:
            parg, pv = float(pad), np.full(dim, max(float(pad), 0.0))
        ctx.label("pad=" + ("vector" if isinstance(pad, list) else "scalar"), "pad-int-box" if form in ("i8", "ivec") and mode == "int" else "pad-float-box")
        ok, r = gcall(ctx, "AABB.pad", pb.pad, parg, pure=False)
        if ok:
            plo, phi = corners(pb, "AABB.pad")
            if plo is not None:
                ctx.check(same(plo, L1 - pv) and same(phi, H1 + pv), "AABB.pad:value",
                          f"[{L1},{H1}].pad({pad}) = [{plo},{phi}], expected [{L1 - pv},{H1 + pv}]")

    # --- canonical boxes
    for centered in (False, True):
        ok, uc = gcall(ctx, "AABB.unit_cube", AABB.unit_cube, dim, centered)
        if ok and isinstance(uc, AABB):
            lo = -0.5 if centered else 0.0
            ctx.check(np.array_equal(np.asarray(uc.mini), np.full(dim, lo)) and np.array_equal(np.asarray(uc.maxi), np.full(dim, lo + 1)), "AABB.unit_cube", f"{uc!r}")
    ok, inf = gcall(ctx, "AABB.infinite", AABB.infinite, dim)
    if ok and isinstance(inf, AABB):
        for p in case["pts"][:2]:
            ok, c = gcall(ctx, "AABB.infinite:contains", inf.contains_point, make(p, pform))
            if ok:
                ctx.check(bool(c), "AABB.infinite:contains", f"infinite box does not contain {p}")
            ok, d = gcall(ctx, "AABB.infinite:distance", inf.distance, make(p, pform))
            if ok:
                ctx.check(real(d) == 0, "AABB.infinite:distance", f"distance to the infinite box = {d!r}")

    # --- documented exceptions on dimension mismatch
    wrongp = case["pts"][0] + [0.0]
    other = AABB.unit_cube(dim + 1)
    for nm, f in (("contains_point", lambda: box1.contains_point(make(wrongp, pform))), ("project", lambda: box1.project(make(wrongp, pform))),
                  ("distance", lambda: box1.distance(make(wrongp, pform))), ("intersection", lambda: AABB.intersection(box1, other)),
                  ("do_intersect", lambda: AABB.do_intersect(box1, other)), ("union", lambda: AABB.union(other, box1))):
        try:
            r = f()
            ctx.fail("AABB:dimension-mismatch", f"{nm} with an argument of dimension {dim + 1} on a box of dimension {dim} returned {r!r} instead of raising IncompatibleDimensionError")
        except AABB.IncompatibleDimensionError:
            ctx.n_assert += 1
        except Exception as e:
            ctx.fail("AABB:dimension-mismatch", f"{nm} with mismatched dimension raised {type(e).__name__}: {e} instead of IncompatibleDimensionError")
    try:
        r = AABB(make(case["b1"][0], form), make(wrongp, form))
        ctx.fail("AABB:dimension-mismatch", f"AABB(p_min of size {dim}, p_max of size {dim + 1}) did not raise")
    except Exception:
        ctx.n_assert += 1


# =============================================================================================== 2. vector laws (exact)
@st.composite
def vector_case(draw):
    mode = draw(st.sampled_from(MODES))
    v3 = vec_st(mode, 3)
    A = draw(v3)
    how = draw(st.sampled_from(["free"] * 6 + ["zero", "parallel", "equal"]))
    B = {"free": None, "zero": [0.0, 0.0, 0.0], "equal": list(A)}.get(how) if how != "parallel" else [2.0 * x for x in A]
    if B is None:
        B = draw(v3)
    s = draw(st.sampled_from(VSCALES))
    return {"mode": mode, "A": scaled(A, s), "B": scaled(B, s), "C": scaled(draw(v3), s), "a": scaled(draw(vec_st(mode, 2)), s),
            "b": scaled(draw(vec_st(mode, 2)), s), "c": scaled(draw(vec_st(mode, 2)), s), "scale": s,
            "form": draw(st.sampled_from(FORMS)), "n": draw(st.integers(1, 6)), "set": draw(coord(mode))}


def fn_vector(case, ctx):
    from mouette import geometry as geom
    from mouette.geometry import Vec
    mode, form = case["mode"], case["form"]
    exact = mode != "float"
    ctx.label("mode=" + mode, "form=" + form, "scale=%g" % case.get("scale", 1.0))
    A, B, C, a, b, c = (case[k] for k in "ABCabc")
    fA, fB, fC, fa, fb, fc = (fv(case[k]) for k in "ABCabc")
    mk = lambda v: make(v, form)

    def cmp_scalar(sig, got, ref, mag, what):
        """got: library scalar; ref: Fraction; mag: Fraction bound on the sum of |terms|"""
        g = real(got)
        if not ctx.check(g is not None, sig + ":type", f"{what} = {got!r} is not a real scalar"):
            return
        if exact:
            ctx.check(Fr(g) == ref, sig, f"{what} = {g!r}, exact value {float(ref)!r}")
        else:
            ctx.check(abs(Fr(g) - ref) <= 8 * Fr(EPS) * mag, sig, f"{what} = {g!r}, exact value {float(ref)!r} (terms of magnitude {float(mag)!r})")

    zero = all(x == 0 for x in A) or all(x == 0 for x in B)
    par = all(x == 0 for x in fcross(fA, fB))
    ctx.label("zero" if zero else "parallel" if par else "generic")
    ctx.nontrivial(not par)

    # cross
    for (U, V, fU, fV, nm) in ((A, B, fA, fB, "A,B"), (B, A, fB, fA, "B,A"), (A, A, fA, fA, "A,A")):
        ok, cr = gcall(ctx, "cross", geom.cross, mk(U), mk(V))
        if ok:
            cv = vec_of(cr, 3)
            if ctx.check(cv is not None and isinstance(cr, Vec), "cross:type", f"cross({nm}) = {cr!r}"):
                ref = fcross(fU, fV)
                mags = [abs(fU[1] * fV[2]) + abs(fU[2] * fV[1]), abs(fU[2] * fV[0]) + abs(fU[0] * fV[2]), abs(fU[0] * fV[1]) + abs(fU[1] * fV[0])]
                for i in range(3):
                    cmp_scalar("cross", cv[i], ref[i], mags[i], f"cross({U},{V})[{i}]")
    # determinants
    ok, d = gcall(ctx, "det_2x2", geom.det_2x2, mk(a), mk(b))
    if ok:
        cmp_scalar("det_2x2", d, fdet2(fa, fb), abs(fa[0] * fb[1]) + abs(fa[1] * fb[0]), f"det_2x2({a},{b})")
    ok, d = gcall(ctx, "det_2x2", geom.det_2x2, complex(a[0], a[1]), complex(b[0], b[1]))
    if ok:
        cmp_scalar("det_2x2:complex", d, fdet2(fa, fb), abs(fa[0] * fb[1]) + abs(fa[1] * fb[0]), f"det_2x2(complex{tuple(a)},complex{tuple(b)})")
    ok, d = gcall(ctx, "det_2x2", geom.det_2x2, complex(a[0], a[1]), mk(b))
    if ok:
        cmp_scalar("det_2x2:mixed", d, fdet2(fa, fb), abs(fa[0] * fb[1]) + abs(fa[1] * fb[0]), f"det_2x2(complex{tuple(a)},{b})")
    ref3 = fdet3(fA, fB, fC)
    mag3 = sum(abs(fA[i] * fB[j] * fC[k]) for i, j, k in ((0, 1, 2), (1, 2, 0), (2, 0, 1), (0, 2, 1), (1, 0, 2), (2, 1, 0)))
    ok, d = gcall(ctx, "det_3x3", geom.det_3x3, mk(A), mk(B), mk(C))
    if ok:
        cmp_scalar("det_3x3", d, ref3, 2 * mag3, f"det_3x3({A},{B},{C})")
    ok, d = gcall(ctx, "det_3x3", geom.det_3x3, np.array([A, B, C], dtype=float))
    if ok:
        cmp_scalar("det_3x3:matrix", d, ref3, 2 * mag3, f"det_3x3(matrix rows {A},{B},{C})")
    ok, d = gcall(ctx, "det_3x3", geom.det_3x3, np.array([A, B, C], dtype=float).T.copy())
    if ok:
        cmp_scalar("det_3x3:matrix", d, ref3, 2 * mag3, f"det_3x3(matrix columns {A},{B},{C})")
    # dot, norms, distances
    ok, d = gcall(ctx, "dot", geom.dot, mk(A), mk(B))
    if ok:
        cmp_scalar("dot", d, fdot(fA, fB), sum(abs(x * y) for x, y in zip(fA, fB)), f"dot({A},{B})")
    aform = {"list": "vec", "tuple": "vec", "ilist": "ivec", "ituple": "ivec"}.get(form, form)      # geometry.norm documents an ndarray
    arrA, arrB = make(A, aform), make(B, aform)
    for which in ("l2", "l1", "linf"):
        for nm, f, ref in (("norm", lambda: geom.norm(arrA, which), fnorm(fA, which)), ("Vec.norm", lambda: Vec(mk(A)).norm(which), fnorm(fA, which)),
                           ("distance", lambda: geom.distance(arrA, arrB, which), fnorm(fsub(fB, fA), which))):
            ok, d = gcall(ctx, nm, f)
            if ok:
                g = real(d)
                if ctx.check(g is not None, nm + ":type", f"{nm}(..., {which}) = {d!r}"):
                    ref = float(ref)
                    good = (g == ref) if (exact and which != "l2") else abs(g - ref) <= 1e-12 * max(ref, 1e-300) or (not exact and abs(g - ref) <= 4 * EPS * float(fnorm(fA, "l1") + fnorm(fB, "l1")))
                    ctx.check(good, nm, f"{nm} [{which}] of A={A} (B={B}) = {g!r}, expected {ref!r}")
    # areas
    ok, d = gcall(ctx, "triangle_area", geom.triangle_area, Vec(mk(A)), Vec(mk(B)), Vec(mk(C)))
    if ok:
        g = real(d)
        crf = fcross(fsub(fB, fA), fsub(fC, fA))
        ref = fsqrt(fdot(crf, crf)) / 2
        ctx.check(g is not None and abs(g - ref) <= 1e-12 * max(ref, 1e-300) + (0 if exact else 16 * EPS * (float(fnorm(fA, "linf") + fnorm(fB, "linf") + fnorm(fC, "linf")) ** 2)),
                  "triangle_area", f"triangle_area({A},{B},{C}) = {d!r}, |AB x AC|/2 = {ref!r}")
    ok, d = gcall(ctx, "triangle_area_2D", geom.triangle_area_2D, Vec(mk(a)), Vec(mk(b)), Vec(mk(c)))
    if ok:
        u, w = fsub(fb, fa), fsub(fc, fa)
        ref = abs(fdet2(u, w)) / 2
        g = real(d)
        if ctx.check(g is not None, "triangle_area_2D:type", f"{d!r}"):
            if exact:
                ctx.check(Fr(g) == ref, "triangle_area_2D", f"triangle_area_2D({a},{b},{c}) = {g!r}, exact {float(ref)!r}")
            else:
                m = float(fnorm(fa, "linf") + fnorm(fb, "linf") + fnorm(fc, "linf")) ** 2
                ctx.check(abs(g - float(ref)) <= 16 * EPS * m, "triangle_area_2D", f"triangle_area_2D({a},{b},{c}) = {g!r}, exact {float(ref)!r}")
    # sign
    for x in (A[0], -A[0], 0.0, -0.0):
        ctx.check(geom.sign(x) == (x > 0) - (x < 0), "sign", f"sign({x}) = {geom.sign(x)}")
        ctx.check(geom.sign0(x) == (1 if x >= 0 else -1), "sign0", f"sign0({x}) = {geom.sign0(x)}")

    # --- Vec API
    ok, v = gcall(ctx, "Vec", Vec, mk(A))
    ok2, v2 = gcall(ctx, "Vec", Vec, *[float(x) for x in A])
    if ok and ok2:
        ctx.check(isinstance(v, Vec) and v.shape == (3,) and isinstance(v2, Vec) and v2.shape == (3,) and np.array_equal(v, np.array(A)) and np.array_equal(v2, np.array(A)),
                  "Vec:ctor", f"Vec({A}) = {v!r}, Vec(*{A}) = {v2!r}")
        ctx.check(v.x == A[0] and v.y == A[1] and v.z == A[2] and np.array_equal(np.asarray(v.xy), np.array(A[:2])), "Vec:accessors", f"{v!r}: x,y,z,xy = {v.x},{v.y},{v.z},{v.xy}")
        w = Vec([float(x) for x in A])
        for i, nm in enumerate("xyz"):
            setattr(w, nm, case["set"])
            expect = [case["set"]] * (i + 1) + list(A[i + 1:])
            ctx.check(np.array_equal(np.asarray(w), np.array(expect)), "Vec:setter", f"after setting {nm}: {w!r}, expected {expect}")
        ok, o = gcall(ctx, "Vec.outer", v.outer, mk(B))
        if ok:
            o = np.asarray(o)
            if ctx.check(o.shape == (3, 3), "Vec.outer:shape", f"{o!r}"):
                for i in range(3):
                    for j in range(3):
                        cmp_scalar("Vec.outer", o[i, j], fA[i] * fB[j], abs(fA[i] * fB[j]), f"outer({A},{B})[{i},{j}]")
        ok, d = gcall(ctx, "Vec.dot", v.dot, mk(B))
        if ok:
            cmp_scalar("Vec.dot", d, fdot(fA, fB), sum(abs(x * y) for x, y in zip(fA, fB)), f"Vec({A}).dot({B})")
    n = case["n"]
    z = Vec.zeros(n)
    ctx.check(isinstance(z, Vec) and z.shape == (n,) and not np.any(z), "Vec.zeros", f"zeros({n}) = {z!r}")
    r = Vec.random(n)
    ctx.check(isinstance(r, Vec) and r.shape == (n,) and bool(np.all((0 <= r) & (r < 1))), "Vec.random", f"random({n}) = {r!r}")
    ctx.check(np.array_equal(Vec.X(), [1, 0, 0]) and np.array_equal(Vec.Y(), [0, 1, 0]) and np.array_equal(Vec.Z(), [0, 0, 1]), "Vec.XYZ", "X,Y,Z")
    fc_ = Vec.from_complex(complex(a[0], a[1]))
    ctx.check(isinstance(fc_, Vec) and np.array_equal(np.asarray(fc_), np.array(a)), "Vec.from_complex", f"from_complex({a}) = {fc_!r}")
    # normalisation (non-zero vectors)
    if any(x != 0 for x in A):
        for which in ("l2", "l1", "linf"):
            nrm = float(fnorm(fA, which))
            expect = np.array(A, float) / nrm
            src = mk(A)
            ok, u = gcall(ctx, "Vec.normalized", Vec.normalized, src, which)
            if ok:
                uv = vec_of(u, 3)
                ctx.check(uv is not None and isinstance(u, Vec) and bool(np.all(np.abs(uv - expect) <= 1e-12)), "Vec.normalized",
                          f"normalized({A},{which}) = {u!r}, expected {expect}")
            w = Vec([float(x) for x in A])
            ok, _ = gcall(ctx, "Vec.normalize", w.normalize, which, pure=False)
            if ok:
                ctx.check(bool(np.all(np.abs(np.asarray(w) - expect) <= 1e-12)), "Vec.normalize", f"Vec({A}).normalize({which}) -> {w!r}, expected {expect}")


# =============================================================================================== 3. triangles, lines, planes
@st.composite
def triangle_st(draw, mode):
    v3 = vec_st(mode, 3)
    A, B = draw(v3), draw(v3)
    how = draw(st.sampled_from(["free"] * 8 + ["collinear", "dupAB", "dupAC"]))
    if how == "collinear":
        k = draw(st.sampled_from([2.0, -1.0, 0.5, 3.0]))
        C = [x + k * (y - x) for x, y in zip(A, B)]
    elif how == "dupAB":
        B, C = list(A), draw(v3)
    elif how == "dupAC":
        C = list(A)
    else:
        C = draw(v3)
    return [A, B, C]


def tri_condition(fA, fB, fC):
    """exact conditioning data of a triangle: (squared sine of the smallest corner angle, longest edge, |coords|max)"""
    P = [fA, fB, fC]
    worst = Fr(1)
    for i in range(3):
        u, w = fsub(P[(i + 1) % 3], P[i]), fsub(P[(i + 2) % 3], P[i])
        nu, nw = fdot(u, u), fdot(w, w)
        if nu == 0 or nw == 0:
            return Fr(0), 0.0, 0.0
        cr = fcross(u, w)
        worst = min(worst, fdot(cr, cr) / (nu * nw))
    L = max(fsqrt(fdot(fsub(P[(i + 1) % 3], P[i]), fsub(P[(i + 1) % 3], P[i]))) for i in range(3))
    S = float(max(abs(x) for p in P for x in p))
    return worst, L, S


@st.composite
def shape_case(draw):
    mode = draw(st.sampled_from(MODES))
    v2, v3 = vec_st(mode, 2), vec_st(mode, 3)
    d1 = draw(v2)
    how = draw(st.sampled_from(["free"] * 5 + ["parallel", "same"]))
    d2 = [-2.0 * x for x in d1] if how == "parallel" else list(d1) if how == "same" else draw(v2)
    quad = draw(st.lists(vec_st("int" if mode == "int" else "dyadic", 2), min_size=4, max_size=4))
    if draw(st.booleans()):      # one point per quadrant, in turning order: mostly convex
        q = [draw(st.integers(1, 6)) * 1.0 for _ in range(8)]
        quad = [[-q[0], -q[1]], [q[2], -q[3]], [q[4], q[5]], [-q[6], q[7]]]
        if draw(st.booleans()):
            quad.reverse()
    # uniform scale of the triangle, the segment query and the plane query (scale covariant); the line intersection keeps unit scale
    # because of its documented absolute parallelism threshold
    s = draw(st.sampled_from([1.0] * 6 + [2.0 ** -10, 2.0 ** 10, 2.0 ** 17]))
    SB = draw(st.one_of(v2, v2, v2, v2, st.just(None)))
    return {"mode": mode, "tri": scaled(draw(triangle_st(mode)), s), "p1": draw(v2), "d1": d1, "p2": draw(v2), "d2": d2, "dim3": draw(st.booleans()),
            "P": scaled(draw(v2), s), "SA": scaled(draw(v2), s), "SB": scaled(SB, s) if SB is not None else None,
            "Q": scaled(draw(v3), s), "N": draw(v3), "nscale_exp": draw(st.sampled_from([0] * 5 + [-30, -70, 40])), "O": scaled(draw(v3), s), "scale": s, "ityped": draw(st.integers(0, 3)) == 0,
            "quad": quad, "plane": draw(st.integers(0, 2)), "level": draw(coord(mode))}


def fn_shape(case, ctx):
    from mouette import geometry as geom
    from mouette.geometry import Vec
    mode = case["mode"]
    ctx.label("mode=" + mode, "scale=%g" % case.get("scale", 1.0))
    ityped = bool(case.get("ityped"))
    V = lambda v: make(v, "ivec" if ityped else "vec")            # integer-typed Vec when requested and all coordinates are integers
    if ityped and all(float(x) == int(x) and abs(x) <= 4096 for p_ in case["tri"] for x in p_):
        ctx.label("tri=int-typed")

    # ---- line intersection
    p1, d1, p2, d2 = case["p1"], case["d1"], case["p2"], case["d2"]
    f1, g1, f2, g2 = fv(p1), fv(d1), fv(p2), fv(d2)
    ext = [0.0] if case["dim3"] else []
    det = fdet2(g1, g2)
    n1, n2 = fsqrt(fdot(g1, g1)), fsqrt(fdot(g2, g2))
    ok, X = gcall(ctx, "intersect_2lines2D", geom.intersect_2lines2D, V(p1 + ext), V(d1 + ext), V(p2 + ext), V(d2 + ext))
    if ok:
        if det == 0:
            ctx.label("lines=parallel")
            ctx.check(X is None, "intersect_2lines2D:parallel", f"parallel lines ({p1},{d1}) ({p2},{d2}) gave {X!r}, documented: None")
        elif min(n1, n2) >= 1e-2 and abs(float(det)) >= 1e-3 * n1 * n2:
            ctx.label("lines=transversal")
            ctx.nontrivial()
            xv = vec_of(X, 2)
            if ctx.check(xv is not None, "intersect_2lines2D:type", f"lines ({p1},{d1}) ({p2},{d2}): result {X!r} is not a 2D point"):
                # exact intersection: p1 + t d1 with t = det(p2-p1, d2)/det(d1,d2)
                t = fdet2(fsub(f2, f1), g2) / det
                ref = [float(f1[i] + t * g1[i]) for i in range(2)]
                scale = max(1.0, float(fnorm(f1, "linf")), float(fnorm(f2, "linf")), abs(ref[0]), abs(ref[1]))
                cond = n1 * n2 / abs(float(det))
                ctx.check(bool(np.all(np.abs(xv - np.array(ref)) <= 1e-12 * scale * cond)), "intersect_2lines2D:value",
                          f"lines ({p1},{d1}) ({p2},{d2}): {xv}, exact intersection {ref}")
        else:
            ctx.label("lines=ill-conditioned")

    # ---- distance to a segment
    P, SA, SB = case["P"], case["SA"], case["SB"] or case["SA"]
    fP, fa, fb = fv(P), fv(SA), fv(SB)
    seg = fsub(fb, fa)
    l2 = fdot(seg, seg)
    if l2 == 0 or float(l2) >= 1e-10:
        if l2 == 0:
            ctx.label("segment=point")
            refd = fsqrt(fdot(fsub(fP, fa), fsub(fP, fa)))
        else:
            t = min(Fr(1), max(Fr(0), fdot(fsub(fP, fa), seg) / l2))
            pr = [fa[i] + t * seg[i] for i in range(2)]
            refd = fsqrt(fdot(fsub(fP, pr), fsub(fP, pr)))
            ctx.label("segment=end" if t in (0, 1) else "segment=interior")
        ok, d = gcall(ctx, "distance_to_segment2D", geom.distance_to_segment2D, V(P + ext), V(SA + ext), V(SB + ext))
        if ok:
            g = real(d)
            scale = max(1e-300, float(fnorm(fP, "linf")), float(fnorm(fa, "linf")), float(fnorm(fb, "linf")))
            ctx.check(g is not None and abs(g - refd) <= 1e-9 * scale, "distance_to_segment2D", f"distance_to_segment2D({P},[{SA},{SB}]) = {d!r}, expected {refd!r}")

    # ---- projection onto a plane
    Q, N, O = case["Q"], case["N"], case["O"]
    well_n = float(fdot(fv(N), fv(N))) >= 1e-8
    if case.get("nscale_exp"):                          # the projection does not depend on the length of the normal: any power of two of it
        N = [x * 2.0 ** case["nscale_exp"] for x in N]
        ctx.label("normal-length=2^%d" % case["nscale_exp"])
    fQ, fN, fO = fv(Q), fv(N), fv(O)
    nn = fdot(fN, fN)
    if well_n:
        ok, R = gcall(ctx, "project_to_plane", geom.project_to_plane, V(Q), V(N), V(O))
        if ok:
            rv = vec_of(R, 3)
            if ctx.check(rv is not None, "project_to_plane:type", f"{R!r}"):
                k = fdot(fsub(fQ, fO), fN) / nn
                ref = np.array([float(fQ[i] - k * fN[i]) for i in range(3)])
                scale = max(1e-300, float(fnorm(fQ, "linf")), float(fnorm(fO, "linf")))
                ctx.check(bool(np.all(np.abs(rv - ref) <= 1e-11 * scale)), "project_to_plane", f"project_to_plane({Q}, N={N}, orig={O}) = {rv}, expected {ref}")
    else:
        ctx.label("plane=zero-normal")

    # ---- area of a planar convex quad
    q = case["quad"]
    fq = [fv(p) for p in q]
    turns = [fdet2(fsub(fq[(i + 1) % 4], fq[i]), fsub(fq[(i + 2) % 4], fq[(i + 1) % 4])) for i in range(4)]
    if all(t > 0 for t in turns) or all(t < 0 for t in turns):
        ctx.label("quad=convex")
        area = abs(sum(fdet2(fq[i], fq[(i + 1) % 4]) for i in range(4))) / 2
        lvl, ax = float(case["level"]), case["plane"]
        pts3 = []
        for p in q:
            c3 = [p[0], p[1]]
            c3.insert(ax, lvl)
            pts3.append(V(c3))
        ok, d = gcall(ctx, "quad_area", geom.quad_area, *pts3)
        if ok:
            g = real(d)
            ctx.check(g is not None and abs(g - float(area)) <= 1e-12 * max(1.0, float(area)), "quad_area", f"quad_area of planar convex {q} (plane axis {ax} = {lvl}) = {d!r}, shoelace area {float(area)!r}")
    else:
        ctx.label("quad=non-convex")

    # ---- triangle: face_basis, aspect_ratio, circumcentre
    A, B, C = case["tri"]
    fA, fB, fC = fv(A), fv(B), fv(C)
    sin2, L, S = tri_condition(fA, fB, fC)
    well = sin2 >= Fr(1, 100) and L >= 1e-4 and S <= 1e3 * L        # smallest angle >= ~5.7 deg, coordinates not huge w.r.t. size
    ctx.label("tri=well" if well else "tri=degenerate" if sin2 == 0 else "tri=thin")
    if not well:
        return
    ctx.nontrivial()
    nA, nB, nC = np.array(A, float), np.array(B, float), np.array(C, float)
    ok, basis = gcall(ctx, "face_basis", geom.face_basis, V(A), V(B), V(C))
    if ok:
        good = isinstance(basis, tuple) and len(basis) == 3 and all(vec_of(x, 3) is not None for x in basis)
        if ctx.check(good, "face_basis:type", f"{basis!r}"):
            Xb, Yb, Zb = (vec_of(x, 3) for x in basis)
            M_ = np.array([Xb, Yb, Zb])
            ctx.check(bool(np.all(np.abs(M_ @ M_.T - np.eye(3)) <= 1e-9)) and np.linalg.det(M_) > 0.5, "face_basis:orthonormal", f"face_basis({A},{B},{C}) = {M_.tolist()} is not a direct orthonormal basis")
            ab = (nB - nA) / np.linalg.norm(nB - nA)
            nrm = np.cross(nB - nA, nC - nA)
            nrm = nrm / np.linalg.norm(nrm)
            ctx.check(bool(np.all(np.abs(Xb - ab) <= 1e-9)) and bool(np.all(np.abs(Zb - nrm) <= 1e-8)), "face_basis:aligned",
                      f"face_basis({A},{B},{C}): X={Xb} (AB direction {ab}), Z={Zb} (normal {nrm})")
        ok2, basis2 = gcall(ctx, "face_basis", geom.face_basis, [V(A), V(B), V(C)])
        if ok2 and good and isinstance(basis2, tuple) and len(basis2) == 3:
            ctx.check(all(np.array_equal(np.asarray(x), np.asarray(y)) for x, y in zip(basis, basis2)), "face_basis:list-form", "face_basis(A,B,C) != face_basis([A,B,C])")
    la, lb, lc = (fsqrt(fdot(fsub(p, q_), fsub(p, q_))) for p, q_ in ((fB, fC), (fC, fA), (fA, fB)))
    crf = fcross(fsub(fB, fA), fsub(fC, fA))
    K = fsqrt(fdot(crf, crf)) / 2
    R_ref = la * lb * lc / (4 * K)
    r_ref = K / ((la + lb + lc) / 2)
    for perm in ((A, B, C), (B, C, A), (C, A, B), (A, C, B)):
        ok, ar = gcall(ctx, "aspect_ratio", geom.aspect_ratio, *[V(p) for p in perm])
        if ok:
            g = real(ar)
            ref = R_ref / (2 * r_ref)
            # s - a is computed by cancellation: relative error ~ eps * (1/sin^2)
            ctx.check(g is not None and abs(g - ref) <= 1e-9 * ref / float(sin2), "aspect_ratio", f"aspect_ratio({perm}) = {ar!r}, circumradius/(2 inradius) = {ref!r}")
    for perm in ((A, B, C), (B, C, A), (C, B, A)):
        ok, cc = gcall(ctx, "circumcenter", geom.circumcenter, *[V(p) for p in perm])
        if not ok:
            continue
        cv = vec_of(cc, 3)
        if not ctx.check(cv is not None, "circumcenter:type", f"circumcenter({perm}) = {cc!r}"):
            continue
        dist = [float(np.linalg.norm(cv - p)) for p in (nA, nB, nC)]
        tol = 1e-9 * (R_ref + S) / float(sin2)
        if not ctx.check(max(dist) - min(dist) <= tol, "circumcenter:equidistant",
                         f"circumcenter({perm}) = {cv}: distances to the three points {dist} (circumradius {R_ref!r})"):
            continue
        vol = float(np.dot(cv - nA, np.cross(nB - nA, nC - nA))) / (2 * K)
        ctx.check(abs(vol) <= tol, "circumcenter:coplanar", f"circumcenter({perm}) = {cv} is at distance {abs(vol)!r} from the triangle's plane")
        ctx.check(abs(dist[0] - R_ref) <= tol, "circumcenter:radius", f"circumcenter({perm}) = {cv}: radius {dist[0]!r}, expected {R_ref!r}")


# =============================================================================================== 4. angles
@st.composite
def tri2_st(draw, mode):
    """three planar points; one time in three the directions from the middle point lie on either side of the negative x axis"""
    v2 = vec_st(mode, 2)
    A, B, C = draw(v2), draw(v2), draw(v2)
    if draw(st.integers(0, 2)) == 0:
        pos = st.integers(1, 6).map(float) if mode == "int" else st.integers(1, 48).map(lambda k: k / 8.0)
        A = [B[0] - draw(pos), B[1] + draw(pos)]
        C = [B[0] - draw(pos), B[1] - draw(pos)]
        if draw(st.booleans()):
            A, C = C, A
    return [A, B, C]


@st.composite
def angle_case(draw):
    mode = draw(st.sampled_from(MODES))
    v3, v2 = vec_st(mode, 3), vec_st(mode, 2)
    V1 = draw(v3)
    how = draw(st.sampled_from(["free"] * 7 + ["parallel", "anti", "zero"]))
    V2 = {"parallel": [2.0 * x for x in V1], "anti": [-1.0 * x for x in V1], "zero": [0.0] * 3}.get(how) or draw(v3)
    s = draw(st.sampled_from(VSCALES))                # every angle is scale invariant
    return {"mode": mode, "V1": scaled(V1, s), "V2": scaled(V2, s), "N": draw(v3), "tri": scaled(draw(triangle_st(mode)), s),
            "u": scaled(draw(v2), s), "w": scaled(draw(v2), s), "scale": s, "ityped": draw(st.integers(0, 3)) == 0,
            "tri2": scaled(draw(tri2_st(mode)), s)}


def kahan_angle(u, w):
    """angle between float vectors, accurate everywhere: 2 atan2(| u/|u| - w/|w| |, | u/|u| + w/|w| |)"""
    u, w = np.asarray(u, float), np.asarray(w, float)
    a, b = u / np.linalg.norm(u), w / np.linalg.norm(w)
    return 2 * math.atan2(np.linalg.norm(a - b), np.linalg.norm(a + b))


def fn_angle(case, ctx):
    from mouette import geometry as geom
    from mouette.geometry import Vec
    from mouette.utils.maths import principal_angle
    ctx.label("mode=" + case["mode"], "scale=%g" % case.get("scale", 1.0))
    ityped = bool(case.get("ityped"))
    V = lambda v: make(v, "ivec" if ityped else "vec")
    if ityped and all(float(x) == int(x) and abs(x) <= 4096 for x in case["V1"] + case["V2"]):
        ctx.label("vectors=int-typed")
    V1, V2, N = case["V1"], case["V2"], case["N"]
    f1, f2, fN = fv(V1), fv(V2), fv(N)
    A, B, C = case["tri"]
    fA, fB, fC = fv(A), fv(B), fv(C)
    PI = math.pi

    def in_range(sig, x, lo, hi, what):
        g = real(x)
        return g if ctx.check(g is not None and lo <= g <= hi, sig, f"{what} = {x!r} not in [{lo},{hi}]") else None

    # ---- universal: range and symmetry, every input (also degenerate)
    ok, t = gcall(ctx, "angle_3pts", geom.angle_3pts, V(A), V(B), V(C))
    ok2, t2 = gcall(ctx, "angle_3pts", geom.angle_3pts, V(C), V(B), V(A))
    if ok and ok2:
        g, g2 = in_range("angle_3pts:range", t, 0.0, PI, f"angle_3pts({A},{B},{C})"), in_range("angle_3pts:range", t2, 0.0, PI, f"angle_3pts({C},{B},{A})")
        if g is not None and g2 is not None:
            ctx.check(abs(g - g2) <= 1e-12, "angle_3pts:symmetric", f"angle_3pts({A},{B},{C}) = {g!r} but angle_3pts({C},{B},{A}) = {g2!r}")
    ok, a3 = gcall(ctx, "angle_2vec3D", geom.angle_2vec3D, V(V1), V(V2))
    ok2, a3b = gcall(ctx, "angle_2vec3D", geom.angle_2vec3D, V(V2), V(V1))
    if ok and ok2:
        g, g2 = in_range("angle_2vec3D:range", a3, 0.0, PI, f"angle_2vec3D({V1},{V2})"), in_range("angle_2vec3D:range", a3b, 0.0, PI, f"angle_2vec3D({V2},{V1})")
        if g is not None and g2 is not None:
            ctx.check(abs(g - g2) <= 1e-12, "angle_2vec3D:symmetric", f"angle_2vec3D({V1},{V2}) = {g!r}, swapped {g2!r}")
    ok, s12 = gcall(ctx, "signed_angle_2vec3D", geom.signed_angle_2vec3D, V(V1), V(V2), V(N))
    ok2, s21 = gcall(ctx, "signed_angle_2vec3D", geom.signed_angle_2vec3D, V(V2), V(V1), V(N))
    gs12 = gs21 = None
    if ok and ok2:
        gs12 = in_range("signed_angle_2vec3D:range", s12, -PI, PI, f"signed_angle_2vec3D({V1},{V2},{N})")
        gs21 = in_range("signed_angle_2vec3D:range", s21, -PI, PI, f"signed_angle_2vec3D({V2},{V1},{N})")
    # ---- values on well-conditioned inputs
    n1, n2 = fdot(f1, f1), fdot(f2, f2)
    S = fcross(f1, f2)
    if n1 > 0 and n2 > 0:
        ref = kahan_angle(V1, V2)
        g = real(a3) if ok else None
        if g is not None:
            ctx.check(abs(g - ref) <= 1e-9, "angle_2vec3D:value", f"angle_2vec3D({V1},{V2}) = {g!r}, expected {ref!r}")
        sn = fdot(S, fN)
        nn = fdot(fN, fN)
        off_degenerate = nn > 0 and sn * sn >= Fr(1, 10 ** 8) * n1 * n2 * nn        # |(V1 x V2).N| >= 1e-4 |V1||V2||N|
        ctx.label("signed=generic" if off_degenerate else "signed=degenerate")
        if off_degenerate and gs12 is not None and gs21 is not None:
            ctx.nontrivial()
            ctx.check(abs(gs12 + gs21) <= 1e-12, "signed_angle_2vec3D:antisymmetric",
                      f"signed_angle_2vec3D({V1},{V2},{N}) = {gs12!r}, swapped = {gs21!r}")
            ctx.check(abs(abs(gs12) - ref) <= 1e-9 and (gs12 > 0) == (sn > 0), "signed_angle_2vec3D:value",
                      f"signed_angle_2vec3D({V1},{V2},{N}) = {gs12!r}, unsigned angle {ref!r}, (V1xV2).N = {float(sn)!r}")
            ok, sflip = gcall(ctx, "signed_angle_2vec3D", geom.signed_angle_2vec3D, V(V1), V(V2), V([-x for x in N]))
            if ok and real(sflip) is not None:
                ctx.check(abs(real(sflip) + gs12) <= 1e-12, "signed_angle_2vec3D:normal-flip", f"flipping N does not negate the angle: {gs12!r} vs {sflip!r}")
    else:
        ctx.label("signed=zero-vector")
    # signed_angle_3pts == signed_angle_2vec3D on the differences
    ok, s3 = gcall(ctx, "signed_angle_3pts", geom.signed_angle_3pts, V(A), V(B), V(C), V(N))
    ok2, s3r = gcall(ctx, "signed_angle_2vec3D", geom.signed_angle_2vec3D, V(A) - V(B), V(C) - V(B), V(N))
    if ok and ok2 and real(s3) is not None and real(s3r) is not None:
        ctx.check(real(s3) == real(s3r), "signed_angle_3pts", f"signed_angle_3pts({A},{B},{C},{N}) = {s3!r} != signed_angle_2vec3D(A-B,C-B,N) = {s3r!r}")
        in_range("signed_angle_3pts:range", s3, -PI, PI, "signed_angle_3pts")
    # ---- corner angle / cotangent of a triangle
    BA, BC = fsub(fA, fB), fsub(fC, fB)
    nBA, nBC = fdot(BA, BA), fdot(BC, BC)
    crB = fcross(BA, BC)
    if nBA > 0 and nBC > 0 and float(max(abs(x) for x in fB)) <= 1e3 * fsqrt(min(nBA, nBC)):
        sin2 = fdot(crB, crB) / (nBA * nBC)
        ref = kahan_angle([float(x) for x in BA], [float(x) for x in BC])
        g = real(t) if t is not None else None
        if g is not None:
            ctx.check(abs(g - ref) <= 1e-9, "angle_3pts:value", f"angle_3pts({A},{B},{C}) = {g!r}, expected {ref!r}")
        if sin2 >= Fr(1, 10 ** 4):                      # angle in [0.01, pi - 0.01]
            ctx.label("corner=generic")
            ctx.nontrivial()
            ok, ct = gcall(ctx, "cotan", geom.cotan, V(A), V(B), V(C))
            if ok:
                gc = real(ct)
                cref = float(fdot(BA, BC)) / fsqrt(fdot(crB, crB))
                tol = 1e-9 * max(1.0, cref * cref)
                if ctx.check(gc is not None and abs(gc - cref) <= tol, "cotan:value", f"cotan({A},{B},{C}) = {ct!r}, cos/sin = {cref!r}") and g is not None:
                    ctx.check(abs(gc - 1.0 / math.tan(g)) <= 10 * tol if abs(g - PI / 2) > 1e-6 else abs(gc) <= 1e-5, "cotan:reciprocal-tangent",
                              f"cotan({A},{B},{C}) = {gc!r} but 1/tan(angle_3pts) = {1.0 / math.tan(g)!r}")
        else:
            ctx.label("corner=flat")
    else:
        ctx.label("corner=degenerate")
    # ---- points of another dimension: a function that answers for planar points must give what it gives for the same
    # configuration embedded in the plane z=0 (and an angle of three points stays in [0,pi]); raising is accepted (unsupported)
    A2, B2, C2 = case.get("tri2") or ([1.0, 0.0], [0.0, 0.0], [0.0, 1.0])
    d1, d2 = fsub(fv(A2), fv(B2)), fsub(fv(C2), fv(B2))
    if d1[0] < 0 and d2[0] < 0 and d1[1] * d2[1] < 0:
        ctx.label("planar=straddles-negative-x-axis")
    lifts = [("angle_3pts", geom.angle_3pts, [A2, B2, C2]), ("angle_3pts", geom.angle_3pts, [C2, B2, A2]), ("cotan", geom.cotan, [A2, B2, C2]),
             ("triangle_area", geom.triangle_area, [A2, B2, C2]), ("aspect_ratio", geom.aspect_ratio, [A2, B2, C2]),
             ("angle_2vec3D", geom.angle_2vec3D, [[float(x) for x in d1], [float(x) for x in d2]]),
             ("distance", geom.distance, [A2, C2]), ("dot", geom.dot, [A2, C2])]
    for nm, f, pts in lifts:
        try:
            r2 = f(*[V(q) for q in pts])
        except Exception:
            ctx.label(nm + ":planar-points-unsupported")
            continue
        ctx.label(nm + ":planar-points-supported")
        try:
            r3 = f(*[V(list(q) + [0.0]) for q in pts])
        except Exception:
            continue
        g2, g3 = real(r2), real(r3)
        if g3 is None or not math.isfinite(g3):
            continue
        if nm in ("angle_3pts", "angle_2vec3D"):
            ctx.check(g2 is not None and 0.0 <= g2 <= PI, nm + ":range", f"{nm}({pts}) = {r2!r} for planar points is not in [0,pi]")
        well = nm not in ("cotan", "aspect_ratio") or abs(g3) <= 1e3
        if nm in ("angle_3pts", "angle_2vec3D", "cotan") and (not any(d1) or not any(d2)):
            well = False                 # the angle with a zero vector is a convention, only its range is asserted
        if well:
            ctx.check(g2 is not None and abs(g2 - g3) <= 1e-9 * max(1.0, abs(g3)), nm + ":planar-vs-embedded",
                      f"{nm}({pts}) = {r2!r} for planar points but {r3!r} for the same points in the plane z=0")
    # ---- 2D
    u, w = case["u"], case["w"]
    fu, fw = fv(u), fv(w)
    ok, a2 = gcall(ctx, "angle_2vec2D", geom.angle_2vec2D, V(u), V(w))
    ok2, a2b = gcall(ctx, "angle_2vec2D", geom.angle_2vec2D, V(w), V(u))
    if ok and ok2:
        g, g2 = real(a2), real(a2b)
        if ctx.check(g is not None and g2 is not None, "angle_2vec2D:type", f"{a2!r}, {a2b!r}"):
            ctx.check(g == -g2 or (g == 0 and g2 == 0), "angle_2vec2D:antisymmetric", f"angle_2vec2D({u},{w}) = {g!r}, swapped {g2!r}")
            if fdot(fu, fu) > 0 and fdot(fw, fw) > 0:
                ref = math.atan2(float(fdet2(fu, fw)), float(fdot(fu, fw)))
                k = round((g - ref) / (2 * PI))
                ctx.check(abs(g - ref - 2 * PI * k) <= 1e-9, "angle_2vec2D:value", f"angle_2vec2D({u},{w}) = {g!r}, signed angle {ref!r} (mod 2pi)")
                # consistent with the 3D signed angle about +Z, off the degenerate set (parallel vectors)
                if fdet2(fu, fw) ** 2 >= Fr(1, 10 ** 8) * fdot(fu, fu) * fdot(fw, fw):
                    ok, s = gcall(ctx, "signed_angle_2vec3D", geom.signed_angle_2vec3D, V(u + [0.0]), V(w + [0.0]), Vec(0., 0., 1.))
                    if ok and real(s) is not None:
                        ctx.check(abs(principal_angle(g) - real(s)) <= 1e-9, "angle_2vec2D:vs-3D", f"angle_2vec2D({u},{w}) = {g!r} but signed 3D angle about Z = {s!r}")


# =============================================================================================== 4b. near-degenerate corners (exact data)
# Corners whose angle is within 1e-2 .. 1e-13 rad of 0 or of pi, thin triangles. The points are integers times one power of two, so that
# the differences A-B, C-B are exact in floating point and every reference (dot, cross, circumcentre) is a rational number evaluated
# with fractions.Fraction. Each tolerance is the first-order conditioning of the asserted quantity under relative perturbations of size
# eps of the two directions (what a backward-stable evaluation commits), times a safety factor K of 30-100 over what atan2 / cos-over-sin
# / bisector-intersection evaluations were measured to commit on 80000 generated cases:
#   angle (any of them)            absolute error       <= K_ANG  * eps                     (measured <= 2 eps)
#   cotangent                      relative error       <= K_COT  * eps / sin(angle)        (measured <= 0.8 eps / sin)
#   cotangent vs 1/tan(own angle)  relative difference  <= 2 K_COT * eps / sin(angle)       (measured <= 1.7 eps / sin)
#   circumcentre                   distance to exact    <= K_CC   * eps * (R + |coords|) / sin(smallest angle)     (measured <= 0.6 of that with K=1)
K_ANG, K_COT, K_CC = 32, 32, 64
SHARP_SCALES = [0, 0, 0, "-q", "-q", -10, -20, -43, -70, 20, 60]


@st.composite
def sharp_case(draw):
    q = draw(st.integers(7, 43))                                   # the angle is about 2^-q / 30 .. 2^-q * 30
    cls = draw(st.sampled_from(["full", "full", "lever", "axis"]))
    sgn = draw(st.sampled_from([1, -1]))                           # +1: angle near 0, -1: near pi
    flat = draw(st.sampled_from([None, None, 0, 1, 2]))            # planar configuration: this coordinate of A-B, C-B is zero
    small = st.integers(-6, 6)

    def vec3(elem):
        return [0 if i == flat else draw(elem) for i in range(3)]

    ka, kc = draw(st.integers(1, 5)), draw(st.integers(1, 5))
    if cls == "full":                                              # full mantissas: the float products of the coordinates are inexact
        u = vec3(st.integers(-2 ** q, 2 ** q))
        j = draw(st.sampled_from([i for i in range(3) if i != flat]))
        u[j] = draw(st.sampled_from([1, -1])) * draw(st.integers(2 ** (q - 1), 2 ** q))
        ea = vec3(small) if draw(st.booleans()) else [0, 0, 0]
        ec = vec3(small)
        if draw(st.integers(0, 2)) == 0:                           # needle: |BA| ~ |BC|
            kc = ka
        BA = [ka * x + y for x, y in zip(u, ea)]
        BC = [sgn * (kc * x + y) for x, y in zip(u, ec)]
    elif cls == "lever":                                           # one short and one long arm
        d, e = vec3(small), vec3(small)
        m = draw(st.integers(2 ** (q - 1), 2 ** q))
        BA = [ka * x for x in d]
        BC = [sgn * (m * x + y) for x, y in zip(d, e)]
        if draw(st.booleans()):
            BA, BC = BC, BA
    else:                                                          # along a coordinate axis: most products vanish
        j = draw(st.sampled_from([i for i in range(3) if i != flat]))
        d = [draw(st.sampled_from([1, -1])) if i == j else 0 for i in range(3)]
        e = vec3(small)
        BA = [ka * 2 ** q * x for x in d]
        BC = [sgn * (kc * 2 ** q * x + y) for x, y in zip(d, e)]
    assume(any(fcross(BA, BC)))                                     # Python ints: exact
    B = [draw(st.integers(-8, 8)) for _ in range(3)]
    if flat is not None and draw(st.booleans()):
        N = [draw(st.sampled_from([1, -1, 3, -2])) if i == flat else 0 for i in range(3)]
    else:
        N = [draw(small) for _ in range(3)]
    P1, P2 = [draw(st.integers(-8, 8)) for _ in range(2)], [draw(st.integers(-8, 8)) for _ in range(2)]
    sc = draw(st.sampled_from(SHARP_SCALES))
    s = 2.0 ** (-q if sc == "-q" else sc)                          # exact: every coordinate is an integer below 2^47 times s
    return {"A": [float(b + x) * s for b, x in zip(B, BA)], "B": [float(b) * s for b in B], "C": [float(b + x) * s for b, x in zip(B, BC)],
            "N": [float(x) for x in N], "P1": [float(x) * s for x in P1], "P2": [float(x) * s for x in P2], "cls": cls, "q": q, "scale_exp": (-q if sc == "-q" else sc), "flat": flat,
            "form": draw(st.sampled_from(["vec", "vec", "f8"]))}


def fn_sharp(case, ctx):
    from mouette import geometry as geom
    A, B, C, N = case["A"], case["B"], case["C"], case["N"]
    form = case.get("form", "vec")
    V = lambda v: make(v, form)
    PI = math.pi
    fA, fB, fC, fN = fv(A), fv(B), fv(C), fv(N)
    u, w = fsub(fA, fB), fsub(fC, fB)
    ctx.label("class=" + str(case.get("cls")), "scale=2^%s" % case.get("scale_exp"), "form=" + form, "planar" if case.get("flat") is not None else "spatial")
    if not all(Fr(float(x)) == x for x in u + w):
        ctx.label("differences=inexact")               # not generated: the references below assume exact differences
        return
    nu, nw = fdot(u, u), fdot(w, w)
    S = fcross(u, w)
    c2 = fdot(S, S)
    if nu == 0 or nw == 0 or c2 == 0:
        ctx.label("corner=exactly-degenerate")         # the universal laws of exactly degenerate corners are in angle_laws
        return
    dotv = fdot(u, w)
    sin = fsqrt(c2 / (nu * nw))
    theta = math.atan2(fsqrt(c2), float(dotv))         # both arguments correct to an ulp
    off = theta if dotv > 0 else PI - theta
    ctx.label("corner=near-0" if dotv > 0 else "corner=near-pi", "offset~1e-%d" % min(15, max(0, int(-math.log10(max(off, 1e-300))))))
    if off <= 1e-6:
        ctx.nontrivial()
    if off <= 1e-10:
        ctx.label("flat-within-1e-10")
    uf, wf = [float(x) for x in u], [float(x) for x in w]
    TA = K_ANG * EPS

    def scalar(sig, x, what, lo=None, hi=None):
        g = real(x)
        ok = g is not None and math.isfinite(g) and (lo is None or lo <= g <= hi)
        return g if ctx.check(ok, sig, f"{what} = {x!r}" + ("" if lo is None else f" is not a real number of [{lo},{hi}]")) else None

    # ---- unsigned angles: range, symmetry, value
    g = None
    ok, t = gcall(ctx, "angle_3pts", geom.angle_3pts, V(A), V(B), V(C))
    ok2, t2 = gcall(ctx, "angle_3pts", geom.angle_3pts, V(C), V(B), V(A))
    if ok and ok2:
        g, g2 = scalar("angle_3pts:range", t, f"angle_3pts({A},{B},{C})", 0.0, PI), scalar("angle_3pts:range", t2, f"angle_3pts({C},{B},{A})", 0.0, PI)
        if g is not None and g2 is not None:
            ctx.check(abs(g - g2) <= TA, "angle_3pts:symmetric", f"angle_3pts({A},{B},{C}) = {g!r} but angle_3pts({C},{B},{A}) = {g2!r}")
            if not ctx.check(abs(g - theta) <= TA, "angle_3pts:value",
                             f"angle_3pts({A},{B},{C}) = {g!r}, exact angle {theta!r} (off {'0' if dotv > 0 else 'pi'} by {off!r}); difference {abs(g - theta)!r} > {TA!r}"):
                g = None
    ok, a3 = gcall(ctx, "angle_2vec3D", geom.angle_2vec3D, V(uf), V(wf))
    ok2, a3b = gcall(ctx, "angle_2vec3D", geom.angle_2vec3D, V(wf), V(uf))
    if ok and ok2:
        h, h2 = scalar("angle_2vec3D:range", a3, f"angle_2vec3D({uf},{wf})", 0.0, PI), scalar("angle_2vec3D:range", a3b, f"angle_2vec3D({wf},{uf})", 0.0, PI)
        if h is not None and h2 is not None:
            ctx.check(abs(h - h2) <= TA, "angle_2vec3D:symmetric", f"angle_2vec3D({uf},{wf}) = {h!r}, swapped {h2!r}")
            ctx.check(abs(h - theta) <= TA, "angle_2vec3D:value", f"angle_2vec3D({uf},{wf}) = {h!r}, exact angle {theta!r}; difference {abs(h - theta)!r} > {TA!r}")

    # ---- cotangent = cos/sin of the exact corner = reciprocal tangent of the angle
    rel = K_COT * EPS / sin
    if rel <= 0.25:
        cref = float(dotv) / fsqrt(c2)
        for (P, Q, R_) in ((A, B, C), (C, B, A)):
            ok, ct = gcall(ctx, "cotan", geom.cotan, V(P), V(Q), V(R_))
            if not ok:
                continue
            gc = scalar("cotan:type", ct, f"cotan({P},{Q},{R_})")
            if gc is None:
                continue
            if ctx.check(abs(gc - cref) <= rel * abs(cref), "cotan:value",
                         f"cotan({P},{Q},{R_}) = {gc!r}, exact cos/sin = {cref!r} (angle off {'0' if dotv > 0 else 'pi'} by {off!r}): relative error {abs(gc - cref) / abs(cref)!r} > {rel!r}") and g is not None:
                rt = 1.0 / math.tan(g)
                ctx.check(abs(gc - rt) <= 2 * rel * abs(gc), "cotan:reciprocal-tangent",
                          f"cotan({P},{Q},{R_}) = {gc!r} but 1/tan(angle_3pts) = {rt!r} with angle_3pts = {g!r}: relative difference {abs(gc - rt) / abs(gc)!r} > {2 * rel!r}")
    else:
        ctx.label("cotan=beyond-resolution")

    # ---- signed angles about N: range, antisymmetry, value, orientation
    nn = fdot(fN, fN)
    sn = fdot(S, fN)
    ok, s12 = gcall(ctx, "signed_angle_2vec3D", geom.signed_angle_2vec3D, V(uf), V(wf), V(N))
    ok2, s21 = gcall(ctx, "signed_angle_2vec3D", geom.signed_angle_2vec3D, V(wf), V(uf), V(N))
    if ok and ok2:
        gs12 = scalar("signed_angle_2vec3D:range", s12, f"signed_angle_2vec3D({uf},{wf},{N})", -PI, PI)
        gs21 = scalar("signed_angle_2vec3D:range", s21, f"signed_angle_2vec3D({wf},{uf},{N})", -PI, PI)
        # the orientation (V1 x V2).N is decided in floating point when it exceeds the rounding of the cross product, 64 eps |V1||V2||N|
        decided = nn > 0 and sn * sn >= Fr(64 * EPS) ** 2 * nu * nw * nn
        ctx.label("signed=decided" if decided else "signed=undecided")
        if decided and gs12 is not None and gs21 is not None:
            ctx.check(abs(gs12 + gs21) <= TA, "signed_angle_2vec3D:antisymmetric", f"signed_angle_2vec3D({uf},{wf},{N}) = {gs12!r}, swapped = {gs21!r}")
            ctx.check(abs(abs(gs12) - theta) <= TA and (gs12 > 0) == (sn > 0), "signed_angle_2vec3D:value",
                      f"signed_angle_2vec3D({uf},{wf},{N}) = {gs12!r}, exact unsigned angle {theta!r}, sign of (V1xV2).N = {'+' if sn > 0 else '-'}")
            ok, sflip = gcall(ctx, "signed_angle_2vec3D", geom.signed_angle_2vec3D, V(uf), V(wf), V([-x for x in N]))
            if ok and real(sflip) is not None:
                ctx.check(abs(real(sflip) + gs12) <= TA, "signed_angle_2vec3D:normal-flip", f"flipping N does not negate the angle: {gs12!r} vs {sflip!r}")
            ok, s3 = gcall(ctx, "signed_angle_3pts", geom.signed_angle_3pts, V(A), V(B), V(C), V(N))
            if ok:
                g3 = scalar("signed_angle_3pts:range", s3, f"signed_angle_3pts({A},{B},{C},{N})", -PI, PI)
                if g3 is not None:
                    ctx.check(abs(g3 - gs12) <= TA, "signed_angle_3pts", f"signed_angle_3pts({A},{B},{C},{N}) = {g3!r} but signed_angle_2vec3D(A-B,C-B,N) = {gs12!r}")

    # ---- planar vectors
    flat = case.get("flat")
    if flat is not None and u[flat] == 0 and w[flat] == 0:
        ax = [i for i in range(3) if i != flat]
        u2, w2 = [uf[i] for i in ax], [wf[i] for i in ax]
        ok, a2 = gcall(ctx, "angle_2vec2D", geom.angle_2vec2D, V(u2), V(w2))
        ok2, a2b = gcall(ctx, "angle_2vec2D", geom.angle_2vec2D, V(w2), V(u2))
        if ok and ok2:
            p, p2 = scalar("angle_2vec2D:type", a2, f"angle_2vec2D({u2},{w2})"), scalar("angle_2vec2D:type", a2b, f"angle_2vec2D({w2},{u2})")
            if p is not None and p2 is not None:
                ctx.check(abs(p + p2) <= TA, "angle_2vec2D:antisymmetric", f"angle_2vec2D({u2},{w2}) = {p!r}, swapped {p2!r}")
                ref = math.atan2(float(fdet2(fv(u2), fv(w2))), float(fdot(fv(u2), fv(w2))))
                k = round((p - ref) / (2 * PI))
                ctx.check(abs(p - ref - 2 * PI * k) <= TA, "angle_2vec2D:value", f"angle_2vec2D({u2},{w2}) = {p!r}, exact signed angle {ref!r} (mod 2pi); difference {abs(p - ref - 2 * PI * k)!r} > {TA!r}")

        # two lines of these directions through two nearby points: near-parallel, not parallel
        p1, p2 = case.get("P1"), case.get("P2")
        if p1 is not None and p2 is not None:
            f1, f2, g1, g2 = fv(p1), fv(p2), fv(u2), fv(w2)
            det = fdet2(g1, g2)
            if sin >= 1e-10:                                           # see ASSUMPTIONS (parallelism threshold of intersect_2lines2D)
                ctx.label("lines=near-parallel")
                ok, X = gcall(ctx, "intersect_2lines2D", geom.intersect_2lines2D, *[make(z, "vec") for z in (p1, u2, p2, w2)])      # documented for Vec
                if ok and ctx.check(X is not None, "intersect_2lines2D:not-parallel",
                                    f"lines ({p1},{u2}) ({p2},{w2}) gave None but the sine of their angle is {sin!r}, the lines meet"):
                    xv = vec_of(X, 2)
                    if ctx.check(xv is not None and bool(np.all(np.isfinite(xv))), "intersect_2lines2D:type", f"lines ({p1},{u2}) ({p2},{w2}): result {X!r} is not a 2D point"):
                        tt = fdet2(fsub(f2, f1), g2) / det
                        Xr = [f1[i] + tt * g1[i] for i in range(2)]
                        reach = sum(fsqrt(fdot(z, z)) for z in (f1, f2, fsub(Xr, f1), fsub(Xr, f2)))
                        ltol = K_CC * EPS * reach / sin
                        err = fsqrt(fdot(fsub(fv(xv), Xr), fsub(fv(xv), Xr)))
                        ctx.check(err <= ltol, "intersect_2lines2D:value",
                                  f"lines ({p1},{u2}) ({p2},{w2}): {xv.tolist()}, exact intersection {[float(z) for z in Xr]}: distance {err!r} > {ltol!r} (sine of the angle {sin!r})")
            else:
                ctx.label("lines=not-asserted(sine<1e-10)")

    # ---- area of the thin triangle ABC: |AB x AC| / 2, the cross product cancels to eps * (product of two edge lengths)
    P3 = [fA, fB, fC]
    Lmax2 = float(max(fdot(fsub(P3[(i + 1) % 3], P3[i]), fsub(P3[(i + 1) % 3], P3[i])) for i in range(3)))
    ok, ar = gcall(ctx, "triangle_area", geom.triangle_area, V(A), V(B), V(C))
    if ok:
        ga = scalar("triangle_area:type", ar, f"triangle_area({A},{B},{C})")
        aref = fsqrt(c2) / 2
        if ga is not None:
            ctx.check(abs(ga - aref) <= K_COT * EPS * Lmax2, "triangle_area:value",
                      f"triangle_area({A},{B},{C}) = {ga!r}, exact |AB x AC|/2 = {aref!r}: difference {abs(ga - aref)!r} > {K_COT * EPS * Lmax2!r} (longest edge squared {Lmax2!r})")

    # ---- circumcentre of the thin triangle ABC against the exact (rational) circumcentre
    sins = []
    for i in range(3):
        a_, b_ = fsub(P3[(i + 1) % 3], P3[i]), fsub(P3[(i + 2) % 3], P3[i])
        x_ = fcross(a_, b_)
        sins.append(fsqrt(fdot(x_, x_) / (fdot(a_, a_) * fdot(b_, b_))))
    smin = min(sins)
    if smin < 1e-10:
        ctx.label("circumcentre=not-asserted(sine<1e-10)")          # see ASSUMPTIONS (parallelism threshold of intersect_2lines2D)
        return
    ctx.label("circumcentre=thin<=1e-6" if smin <= 1e-6 else "circumcentre=thin")
    a_, b_ = fsub(fB, fA), fsub(fC, fA)
    x_ = fcross(a_, b_)
    x2, na, nb = fdot(x_, x_), fdot(a_, a_), fdot(b_, b_)
    t_ = fcross([na * bb - nb * aa for aa, bb in zip(a_, b_)], x_)
    O = [fA[i] + t_[i] / (2 * x2) for i in range(3)]                # A + ((|a|^2 b - |b|^2 a) x (a x b)) / (2 |a x b|^2)
    R_ref = fsqrt(fdot(fsub(O, fA), fsub(O, fA)))
    Smag = float(max(abs(z) for p_ in P3 for z in p_))
    tol = K_CC * EPS * (R_ref + Smag) / smin
    Of = [float(z) for z in O]
    pts = {"A": A, "B": B, "C": C}
    for perm in ("ABC", "BCA", "CAB", "ACB"):
        ok, cc = gcall(ctx, "circumcenter", geom.circumcenter, *[V(pts[k]) for k in perm])
        if not ok:
            continue
        cv = vec_of(cc, 3)
        if not ctx.check(cv is not None and bool(np.all(np.isfinite(cv))), "circumcenter:type", f"circumcenter({[pts[k] for k in perm]}) = {cc!r}"):
            continue
        fcv = fv(cv)
        dist = [fsqrt(fdot(fsub(fcv, p_), fsub(fcv, p_))) for p_ in P3]
        if not ctx.check(max(dist) - min(dist) <= 2 * tol, "circumcenter:equidistant",
                         f"circumcenter({[pts[k] for k in perm]}) = {cv.tolist()}: distances to the three points {dist} differ by {max(dist) - min(dist)!r} > {2 * tol!r} "
                         f"(circumradius {R_ref!r}, smallest sine {smin!r})"):
            continue
        err = fsqrt(fdot(fsub(fcv, O), fsub(fcv, O)))
        ctx.check(err <= tol, "circumcenter:value", f"circumcenter({[pts[k] for k in perm]}) = {cv.tolist()}, exact circumcentre {Of}: distance {err!r} > {tol!r} (circumradius {R_ref!r}, smallest sine {smin!r})")


# =============================================================================================== 5. rotations
ANGLES = st.one_of(st.floats(min_value=-10, max_value=10, allow_nan=False, width=64), st.integers(-7, 7),
                   st.integers(-8, 8).map(lambda k: k * math.pi / 4),
                   st.sampled_from([0.0, 1e-13, -1e-13, 1e-9, 2 * math.pi, 100.0, -1000.0]))


@st.composite
def rotation_case(draw):
    mode = draw(st.sampled_from(MODES))
    v3 = vec_st(mode, 3)
    axis = draw(st.one_of(v3, st.sampled_from([[0.0, 0.0, 1.0], [0.0, 0.0, -1.0], [0.0, 0.0, -3.0], [1.0, 0.0, 0.0], [0.0, 0.0, 0.0], [0.0, 2.0, 0.0],
                                                     [0.0, 0.0, 1.0000005], [0.6, 0.8000004, 0.0], [0.0, 0.9999995, 0.0]])))
    rv = st.lists(st.floats(-3, 3, allow_nan=False, width=64), min_size=3, max_size=3)
    return {"mode": mode, "v": draw(v3), "w": draw(v3), "axis": axis, "axis_scale_exp": draw(st.sampled_from([0] * 5 + [-30, -70, 40])),
            "a": draw(ANGLES), "b": draw(ANGLES), "v2": draw(vec_st(mode, 2)),
            "form": draw(st.sampled_from(FORMS)), "Ra": draw(rv), "Rb": draw(rv)}


def rodrigues(v, axis, angle):
    v, k = np.asarray(v, float), np.asarray(axis, float)
    k = k / np.linalg.norm(k)
    return v * math.cos(angle) + np.cross(k, v) * math.sin(angle) + k * np.dot(k, v) * (1 - math.cos(angle))


def fn_rotation(case, ctx):
    from mouette.geometry import Vec
    from mouette.geometry import rotations as rot
    from scipy.spatial.transform import Rotation
    ctx.label("mode=" + case["mode"])
    v, w, axis, a, b, v2 = (case[k] for k in ("v", "w", "axis", "a", "b", "v2"))
    form = case["form"]
    nv, nw, nax = np.array(v, float), np.array(w, float), np.array(axis, float)
    sv = max(1.0, float(np.max(np.abs(nv))), float(np.max(np.abs(nw))))
    TOL = 1e-10 * sv * (1 + abs(a) + abs(b))          # cos/sin of angle*(1+eps)

    # ---- 2D
    z = complex(v2[0], v2[1])
    s2 = max(1.0, abs(z))
    res = {}
    for nm, ang, src in (("a", a, v2), ("0", 0.0, v2), ("a+b", a + b, v2)):
        ok, r = gcall(ctx, "rotate_2d", rot.rotate_2d, make(src, form), ang)
        if ok:
            rvv = vec_of(r, 2)
            if ctx.check(rvv is not None and isinstance(r, Vec), "rotate_2d:type", f"rotate_2d({src},{ang}) = {r!r}"):
                ref = z * cmath.exp(1j * ang)
                ctx.check(abs(complex(rvv[0], rvv[1]) - ref) <= 1e-10 * s2 * (1 + abs(ang)), "rotate_2d:value", f"rotate_2d({src},{ang}) = {rvv}, expected {ref}")
                ctx.check(abs(float(np.linalg.norm(rvv)) - abs(z)) <= 1e-12 * s2, "rotate_2d:isometry", f"|rotate_2d({src},{ang})| = {np.linalg.norm(rvv)!r}, |v| = {abs(z)!r}")
                res[nm] = r
    if "a" in res and "a+b" in res:
        ok, r = gcall(ctx, "rotate_2d", rot.rotate_2d, res["a"], b)
        if ok and vec_of(r, 2) is not None:
            ctx.check(bool(np.all(np.abs(vec_of(r, 2) - vec_of(res["a+b"], 2)) <= 1e-10 * s2 * (1 + abs(a) + abs(b)))), "rotate_2d:additive",
                      f"rotate_2d(rotate_2d({v2},{a}),{b}) = {r!r} but rotate_2d({v2},{a + b}) = {res['a+b']!r}")
    if "0" in res:
        ctx.check(np.array_equal(vec_of(res["0"], 2), np.array(v2, float)), "rotate_2d:identity", f"rotate_2d({v2},0) = {res['0']!r}")

    # ---- 3D about an axis
    nrm = float(np.linalg.norm(nax))
    axis0, nax0, nrm0 = axis, nax, nrm
    if nrm >= 1e-3:
        ctx.label("axis=ok")
        ctx.nontrivial(abs(a) > 1e-6)
        if case.get("axis_scale_exp"):                  # the rotation depends on the direction of the axis only: any power of two of it
            axis = [x * 2.0 ** case["axis_scale_exp"] for x in axis]
            nax = np.array(axis, float)
            nrm = float(np.linalg.norm(nax))
            ctx.label("axis-length=2^%d" % case["axis_scale_exp"])

        def R(x, ang):
            ok, r = gcall(ctx, "rotate_around_axis", rot.rotate_around_axis, make(list(x), form) if not isinstance(x, np.ndarray) else x, make(axis, form), ang)
            if not ok:
                return None
            rvv = vec_of(r, 3)
            return rvv if ctx.check(rvv is not None, "rotate_around_axis:type", f"rotate_around_axis({list(x)},{axis},{ang}) = {r!r}") else None

        rv_, rw_ = R(v, a), R(w, a)
        if rv_ is not None and rw_ is not None:
            ctx.check(bool(np.all(np.abs(rv_ - rodrigues(nv, nax, a)) <= TOL)), "rotate_around_axis:value",
                      f"rotate_around_axis({v},{axis},{a}) = {rv_}, Rodrigues formula gives {rodrigues(nv, nax, a)}")
            ctx.check(abs(np.linalg.norm(rv_) - np.linalg.norm(nv)) <= TOL and abs(np.dot(rv_, rw_) - np.dot(nv, nw)) <= TOL * sv, "rotate_around_axis:isometry",
                      f"rotate_around_axis(.,{axis},{a}) maps v={v}, w={w} to {rv_}, {rw_}: |v| {np.linalg.norm(nv)!r}->{np.linalg.norm(rv_)!r}, v.w {np.dot(nv, nw)!r}->{np.dot(rv_, rw_)!r}")
            ctx.check(abs(np.dot(rv_, nax) - np.dot(nv, nax)) <= TOL * max(1.0, nrm), "rotate_around_axis:axial-component", f"component along the axis changed: {np.dot(nv, nax)!r} -> {np.dot(rv_, nax)!r}")
            rb = R(rv_.copy(), b)
            rab = R(v, a + b)
            if rb is not None and rab is not None:
                ctx.check(bool(np.all(np.abs(rb - rab) <= 2 * TOL)), "rotate_around_axis:additive", f"R({b})R({a})v = {rb} but R({a + b})v = {rab} (v={v}, axis={axis})")
            rback = R(rv_.copy(), -a)
            if rback is not None:
                ctx.check(bool(np.all(np.abs(rback - nv) <= 2 * TOL)), "rotate_around_axis:inverse", f"R(-{a})R({a})v = {rback}, v = {v}")
        rax = R(axis, a)
        if rax is not None:
            ctx.check(bool(np.all(np.abs(rax - nax) <= 1e-10 * max(1.0, nrm) * (1 + abs(a)))), "rotate_around_axis:fixes-axis", f"rotate_around_axis(axis={axis}, axis, {a}) = {rax}")
        r0 = R(v, 0.0)
        if r0 is not None:
            ctx.check(np.array_equal(r0, nv), "rotate_around_axis:identity", f"rotate_around_axis({v},{axis},0) = {r0}")
    else:
        ctx.label("axis=zero")

    # ---- rotation taking Z to a direction
    axis, nax, nrm = axis0, nax0, nrm0
    if nrm >= 1e-3:
        d = nax / nrm
        anti = d[2] < 0 and math.hypot(d[0], d[1]) <= 1e-6
        ctx.label("from_z=antiparallel" if anti else "from_z=parallel" if math.hypot(d[0], d[1]) <= 1e-6 else "from_z=generic")
        ok, r = gcall(ctx, "axis_rot_from_z", rot.axis_rot_from_z, make(axis, {"list": "vec", "tuple": "vec", "ilist": "ivec", "ituple": "ivec"}.get(form, form)))
        if ok:
            rvv = vec_of(r, 3)
            if ctx.check(rvv is not None, "axis_rot_from_z:type", f"axis_rot_from_z({axis}) = {r!r}") and not anti:
                ang = float(np.linalg.norm(rvv))
                img = rodrigues([0.0, 0.0, 1.0], rvv, ang) if ang > 0 else np.array([0.0, 0.0, 1.0])
                ctx.check(ang <= math.pi + 1e-12 and bool(np.all(np.abs(img - d) <= 1e-7)), "axis_rot_from_z:aligns",
                          f"axis_rot_from_z({axis}) = {rvv} (angle {ang!r}) maps Z to {img}, expected {d}")

    # ---- match_rotation: minimal rotation from Ra to s(Rb), s in the octahedral group
    Ra, Rb = Rotation.from_rotvec(case["Ra"]), Rotation.from_rotvec(case["Rb"])
    ok, m = gcall(ctx, "match_rotation", rot.match_rotation, Ra, Rb)
    if ok and ctx.check(isinstance(m, Rotation), "match_rotation:type", f"{m!r}"):
        G = Rotation.create_group("O")
        cands = [Rb * S * Ra.inv() for S in G]
        mags = [float(c.magnitude()) for c in cands]
        ctx.check(abs(float(m.magnitude()) - min(mags)) <= 1e-9, "match_rotation:minimal", f"match_rotation magnitude {float(m.magnitude())!r}, minimum over the group {min(mags)!r}")
        ctx.check(min(float((m * c.inv()).magnitude()) for c in cands) <= 1e-9, "match_rotation:member", "result is not Rb*S*Ra^-1 for any S of the group")


# =============================================================================================== 6. scalar maths
TWO_PI_F = Fr(2 * math.pi)                                   # the float 2*pi, exactly
# 2*pi - float(2*pi) from 50 digits of pi: the period every fmod / remainder based reduction really uses differs from 2*pi by this much
TWO_PI_DELTA = float(2 * Fr("3.14159265358979323846264338327950288419716939937510") - TWO_PI_F)


def mod_2pi_defect(x):
    """(k, x - k*float(2pi)) for the integer k nearest to x/2pi; x a Fraction"""
    k = round(x / TWO_PI_F)
    return k, x - k * TWO_PI_F


@st.composite
def maths_case(draw):
    small = st.one_of(st.floats(min_value=-1e4, max_value=1e4, allow_nan=False, width=64), st.integers(-12, 12).map(lambda k: k * math.pi / 2),
                      st.integers(-12, 12).map(lambda k: k * math.pi), st.sampled_from([0.0, -0.0, 1e-20, -1e-20, math.pi, -math.pi, 2 * math.pi, 3.141592653589794, 3.1415926535897927]))
    # magnitudes 1e4 .. 1e12 (log-uniform), multiples of pi/2 up to 1e12 and their float neighbours
    big = st.one_of(st.tuples(st.floats(1.0, 10.0), st.integers(4, 11), st.sampled_from([1.0, -1.0])).map(lambda t: t[2] * t[0] * 10.0 ** t[1]),
                    st.tuples(st.integers(-10 ** 6, 10 ** 6), st.sampled_from([math.pi, 2 * math.pi, math.pi / 2])).map(lambda t: t[0] * t[1]),
                    st.tuples(st.integers(-10 ** 11, 10 ** 11), st.sampled_from([-1, 0, 1])).map(lambda t: float(np.nextafter(t[0] * 2 * math.pi, t[1] * math.inf) if t[1] else t[0] * 2 * math.pi)))
    ang = st.one_of(small, small, big)
    cf = st.one_of(st.integers(-5, 5).map(float), st.floats(-100, 100, allow_nan=False, width=64))
    qi = st.integers(-9, 9).map(float)
    a = draw(ang)
    # second angle: independent, or close to the first one (a large pair with a small difference)
    b = draw(ang) if draw(st.integers(0, 3)) else a + draw(st.one_of(st.floats(-7.0, 7.0), st.sampled_from([0.0, math.pi, -math.pi, 1e-9])))
    return {"a": a, "b": b, "c": [draw(cf), draw(cf)], "n": draw(st.integers(1, 9)),
            "quad": [draw(qi), draw(qi), draw(qi)], "quadf": [draw(cf), draw(cf), draw(cf)],
            "ai": draw(st.integers(-60, 60)), "bi": draw(st.integers(-60, 60)), "ints": draw(st.booleans())}


def fn_maths(case, ctx):
    from mouette.utils import maths
    PI = math.pi
    a, b = case["a"], case["b"]

    # Congruence is judged in exact arithmetic. A reduction by fmod / remainder is exact modulo the FLOAT 2*pi, one that reduces modulo
    # the real 2*pi (e.g. through sin / cos) differs from it by k * (2pi - float(2pi)) = 0.18 eps |x|, less than half an ulp of the
    # argument: both are accepted. On top of that: the roundings a correct evaluation commits (a - b, +pi, -pi, -2pi), each half an ulp
    # of its result.
    ok, r = gcall(ctx, "principal_angle", maths.principal_angle, a)
    if ok:
        g = real(r)
        if ctx.check(g is not None and -PI <= g <= PI, "principal_angle:range", f"principal_angle({a!r}) = {r!r} not in [-pi,pi]"):
            k, defect = mod_2pi_defect(F(a) - F(g))
            tol = 8 * EPS * PI + abs(k) * abs(TWO_PI_DELTA)
            ctx.check(abs(defect) <= tol, "principal_angle:congruent",
                      f"principal_angle({a!r}) = {g!r} is not congruent to the input mod 2pi: input - result - {k}*2pi = {float(defect)!r}, more than {tol!r}")
            ok, r2 = gcall(ctx, "principal_angle", maths.principal_angle, g)
            if ok:
                ctx.check(real(r2) is not None and (abs(real(r2) - g) <= 1e-12 or abs(abs(real(r2) - g) - 2 * PI) <= 1e-12), "principal_angle:idempotent", f"principal_angle({g!r}) = {r2!r}")
    ok, r = gcall(ctx, "angle_diff", maths.angle_diff, a, b)
    if ok:
        g = real(r)
        if ctx.check(g is not None and -PI <= g <= PI, "angle_diff:range", f"angle_diff({a!r},{b!r}) = {r!r} not in [-pi,pi]"):
            x = F(a) - F(b)
            k, defect = mod_2pi_defect(x - F(g))
            tol = 4 * EPS * (abs(float(x)) + 2 * PI) + abs(k) * abs(TWO_PI_DELTA)
            ctx.check(abs(defect) <= tol, "angle_diff:congruent",
                      f"angle_diff({a!r},{b!r}) = {g!r} is not congruent to a-b = {float(x)!r} mod 2pi: a - b - result - {k}*2pi = {float(defect)!r}, more than {tol!r}")
    m = max(abs(a), abs(b))
    ctx.label("angle=small" if m <= 100 else "angle=large" if m <= 1e4 else "angle=1e4..1e8" if m <= 1e8 else "angle=1e8..1e12")
    if m > 1e4 and abs(a - b) <= 10:
        ctx.label("angle_diff=large-close-pair")
    # integer-valued arguments given as Python ints behave like the same floats
    ai, bi = case.get("ai", 0), case.get("bi", 0)
    for nm, f, ia, fa_ in (("principal_angle", maths.principal_angle, (ai,), (float(ai),)), ("angle_diff", maths.angle_diff, (ai, bi), (float(ai), float(bi)))):
        ok, ri = gcall(ctx, nm, f, *ia)
        ok2, rf = gcall(ctx, nm, f, *fa_)
        if ok and ok2:
            ctx.check(real(ri) is not None and real(rf) is not None and abs(real(ri) - real(rf)) <= 1e-12 and -PI <= real(ri) <= PI, nm + ":int-argument",
                      f"{nm}{ia} = {ri!r} but {nm}{fa_} = {rf!r}")
    # ---- roots
    c, n = complex(*case["c"]), case["n"]
    if abs(c) >= 1e-6:
        ctx.nontrivial()
        for normalize in (True, False):
            ok, rs = gcall(ctx, "roots", maths.roots, c, n, normalize)
            if ok and ctx.check(isinstance(rs, list) and len(rs) == n and all(isinstance(x, complex) for x in rs), "roots:type", f"roots({c},{n},{normalize}) = {rs!r}"):
                target = c / abs(c) if normalize else c
                for x in rs:
                    ctx.check(abs(x ** n - target) <= 1e-10 * n * max(1.0, abs(target)), "roots:power", f"roots({c},{n},normalize={normalize}) contains {x} whose {n}-th power is {x ** n}, expected {target}")
                rad = 1.0 if normalize else abs(c) ** (1.0 / n)
                if n > 1:
                    sep = min(abs(rs[i] - rs[j]) for i in range(n) for j in range(i))
                    ctx.check(sep >= 2 * rad * math.sin(PI / n) * (1 - 1e-9), "roots:distinct", f"roots({c},{n},normalize={normalize}) = {rs} are not {n} distinct roots")
    else:
        ctx.label("roots=zero-input")
    # ---- quadratic (integer coefficients: the discriminant is exact)
    A, B, C = case["quad"]
    if case.get("ints"):
        A, B, C = int(A), int(B), int(C)
        ctx.label("quadratic=int-typed")
    ok, rs = gcall(ctx, "solve_quadratic", maths.solve_quadratic, A, B, C)
    if ok and ctx.check(isinstance(rs, list) and all(real(x) is not None for x in rs), "solve_quadratic:type", f"{rs!r}"):
        delta = B * B - 4 * A * C
        expected = (0 if B == 0 else 1) if A == 0 else (0 if delta < 0 else 1 if delta == 0 else 2)
        ctx.label("quadratic=%d" % expected)
        ctx.check(len(rs) == expected and len(set(rs)) == len(rs), "solve_quadratic:count", f"solve_quadratic({A},{B},{C}) = {rs}, expected {expected} distinct real roots")
        for x in rs:
            ctx.check(abs(A * x * x + B * x + C) <= 1e-12 * (abs(A) * x * x + abs(B * x) + abs(C) + 1), "solve_quadratic:root", f"solve_quadratic({A},{B},{C}) contains {x!r}, residual {A * x * x + B * x + C!r}")
    A, B, C = case["quadf"]
    ok, rs = gcall(ctx, "solve_quadratic", maths.solve_quadratic, A, B, C)
    if ok and isinstance(rs, list) and abs(A) >= 1e-3:
        delta = F(B) * F(B) - 4 * F(A) * F(C)
        m = float(F(B) * F(B) + abs(4 * F(A) * F(C)))
        if abs(float(delta)) >= 1e-6 * max(m, 1e-12) and abs(float(delta)) >= 1e-9:
            ctx.check(len(rs) == (2 if delta > 0 else 0), "solve_quadratic:count", f"solve_quadratic({A},{B},{C}) = {rs}, discriminant {float(delta)!r}")
        for x in rs:
            x = float(x)
            ctx.check(abs(A * x * x + B * x + C) <= 1e-9 * (abs(A) * x * x + abs(B * x) + abs(C) + 1),
                      "solve_quadratic:root", f"solve_quadratic({A},{B},{C}) contains {x!r}, residual {A * x * x + B * x + C!r}")


# =============================================================================================== 7. side effects (operation histories)
ERR_CONFIGS = [{"divide": "warn", "over": "warn", "under": "ignore", "invalid": "warn"},      # numpy default
               {"divide": "ignore", "over": "ignore", "under": "ignore", "invalid": "ignore"},
               {"divide": "raise", "over": "warn", "under": "ignore", "invalid": "warn"},
               {"divide": "warn", "over": "warn", "under": "warn", "invalid": "warn"},
               {"divide": "raise", "over": "raise", "under": "raise", "invalid": "raise"},
               {"divide": "ignore", "over": "warn", "under": "ignore", "invalid": "ignore"}]
WHICH_OK = ["l2", "l1", "linf"]


def m_vals(n):
    c = st.one_of(st.integers(-4, 4).map(float), st.integers(-4, 4).map(float), st.integers(-24, 24).map(lambda k: k / 4.0),
                  st.floats(min_value=-50, max_value=50, allow_nan=False, width=64))
    return st.one_of(st.lists(c, min_size=n, max_size=n), st.lists(c, min_size=n, max_size=n), st.lists(c, min_size=n, max_size=n),
                     st.lists(c, min_size=n, max_size=n), st.just([0.0] * n))


def m_vec(n, wrong=True):
    """argument spec ["v", k or None, values, form]: k selects an array created earlier (same size) when there is one"""
    dims = st.sampled_from([n] * 14 + ([max(1, n - 1), n + 1] if wrong else [n]))
    return st.tuples(st.just("v"), st.one_of(st.none(), st.none(), st.integers(0, 30)), dims.flatmap(m_vals), st.sampled_from(FORMS)).map(list)


def m_recv(n):
    return st.tuples(st.just("r"), st.one_of(st.none(), st.integers(0, 30)), m_vals(n), st.sampled_from(["vec", "vec", "ivec"])).map(list)


M_BOX = st.tuples(st.just("b"), st.integers(0, 30)).map(list)
M_NUM = st.one_of(st.integers(-3, 3).map(float), st.floats(min_value=-10, max_value=10, allow_nan=False, width=64))
M_WHICH = st.sampled_from(WHICH_OK * 4 + ["l3", "L2", 2])


def mop(name, *args):
    return st.tuples(st.just(name), *args).map(list)


def m_ops(D):
    VD, V3, V2 = m_vec(D), m_vec(3), m_vec(2)
    pts = st.tuples(st.just("pts"), st.lists(m_vals(D), min_size=1, max_size=5), st.sampled_from(["list", "f8", "vecs", "i8"])).map(list)
    box_ops = [
        mop("AABB", VD, VD), mop("AABB", VD, VD), mop("AABB.frombox", M_BOX), mop("AABB.unit_cube", st.integers(1, 4), st.booleans()),
        mop("AABB.infinite", st.integers(1, 4)), mop("AABB.of_points", pts, M_NUM.map(abs)), mop("AABB.of_mesh", M_NUM.map(abs)),
        mop("box.get", M_BOX, st.sampled_from(["mini", "maxi", "span", "center", "dim", "is_empty", "repr"])),
        mop("box.binary", M_BOX, M_BOX, st.sampled_from(["intersection", "and", "do_intersect", "union", "or"])),
        mop("box.pad", M_BOX, st.one_of(M_NUM, VD)), mop("box.pad", M_BOX, st.one_of(M_NUM.map(abs), VD)),
        mop("box.iop", M_BOX, M_BOX, st.sampled_from(["ior", "iand"])), mop("AABB.point", VD),
        mop("box.contains_point", M_BOX, VD), mop("box.project", M_BOX, VD), mop("box.distance", M_BOX, VD, M_WHICH),
    ]
    n_any = st.sampled_from([2, 3, 3, 4])
    vec_ops = [
        mop("Vec", n_any.flatmap(lambda n: m_vec(n, wrong=False))), mop("Vec.args", M_NUM, M_NUM, M_NUM), mop("Vec.from_complex", M_NUM, M_NUM),
        mop("Vec.zeros", st.integers(1, 4)), mop("Vec.random", st.integers(1, 4)), mop("Vec.XYZ", st.sampled_from("XYZ")),
        mop("vec.get", m_recv(3), st.sampled_from(["x", "y", "z", "xy"])), mop("vec.set", m_recv(3), st.sampled_from("xyz"), M_NUM),
        mop("vec.norm", m_recv(3), M_WHICH), mop("vec.dot", m_recv(3), V3), mop("vec.outer", m_recv(3), V3),
        mop("vec.normalize", m_recv(3), M_WHICH), mop("vec.normalize", m_recv(D), st.sampled_from(WHICH_OK)),
        mop("Vec.normalized", V3, M_WHICH), mop("Vec.normalized", VD, st.sampled_from(WHICH_OK)),
    ]
    g3 = lambda name, n: mop(name, *([V3] * n))
    geom_ops = [
        mop("sign", M_NUM), mop("sign0", M_NUM), mop("norm", V3, M_WHICH), mop("dot", V3, V3), mop("distance", V3, V3, M_WHICH),
        g3("cross", 2), g3("cotan", 3), g3("angle_3pts", 3), g3("signed_angle_2vec3D", 3), g3("signed_angle_3pts", 4),
        mop("angle_2vec2D", V2, V2), g3("angle_2vec3D", 2), g3("face_basis", 3), g3("face_basis.list", 3), g3("triangle_area", 3),
        mop("triangle_area_2D", V2, V2, V2), g3("quad_area", 4), mop("det_2x2", V2, V2), mop("det_2x2.complex", M_NUM, M_NUM, V2),
        g3("det_3x3", 3), mop("det_3x3.matrix", st.sampled_from([3, 3, 2]).flatmap(lambda n: st.lists(m_vals(n), min_size=n, max_size=n))),
        mop("intersect_2lines2D", V2, V2, V2, V2), mop("intersect_2lines2D", V3, V3, V3, V3), g3("circumcenter", 3), g3("aspect_ratio", 3),
        mop("distance_to_segment2D", V2, V2, V2), g3("project_to_plane", 3),
    ]
    rot_ops = [mop("rotate_2d", V2, M_NUM), mop("rotate_around_axis", V3, V3, M_NUM), mop("rotate_around_axis", V3, V3, st.just(0.0)),
               mop("axis_rot_from_z", V3)]
    maths_ops = [mop("roots", M_NUM, M_NUM, st.integers(1, 5), st.booleans()), mop("angle_diff", M_NUM, M_NUM), mop("principal_angle", M_NUM),
                 mop("solve_quadratic", M_NUM, M_NUM, M_NUM)]
    zero3 = st.just(["v", None, [0.0, 0.0, 0.0], "vec"])
    lit3 = m_vals(3).map(lambda v: ["v", None, v, "f8"])
    same = lit3.flatmap(lambda s: st.tuples(st.just(s), st.just(copy.deepcopy(s))))
    raising = [
        mop("Vec.normalized", st.sampled_from([["v", None, [0.0] * 3, f] for f in FORMS]), st.sampled_from(WHICH_OK)),
        mop("Vec.normalized", st.one_of(zero3, m_vec(3)), st.just("l3")),
        mop("AABB", m_vec(D, wrong=False), m_vec(D + 1, wrong=False)),
        mop("box.distance", M_BOX, VD, st.sampled_from(["l3", "", 1])),
        mop("box.project", M_BOX, m_vec(D + 1, wrong=False)), mop("box.contains_point", M_BOX, m_vec(D + 2, wrong=False)),
        mop("box.pad", M_BOX, m_vec(D + 1, wrong=False)),
        same.flatmap(lambda ab: mop("cotan", st.just(ab[0]), st.just(ab[1]), V3)),
        same.flatmap(lambda ab: mop("circumcenter", st.just(ab[0]), V3, st.just(ab[1]))),
        same.flatmap(lambda ab: mop("face_basis", st.just(ab[0]), st.just(ab[1]), V3)),
        lit3.flatmap(lambda s: mop("circumcenter", st.just(["v", None, [0.0] * 3, "vec"]), st.just(["v", None, s[2], "vec"]), st.just(["v", None, [2.0 * x for x in s[2]], "vec"]))),
        mop("rotate_around_axis", V3, zero3, M_NUM), mop("norm", V3, st.sampled_from(["l3", 2])), mop("det_3x3.matrix", st.just([[1.0, 2.0], [3.0, 4.0]])),
        mop("AABB.of_points", st.tuples(st.just("flat"), m_vals(3)).map(list), st.just(0.0)),
    ]
    harness = [mop("seterr", st.integers(0, len(ERR_CONFIGS) - 1))]
    return {"box": st.one_of(box_ops), "vec": st.one_of(vec_ops), "geom": st.one_of(geom_ops), "rot": st.one_of(rot_ops), "maths": st.one_of(maths_ops),
            "raising": st.one_of(raising), "harness": st.one_of(harness)}


FAMILY_WEIGHTS = ["box"] * 5 + ["vec"] * 3 + ["geom"] * 4 + ["rot"] * 2 + ["maths"] + ["raising"] * 3 + ["harness"] + ["macro"] * 4


@st.composite
def machine_case(draw):
    D = draw(st.sampled_from([1, 2, 3, 3, 3, 4]))
    mesh = draw(st.one_of(st.none(), st.lists(m_vals(3), min_size=1, max_size=5)))
    arr = lambda: st.tuples(st.just("v"), st.one_of(st.none(), st.integers(0, 30)), m_vals(D), st.sampled_from(["f8", "vec", "f8", "vec", "i8", "list"])).map(list)
    padarg = st.one_of(M_NUM.map(abs), M_NUM.map(abs), m_vec(D, wrong=False))
    last = st.just(["b", -1])
    macros = st.one_of(
        # a box wrapping caller arrays is padded; a box built from another box's corners is padded; a corner is read, then the box is padded
        st.tuples(mop("AABB", arr(), arr()), mop("box.pad", last, padarg)).map(list),
        st.tuples(mop("AABB.frombox", M_BOX), mop("box.pad", last, padarg)).map(list),
        # augmented assignment (box |= other, box &= other) on a box wrapping caller arrays / built from another box's corners / built
        # from one array used for both corners
        st.tuples(mop("AABB", arr(), arr()), mop("box.iop", last, M_BOX, st.sampled_from(["ior", "iand"]))).map(list),
        st.tuples(mop("AABB.frombox", M_BOX), mop("box.iop", last, M_BOX, st.sampled_from(["ior", "iand"]))).map(list),
        st.tuples(mop("AABB.point", arr()), mop("AABB", arr(), arr()), mop("box.iop", st.just(["b", -2]), last, st.just("ior")),
                  mop("box.get", st.just(["b", -2]), st.sampled_from(["mini", "maxi", "span"]))).map(list),
        st.tuples(mop("AABB", arr(), arr()), mop("AABB.frombox", last), mop("box.iop", st.sampled_from([["b", -1], ["b", -2]]), M_BOX, st.sampled_from(["ior", "iand"]))).map(list),
        st.tuples(mop("AABB", arr(), arr()), mop("AABB.frombox", last), mop("box.pad", st.sampled_from([["b", -1], ["b", -2]]), padarg)).map(list),
        st.tuples(mop("box.get", M_BOX, st.sampled_from(["mini", "maxi"])), mop("box.pad", M_BOX, padarg)).map(list),
        # a box computed from two boxes (same box twice / a copy / a padded copy / a unit cube inside a larger box) is padded
        st.tuples(mop("box.binary", M_BOX, M_BOX, st.sampled_from(["union", "or", "intersection", "and"])), mop("box.pad", last, padarg)).map(list),
        st.integers(0, 30).flatmap(lambda k: st.tuples(mop("box.binary", st.just(["b", k]), st.just(["b", k]), st.sampled_from(["union", "or", "intersection", "and"])),
                                                      mop("box.pad", last, padarg)).map(list)),
        st.tuples(mop("AABB.frombox", M_BOX), mop("box.pad", last, padarg), mop("AABB.frombox", st.sampled_from([["b", -1], ["b", -2]])),
                  mop("box.binary", st.sampled_from([["b", -1], ["b", -2], ["b", -3]]), st.sampled_from([["b", -1], ["b", -2], ["b", -3]]),
                      st.sampled_from(["union", "or", "intersection", "and"])), mop("box.pad", last, padarg)).map(list),
        st.tuples(mop("AABB.unit_cube", st.just(D), st.booleans()), mop("AABB.frombox", last), mop("box.pad", last, padarg.filter(lambda x: x != 0)),
                  mop("box.binary", st.sampled_from([["b", -1], ["b", -2]]), st.sampled_from([["b", -1], ["b", -2]]), st.sampled_from(["union", "or", "intersection", "and"])),
                  mop("box.pad", last, padarg)).map(list),
        st.tuples(mop("AABB.of_points", st.tuples(st.just("pts"), st.lists(m_vals(D), min_size=1, max_size=4), st.sampled_from(["f8", "i8", "vecs"])).map(list), M_NUM.map(abs)),
                  mop("box.pad", last, padarg)).map(list))
    fams = m_ops(D)
    fams["macro"] = macros
    ops = []
    for _ in range(draw(st.integers(2, 16))):
        fam = draw(st.sampled_from(FAMILY_WEIGHTS))
        o = draw(fams[fam])
        ops.extend(o if fam == "macro" else [o])
    return {"dim": D, "mesh": mesh, "ops": ops}


def snap(o):
    """bytewise snapshot of an argument / tracked object"""
    if isinstance(o, np.ndarray):
        return ("nd", type(o).__name__, o.dtype.str, o.shape, o.tobytes())
    if isinstance(o, (list, tuple)):
        return (type(o).__name__,) + tuple(snap(x) for x in o)
    if isinstance(o, (bool, int, float, complex, str, type(None), np.generic)):
        return ("s", type(o).__name__, repr(o))
    if is_box(o):
        return ("box", snap(o.mini), snap(o.maxi))
    return ("obj", id(o))


def show(o):
    if isinstance(o, np.ndarray):
        return f"{type(o).__name__}({o.tolist()}, {o.dtype})"
    return repr(o)


def fn_machine(case, ctx):
    from mouette import geometry as geom
    from mouette.geometry import AABB, Vec
    from mouette.geometry import rotations as rot
    from mouette.utils import maths
    from vlib.build import pointcloud_from, coords
    D = case["dim"]
    arrays, boxes = [], []
    origin = {}                         # id -> how the object came to exist (for messages)
    mesh = pointcloud_from(case["mesh"]) if case["mesh"] else None

    box_origin = []                     # per box handle
    handles = []                        # box handles resolved for the current step, in argument order

    def track(o, why):
        if isinstance(o, AABB):
            # every box a step returns is, for the caller, a box of its own: one handle per returned box, even when the library hands
            # back an object it was given (then a later pad of one handle shows up as a change of the other one)
            if any(o is b for b in boxes):
                ctx.label("result-is-existing-box")
            boxes.append(o)
            box_origin.append(why)
        elif isinstance(o, np.ndarray):
            if not any(o is a for a in arrays):
                arrays.append(o)
                origin[id(o)] = why
        elif isinstance(o, (tuple, list)):
            for x in o:
                if isinstance(x, (np.ndarray, AABB)):
                    track(x, why)

    def resolve(spec, step):
        if not isinstance(spec, list):
            return spec
        tag = spec[0]
        if tag == "v":
            _, k, vals, form = spec
            if k is not None:
                cands = [a for a in arrays if a.ndim == 1 and a.size == len(vals)]
                if cands:
                    return cands[k % len(cands)]
            o = make(vals, form)
            track(o, f"caller array created for step {step}")
            return o
        if tag == "r":
            _, k, vals, form = spec
            if k is not None:
                cands = [a for a in arrays if isinstance(a, Vec) and a.ndim == 1 and a.size == len(vals)]
                if cands:
                    return cands[k % len(cands)]
            o = make(vals, form)
            track(o, f"Vec created for step {step}")
            return o
        if tag == "b":
            if not boxes:
                track(AABB(np.zeros(D), np.ones(D)), f"box created for step {step}")
            handles.append(spec[1] % len(boxes))
            return boxes[handles[-1]]
        if tag == "pts":
            rows, form = spec[1], spec[2]
            n = min(len(r) for r in rows)
            rows = [r[:n] for r in rows]
            if form == "f8" or (form == "i8" and not all(float(x) == int(x) for r in rows for x in r)):
                o = np.array(rows, dtype=float)
            elif form == "i8":
                o = np.array([[int(x) for x in r] for r in rows], dtype=np.int64)
            elif form == "vecs":
                o = [Vec([float(x) for x in r]) for r in rows]
            else:
                o = [[float(x) for x in r] for r in rows]
            track(o, f"point array created for step {step}")
            return o
        if tag == "flat":
            o = np.array(spec[1], dtype=float)
            track(o, f"caller array created for step {step}")
            return o
        return spec

    def iop(b, o, kind):
        if kind == "ior":
            b |= o
        else:
            b &= o
        return b

    def bget(b, what):
        return {"mini": lambda: b.mini, "maxi": lambda: b.maxi, "span": lambda: b.span, "center": lambda: b.center, "dim": lambda: b.dim,
                "is_empty": b.is_empty, "repr": lambda: repr(b)}[what]()

    def bbin(a, b, what):
        return {"intersection": lambda: AABB.intersection(a, b), "and": lambda: a & b, "do_intersect": lambda: AABB.do_intersect(a, b),
                "union": lambda: AABB.union(a, b), "or": lambda: a | b}[what]()

    TABLE = {
        "AABB": lambda a, b: AABB(a, b), "AABB.point": lambda a: AABB(a, a), "box.iop": iop, "AABB.frombox": lambda b: AABB(b.mini, b.maxi), "AABB.unit_cube": AABB.unit_cube, "AABB.infinite": AABB.infinite,
        "AABB.of_points": AABB.of_points, "AABB.of_mesh": lambda p: AABB.of_mesh(mesh, p), "box.get": bget, "box.binary": bbin,
        "box.pad": lambda b, p: b.pad(p), "box.contains_point": lambda b, p: b.contains_point(p), "box.project": lambda b, p: b.project(p),
        "box.distance": lambda b, p, w: b.distance(p, w),
        "Vec": lambda a: Vec(a), "Vec.args": lambda x, y, z: Vec(x, y, z), "Vec.from_complex": lambda x, y: Vec.from_complex(complex(x, y)),
        "Vec.zeros": Vec.zeros, "Vec.random": Vec.random, "Vec.XYZ": lambda n: getattr(Vec, n)(),
        "vec.get": lambda v, n: getattr(v, n), "vec.set": lambda v, n, x: setattr(v, n, x), "vec.norm": lambda v, w: v.norm(w),
        "vec.dot": lambda v, o: v.dot(o), "vec.outer": lambda v, o: v.outer(o), "vec.normalize": lambda v, w: v.normalize(w),
        "Vec.normalized": lambda v, w: Vec.normalized(v, w),
        "face_basis.list": lambda a, b, c: geom.face_basis([a, b, c]), "det_2x2.complex": lambda x, y, b: geom.det_2x2(complex(x, y), b),
        "det_3x3.matrix": lambda m: geom.det_3x3(m), "roots": lambda x, y, n, nz: maths.roots(complex(x, y), n, nz),
        "angle_diff": maths.angle_diff, "principal_angle": maths.principal_angle, "solve_quadratic": maths.solve_quadratic,
        "rotate_2d": rot.rotate_2d, "rotate_around_axis": rot.rotate_around_axis, "axis_rot_from_z": rot.axis_rot_from_z,
    }
    for nm in ("sign", "sign0", "norm", "dot", "distance", "cross", "cotan", "angle_3pts", "signed_angle_2vec3D", "signed_angle_3pts", "angle_2vec2D",
               "angle_2vec3D", "face_basis", "triangle_area", "triangle_area_2D", "quad_area", "det_2x2", "det_3x3", "intersect_2lines2D", "circumcenter",
               "aspect_ratio", "distance_to_segment2D", "project_to_plane"):
        TABLE[nm] = getattr(geom, nm)
    INPLACE_VEC = ("vec.set", "vec.normalize")
    INPLACE_BOX = ("box.pad", "box.iop")            # the receiver (first argument) is the one box the call is documented to modify

    raised_at = None
    n_raised = 0
    for step, op in enumerate(case["ops"]):
        name = op[0]
        if name == "seterr":
            np.seterr(**ERR_CONFIGS[op[1]])
            ctx.label("user-seterr")
            continue
        if name == "AABB.of_mesh" and mesh is None:
            continue
        if name == "det_3x3.matrix":
            args = [np.array(op[1], dtype=float)]
            track(args[0], f"caller matrix created for step {step}")
        else:
            del handles[:]
            args = [resolve(s, step) for s in op[1:]]
        where = f"step {step}: {name}({', '.join(show(a) if not isinstance(a, AABB) else repr(a) for a in args)})"
        receiver = args[0] if name in INPLACE_VEC or name in INPLACE_BOX else None
        # ---- snapshots
        arg_snaps = [snap(a) for a in args]
        arr_snaps = [snap(a) for a in arrays]
        box_snaps = [(b.mini, b.maxi, snap(b.mini), snap(b.maxi)) for b in boxes]
        mesh_snap = coords(mesh).tobytes() if mesh is not None else None
        n_arr, n_box = len(arrays), len(boxes)
        exempt_arr, exempt_box = set(), set()
        if name in INPLACE_VEC and isinstance(receiver, np.ndarray):
            exempt_arr = {i for i, a in enumerate(arrays) if a is receiver or np.shares_memory(a, receiver)}
            exempt_box = {i for i, b in enumerate(boxes) if np.shares_memory(b.mini, receiver) or np.shares_memory(b.maxi, receiver)}
        elif name in INPLACE_BOX and isinstance(receiver, AABB):
            exempt_box = {handles[0]}            # the receiver handle only: no other box of the history may change
            if any(i != handles[0] and b is receiver for i, b in enumerate(boxes)):
                ctx.label("pad:receiver-was-returned-for-another-box")
            exempt_arr = {i for i, a in enumerate(arrays) if a is receiver.mini or a is receiver.maxi}
            if any(i not in exempt_arr and (np.shares_memory(a, receiver.mini) or np.shares_memory(a, receiver.maxi)) for i, a in enumerate(arrays)):
                ctx.label("pad:box-shares-caller-array")
            if any(i not in exempt_box and (np.shares_memory(b.mini, receiver.mini) or np.shares_memory(b.maxi, receiver.maxi)) for i, b in enumerate(boxes)):
                ctx.label("pad:box-shares-other-box")
        err_before = np.geterr()
        # ---- the call
        exc = None
        try:
            res = TABLE[name](*args)
        except Exception as e:
            exc, res = e, None
        err_after = np.geterr()
        outcome = f"raised {type(exc).__name__}: {exc}" if exc is not None else "returned"
        ctx.label("op:" + name.split(".")[0].lower() if name[0] in "ABVbv" else "op:function")
        if exc is not None:
            n_raised += 1
            if raised_at is None:
                raised_at = step
            ctx.label("raised:" + type(exc).__name__)
        elif raised_at is not None:
            ctx.label("call-after-raise")
            ctx.nontrivial()
        # ---- oracle 1: numpy's error configuration
        if err_after != err_before:
            np.seterr(**err_before)          # so that later steps are meaningful when this is a listed finding
        ctx.check(err_after == err_before, "side-effect:numpy-errstate", f"{where} {outcome}: numpy.geterr() was {err_before}, is {err_after}")
        # ---- oracle 2: arguments
        for i, a in enumerate(args):
            if a is receiver:
                continue
            if isinstance(a, np.ndarray) and any(a is arrays[j] for j in exempt_arr):
                continue
            if isinstance(a, AABB):
                continue                      # boxes are compared below
            ctx.check(snap(a) == arg_snaps[i], "side-effect:argument", f"{where} {outcome}: argument {i} is now {show(a)}")
        # ---- oracle 3: everything created before
        for i in range(n_arr):
            if i in exempt_arr:
                continue
            if snap(arrays[i]) != arr_snaps[i]:
                ctx.check(False, "side-effect:other-array", f"{where} {outcome}: array #{i} ({origin.get(id(arrays[i]))}) changed to {show(arrays[i])}")
            else:
                ctx.n_assert += 1
        for i in range(n_box):
            if i in exempt_box:
                continue
            b = boxes[i]
            m0, M0, s0, S0 = box_snaps[i]
            same_box = snap(b.mini) == s0 and snap(b.maxi) == S0
            if not same_box:
                what = "argument box" if any(b is a for a in args) else "box"
                alias = " - it is the very same object as the receiver" if receiver is b else ""
                ctx.check(False, "side-effect:other-box", f"{where} {outcome}: {what} #{i} ({box_origin[i]}) changed to {b!r}{alias}")
            else:
                ctx.n_assert += 1
        if mesh is not None:
            ctx.check(coords(mesh).tobytes() == mesh_snap, "side-effect:mesh", f"{where} {outcome}: mesh vertices changed")
        # ---- bookkeeping
        if exc is None:
            if isinstance(res, np.ndarray) and any(isinstance(a, np.ndarray) and np.shares_memory(res, a) for a in args):
                ctx.label("result-aliases-argument")
            if name == "box.iop":
                if isinstance(res, AABB):
                    boxes[handles[0]] = res             # 'b |= o' rebinds the caller's name b: same handle, possibly a new object
                    ctx.label("iop:in-place" if res is receiver else "iop:new-object")
            else:
                track(res, f"result of step {step} {name}")
    ctx.label("raises=%s" % ("0" if n_raised == 0 else "1" if n_raised == 1 else "2+"))


# =============================================================================================== registration
SUBCHECKS = [
    SubCheck("aabb_laws", aabb_case(), fn_aabb, quick=600, thorough=2500),
    SubCheck("vector_laws", vector_case(), fn_vector, quick=400, thorough=1500),
    SubCheck("shape_laws", shape_case(), fn_shape, quick=500, thorough=2000),
    SubCheck("angle_laws", angle_case(), fn_angle, quick=500, thorough=2000),
    SubCheck("sharp_laws", sharp_case(), fn_sharp, quick=400, thorough=1500),
    SubCheck("rotation_laws", rotation_case(), fn_rotation, quick=300, thorough=1200),
    SubCheck("maths_laws", maths_case(), fn_maths, quick=500, thorough=2000),
    SubCheck("side_effects", machine_case(), fn_machine, quick=800, thorough=3000),
]

MATCHERS = {}


def self_test():
    """the reference arithmetic against independent implementations"""
    from scipy.spatial.transform import Rotation
    rng = np.random.RandomState(0)
    for _ in range(20):
        a, b, c = rng.randint(-9, 9, (3, 3))
        assert float(fdet3(fv(a), fv(b), fv(c))) == round(np.linalg.det(np.array([a, b, c], float)))
        assert [float(x) for x in fcross(fv(a), fv(b))] == list(np.cross(a, b).astype(float))
        ax, ang, v = rng.randn(3), rng.uniform(-6, 6), rng.randn(3)
        assert np.allclose(rodrigues(v, ax, ang), Rotation.from_rotvec(ax / np.linalg.norm(ax) * ang).apply(v), atol=1e-12)
        assert abs(fsqrt(Fr(int(a[0]) ** 2 + 7, 3)) - math.sqrt((int(a[0]) ** 2 + 7) / 3)) < 1e-14
        assert abs(kahan_angle(v, ax) - math.acos(np.dot(v, ax) / np.linalg.norm(v) / np.linalg.norm(ax))) < 1e-9
