"""C10 - spanning trees and forests span, are acyclic, and respect exclusions.

Every oracle is a validity predicate on the returned tables (parent / children / edges / traverse / trees / roots) against a
reference graph built from the raw case (vlib.topo + vlib.ref_graph); no particular tree is ever expected.
"""
import math, copy, contextlib, gc, random
import numpy as np
from collections import Counter
from hypothesis import strategies as st
from vlib.runner import SubCheck
from vlib import gen_surface as G
from vlib import gen_tets as T
from vlib import ref_graph as R
from vlib.topo import SurfRef, TetRef, key
from vlib.build import surface_from, volume_from, polyline_from

PROPERTY = "C10"
RULE = ("Meshes: generated polylines (paths, cycles, trees, random simple graphs, disjoint unions, isolated vertices), oriented "
        "manifold polygon surfaces (vlib.gen_surface incl. disjoint unions, optional isolated vertices) and conforming tet meshes "
        "(vlib.gen_tets incl. disjoint unions), neighbourhood sorting on/off. Configurations: root explicit (any element) or None "
        "(random, seeded per case); exclusion sets drawn as none / sparse random / dense random / a cut separating a hop-ball from "
        "the rest (avoid_edges and avoid_boundary for vertex trees, forbidden_edges for face trees, forbidden_faces for cell "
        "trees); MST weights one / length / dict / sparse Attribute (unset entries = default 0) / dense attribute, values with ties, "
        "zeros and negatives; traversal BFS and DFS; the three forests. non-trivial = the element adjacency graph has a cycle and "
        "(the exclusion set is non-empty or the graph has >=2 components); distinct = distinct realised case. "
        "Histories on the SAME mesh object: optional warm-up queries (boundary data, connectivity, a persistent edge_length "
        "attribute) before the tree; a second tree / forest built on the same mesh with another root and the SAME exclusion-set / "
        "weights object (arguments are snapshotted and must be unchanged, the first tree's tables must stay as they were); for the MST "
        "a pre-existing edge attribute named 'length' (fresh / set by the user / stale because vertices were moved afterwards), "
        "coordinates uniformly scaled by 1e-6..1e6, integer-typed coordinates, roots given as numpy integers. Iteration histories on one "
        "tree / forest: a traversal abandoned half-way (iterator kept alive, or dropped by `break`) followed by complete ones, BFS and DFS "
        "iterators advanced in lock-step, the first tree traversed again after a second tree exists. Several forest objects alive at once "
        "(a second one on the same mesh, another one on a different small mesh): the first is fully re-inspected afterwards. A few "
        "meshes above 1000 elements (size regime). Returned lists (forest.edges) are mutated and re-read; dict weights in both "
        "insertion orders. Library switches drawn per case: sort_neighborhoods, display_duplicate_attribute_warning, and "
        "complete_edges_from_faces / complete_faces_from_cells switched off with every edge (and cell face) declared explicitly. Index rows "
        "as lists or numpy rows of dtype int64/int32/int16/uint8; roots and excluded ids as python ints or (narrow) numpy integers; "
        "exclusion sets as set or frozenset; dict weights as float / int / np.float32 / np.float64 / np.uint8 values; sparse and dense "
        "weight attributes with a non-zero default and unwritten entries; MST geometry translated far from the origin (1e3..1e6 x size) and "
        "anisotropically scaled; an invalid traverse() call (bad order / uncomputed tree) that raises is followed by ordinary use. Face "
        "trees: pairs of faces sharing two edges with exactly one of them forbidden are generated on purpose. Sizes around powers of "
        "two: paths of 255..258 vertices, and (sparsely) open paths of 32766..32775 and 65534..65541 vertices rooted at an end (hop depth "
        "beyond int16 / uint16), stored compactly as {kind: path, n, stride}. Recycled objects: before the mesh of the case is built, "
        "1-3 predecessor meshes with the same element counts but another numbering are built, spanned by the same kind of tree, dropped "
        "and garbage collected (id()-keyed caches). The caller's exclusion set / weights object may be edited in place between the first "
        "and the second tree (the second tree must follow the edit). copy.copy / copy.deepcopy of a computed tree answer like the "
        "original. Polylines with shuffled vertex ids and edge order; sparse weight attributes written in decreasing index order.")
ASSUMPTIONS = ["meshes are what the data model represents (simple 1-skeleton, manifold surfaces, conforming tet meshes); "
               "exclusion sets contain valid edge / face indices; dict weights give a finite float for every edge",
               "a volume mesh's boundary edges are the edges of its boundary faces (VolumeMesh.is_edge_on_border)"]

MAX_HOPS_BALL = 3


# ============================================================================================ generators

@st.composite
def polylines(draw):
    def one(n, kind):
        E = []
        if kind == "path":
            E = [(i, i + 1) for i in range(n - 1)]
        elif kind == "cycle" and n >= 3:
            E = [(i, (i + 1) % n) for i in range(n)]
        elif kind == "tree":
            E = [(draw(st.integers(0, i - 1)), i) for i in range(1, n)]
        elif kind == "grid":
            w = max(2, int(math.sqrt(n)))
            h = max(1, n // w)
            n = w * h
            E = [(j * w + i, j * w + i + 1) for j in range(h) for i in range(w - 1)] + [(j * w + i, (j + 1) * w + i) for j in range(h - 1) for i in range(w)]
        else:
            pairs = [(j, i) for i in range(n) for j in range(i)]
            if pairs:
                E = draw(st.lists(st.sampled_from(pairs), unique=True, max_size=min(len(pairs), 2 * n + 2)))
        return n, [tuple(e) for e in E]
    kinds = ["path", "cycle", "tree", "graph", "graph", "grid"]
    parts = draw(st.integers(1, 3))
    n_tot, E_tot, tags = 0, [], []
    for _ in range(parts):
        k = draw(st.sampled_from(kinds))
        n, E = one(draw(st.integers(1, 10)), k)
        E_tot += [(a + n_tot, b + n_tot) for a, b in E]
        n_tot += n
        tags.append("part=" + k)
    E_tot = [list(e) if draw(st.booleans()) else [e[1], e[0]] for e in E_tot]
    if draw(st.booleans()):
        # lattice coordinates: many equal lengths (ties for weights='length')
        V = [[float(i % 4), float((i // 4) % 3), float(i // 12)] for i in range(n_tot)]
        tags.append("coords=lattice")
    else:
        V = [[draw(st.floats(-3, 3)), draw(st.floats(-3, 3)), draw(st.floats(-3, 3))] for _ in range(n_tot)]
        V = [[float(round(x, 6)) for x in v] for v in V]
        tags.append("coords=float")
    if n_tot > 1 and draw(st.booleans()):
        # vertex ids scattered over the components, edges listed in another order (components interleaved)
        rnd = random.Random(draw(st.integers(0, 10 ** 6)))
        perm = list(range(n_tot)); rnd.shuffle(perm)
        V2 = [None] * n_tot
        for o, nw in enumerate(perm):
            V2[nw] = V[o]
        V = V2
        E_tot = [[perm[a], perm[b]] for a, b in E_tot]
        rnd.shuffle(E_tot)
        tags.append("ids-shuffled")
    return {"kind": "polyline", "V": V, "E": E_tot, "tags": tags}


@st.composite
def surface_meshes(draw, max_faces=40):
    s = draw(G.surfaces(max_faces=max_faces, keep_isolated=draw(st.integers(0, 5)) == 0))
    V, F, tags = s["V"], s["F"], s["tags"]
    if draw(st.integers(0, 3)) == 0:
        s2 = draw(G.surfaces(max_faces=max_faces // 2, allow_union=False, allow_sum=False, max_ops=3))
        V, F = G.disjoint_union(V, F, s2["V"], s2["F"])
        tags = [t for t in tags if t.startswith(("base=", "op="))] + ["union2"] + G.tags_of(V, F)
    return {"kind": "surface", "V": V, "F": [list(map(int, f)) for f in F], "tags": tags}


@st.composite
def volume_meshes(draw, max_cells=40):
    s = draw(T.tets(max_cells=max_cells))
    V, C, tags = s["V"], s["C"], s["tags"]
    if draw(st.integers(0, 3)) == 0:
        s2 = draw(T.tets(max_cells=max_cells // 2))
        n1 = len(V)
        V = [list(v) for v in V] + [[v[0] + 9.0, v[1], v[2]] for v in s2["V"]]
        C = [list(c) for c in C] + [[n1 + v for v in c] for c in s2["C"]]
        tags = [t for t in tags if t.startswith(("base=", "op="))] + ["union2"]
    return {"kind": "volume", "V": V, "C": [list(map(int, c)) for c in C], "tags": tags}


@st.composite
def big_meshes(draw):
    """size regime: a few meshes with more than 1000 vertices / faces / 380 cells (no internal threshold is known; this guards one)"""
    k = draw(st.sampled_from(["surface", "surface_tri", "polyline", "volume"]))
    if k in ("surface", "surface_tri", "polyline"):
        nu, nv = draw(st.integers(30, 36)), draw(st.integers(31, 34))
        V, F = G.grid(nu, nv)
        if k == "polyline":
            ref = SurfRef(len(V), F)
            return {"kind": "polyline", "V": V, "E": [list(e) for e in sorted(ref.uedges)], "tags": ["base=biggrid", "big"]}
        if k == "surface_tri":
            V, F = G.op_triangulate_all(V, F, draw(st.integers(0, 3)))
        # a hole in the middle so that exclusions / border avoidance matter
        hole = set(range(len(F) // 2, len(F) // 2 + draw(st.integers(0, 3))))
        F2 = [f for i, f in enumerate(F) if i not in hole]
        if SurfRef(len(V), F2).validate() is None:      # (removing faces that only touch at a vertex would pinch the surface)
            F = F2
        return {"kind": "surface", "V": V, "F": [list(map(int, f)) for f in F], "tags": ["base=biggrid", "big"] + G.tags_of(V, F)}
    V, C = T.kuhn(4, 4, 4)
    C = T.orient_all(V, C, True)
    return {"kind": "volume", "V": [[float(x) for x in v] for v in V], "C": [list(map(int, c)) for c in C], "tags": ["base=bigkuhn", "big"]}


def any_mesh():
    small = st.one_of(polylines(), surface_meshes(), surface_meshes(), volume_meshes())
    return st.integers(0, 59).flatmap(lambda i: big_meshes() if i == 59 else pow2_paths() if i == 58 else small)


def with_big(small, kinds):
    return st.integers(0, 59).flatmap(lambda i: big_meshes().filter(lambda m: m["kind"] in kinds) if i == 59 else small)


def path_id(n, stride, pos):
    """vertex id of the pos-th vertex along a compact path mesh (stride coprime with n: ids are scattered along the path)"""
    return (pos * stride) % n


def expand_mesh(mc):
    """{"kind": "path", "n", "stride"} -> the polyline it stands for (kept compact in the case because n can exceed 65536)"""
    if mc.get("kind") != "path":
        return mc
    n, s = int(mc["n"]), int(mc.get("stride", 1))
    assert math.gcd(n, s) == 1
    V = [None] * n
    for pos in range(n):
        V[path_id(n, s, pos)] = [0.5 * pos, float(pos % 3), 0.0]
    E = [[path_id(n, s, pos), path_id(n, s, pos + 1)] for pos in range(n - 1)]
    return {"kind": "polyline", "V": V, "E": E, "tags": list(mc.get("tags", []))}


@st.composite
def pow2_paths(draw):
    """open paths with 255..258 vertices (element counts around 2**8), expanded at once: they are small"""
    n = draw(st.sampled_from([255, 256, 257, 258]))
    stride = draw(st.sampled_from([1, 7, 101]))
    return expand_mesh({"kind": "path", "n": n, "stride": stride, "tags": ["base=path%d" % n, "pow2-size"]})


@st.composite
def deep_paths(draw):
    """open paths whose hop depth from an end point crosses 2**15 or 2**16"""
    n = draw(st.sampled_from([32768, 32769, 32770, 32771, 32775, 33001, 32768, 32769, 32770, 32767, 32766, 65537]))
    stride = draw(st.sampled_from([1, 1, 7, 10007]))
    while math.gcd(n, stride) != 1:
        stride += 1
    return {"kind": "path", "n": n, "stride": stride, "tags": ["base=deep-path", "deep>=2^%d" % (15 if n < 60000 else 16)]}


class Model:
    """Reference adjacency of a realised mesh case, from the raw lists only."""

    def __init__(self, mesh_case):
        mesh_case = expand_mesh(mesh_case)
        self.kind = mesh_case["kind"]
        self.V = mesh_case["V"]
        self.nV = len(self.V)
        self.face_links = []        # (f1, f2, edge key)
        self.cell_links = []        # (c1, c2, face key)
        self.nF = self.nC = 0
        self.border_edges = set()
        self.face_keys = set()
        if self.kind == "polyline":
            self.edge_keys = sorted(set(key(e) for e in mesh_case["E"]))
        elif self.kind == "surface":
            ref = SurfRef(self.nV, mesh_case["F"])
            err = ref.validate()
            if err is not None:
                raise AssertionError("invalid generated surface: " + err)
            self.edge_keys = sorted(ref.uedges)
            self.border_edges = ref.border_edges()
            self.nF = len(ref.F)
            for (a, b) in self.edge_keys:
                f1, f2 = ref.direct_face(a, b), ref.direct_face(b, a)
                if f1 is not None and f2 is not None and f1 != f2:
                    self.face_links.append((f1, f2, (a, b)))
        else:
            ref = TetRef(self.nV, mesh_case["C"])
            err = ref.validate()
            if err is not None:
                raise AssertionError("invalid generated tet mesh: " + err)
            self.edge_keys = sorted(ref.ekeys)
            self.border_edges = ref.border_edges()
            self.nC = len(ref.C)
            self.face_keys = set(ref.fkeys)
            for fk in sorted(ref.fkeys):
                cs = ref.f2c[fk]
                if len(cs) == 2:
                    self.cell_links.append((cs[0], cs[1], fk))

    def links(self, what):
        """(n, [(a, b, carrier key)]) for the element graph 'vertex' | 'face' | 'cell'"""
        if what == "vertex":
            return self.nV, [(a, b, (a, b)) for (a, b) in self.edge_keys]
        if what == "face":
            return self.nF, list(self.face_links)
        return self.nC, list(self.cell_links)

    def length(self, e):
        a, b = e
        return math.sqrt(sum((float(x) - float(y)) ** 2 for x, y in zip(self.V[a], self.V[b])))


def draw_exclusion(draw, n, links):
    """returns (mode, list of carrier keys). links: (a, b, carrier)"""
    carriers = sorted(set(c for _, _, c in links))
    if not carriers:
        return "none", None if draw(st.booleans()) else []
    mode = draw(st.sampled_from(["none", "none", "sparse", "dense", "cut", "cut", "all"]))
    if mode == "none":
        return mode, (None if draw(st.integers(0, 3)) else [])
    if mode == "all":
        return mode, [list(c) for c in carriers]
    if mode in ("sparse", "dense"):
        k = draw(st.integers(1, max(1, len(carriers) // 6))) if mode == "sparse" else draw(st.integers(len(carriers) // 3, len(carriers)))
        idx = draw(st.lists(st.integers(0, len(carriers) - 1), min_size=k, max_size=k, unique=True)) if k <= len(carriers) else list(range(len(carriers)))
        return mode, [list(carriers[i]) for i in sorted(idx)]
    # cut: a hop ball around a seed element against the rest (maybe leaving a few crossing links to keep it connected)
    seed = draw(st.integers(0, n - 1))
    hops = R.bfs_hops(n, links, seed)
    r = draw(st.integers(0, MAX_HOPS_BALL))
    ball = set(v for v in range(n) if hops[v] is not None and hops[v] <= r)
    crossing = sorted(set(c for a, b, c in links if (a in ball) != (b in ball)))
    leave = draw(st.integers(0, 2)) if draw(st.booleans()) else 0
    if leave and crossing:
        keep = set(draw(st.lists(st.integers(0, len(crossing) - 1), max_size=leave)))
        crossing = [c for i, c in enumerate(crossing) if i not in keep]
    return mode, [list(c) for c in crossing]


def draw_root(draw, n):
    if draw(st.integers(0, 4)) == 0:
        return None
    return draw(st.integers(0, n - 1))


def draw_history(draw, n):
    """fields shared by the tree sub-checks: a second tree on the same mesh object, numpy-typed roots, warm-up queries"""
    h = {"root2": draw(st.integers(0, n - 1)) if draw(st.integers(0, 2)) > 0 else None,
         "root_np": draw(st.integers(0, 3)) == 0, "warm": draw(st.integers(0, 2)) == 0}
    h.update(draw_forms(draw))
    return h


def draw_forms(draw):
    """argument / container forms and library-wide switches"""
    return {"idx": draw(st.sampled_from(["list", "list", "int64", "int32", "int16", "uint8"])),
            "np_int": draw(st.sampled_from(["int64", "int64", "int32", "uint8", "uint16"])),
            "ids_np": draw(st.integers(0, 3)) == 0, "frozen": draw(st.integers(0, 3)) == 0,
            "explicit": draw(st.integers(0, 4)) == 0, "dup_warn": draw(st.booleans()), "bad_call": draw(st.integers(0, 2)) == 0,
            "recycle": draw(st.sampled_from([0, 0, 0, 0, 2, 3])), "recycle_seed": draw(st.integers(0, 1000)),
            "mutate_arg": draw(st.integers(0, 2)) == 0, "mutate_pick": draw(st.integers(0, 10 ** 6)),
            "copies": draw(st.integers(0, 3)) == 0}


def scaled(V, s):
    return [[float(x) * s for x in v] for v in V]


@st.composite
def edge_tree_case(draw):
    mc = draw(any_mesh())
    mod = Model(mc)
    n, links = mod.links("vertex")
    mode, avoid = draw_exclusion(draw, n, links)
    ab = draw(st.booleans())
    if mc["kind"] == "surface" and draw(st.integers(0, 3)) == 0:
        mode, avoid, ab = "none", None, True           # border avoidance alone (no avoid_edges argument) on a surface
    c = {"mesh": mc, "root": draw_root(draw, n), "avoid_boundary": ab,
         "avoid": avoid, "avoid_mode": mode, "sort": draw(st.booleans())}
    c.update(draw_history(draw, n))
    c["avoid_boundary2"] = draw(st.booleans())
    return c


@st.composite
def deep_edge_tree_case(draw):
    """breadth-first tree on a very long open path rooted at (or near) an end: hop depths beyond 2**15 - 1 (2**16 - 1)"""
    mc = draw(deep_paths())
    n, s = mc["n"], mc["stride"]
    end = draw(st.sampled_from([0, 0, n - 1, 3]))
    c = {"mesh": mc, "root": path_id(n, s, end), "avoid_boundary": draw(st.booleans()), "avoid": None, "avoid_mode": "none",
         "sort": draw(st.booleans())}
    if draw(st.integers(0, 3)) == 0:
        # one avoided edge at the far end: the tree stops there
        pos = n - 2 - draw(st.integers(0, 2)) if end != n - 1 else draw(st.integers(0, 2))
        c["avoid"] = [sorted([path_id(n, s, pos), path_id(n, s, pos + 1)])]
        c["avoid_mode"] = "sparse"
    c.update(draw_forms(draw))
    c.update({"root2": path_id(n, s, draw(st.sampled_from([n - 1, n // 2, 0]))) if draw(st.integers(0, 2)) == 0 else None, "root_np": draw(st.booleans()),
              "warm": False, "recycle": 0, "copies": False, "avoid_boundary2": draw(st.booleans()), "np_int": "int64"})
    return c


WEIGHT_MODES = ["one", "length", "length", "dict", "dict", "attr", "attr", "attr_dense"]


@st.composite
def mst_case(draw):
    mc = draw(any_mesh())
    mod = Model(mc)
    n = mod.nV
    wm = draw(st.sampled_from(WEIGHT_MODES))
    weights = None
    style = "-"
    if wm in ("dict", "attr", "attr_dense"):
        style = draw(st.sampled_from(["smallint", "smallint", "float", "equal", "signed", "zeroes"]))
        vals = {"smallint": st.integers(0, 3).map(float), "float": st.floats(0, 10).map(lambda x: float(round(x, 5))),
                "equal": st.just(2.5), "signed": st.integers(-3, 3).map(float),
                "zeroes": st.sampled_from([0.0, 0.0, 1.0])}[style]
        weights = []
        for e in mod.edge_keys:
            if wm in ("attr", "attr_dense") and draw(st.integers(0, 3)) == 0:
                continue                                    # left unwritten: the attribute reads its own default value there
            weights.append([e[0], e[1], draw(vals)])
    c = {"mesh": mc, "root": draw_root(draw, n), "avoid_boundary": draw(st.integers(0, 2)) == 0,
         "weights_mode": wm, "weights": weights, "style": style, "sort": draw(st.booleans())}
    # default value of the weight attribute (None = the type's default 0.0); unwritten edges weigh this much
    c["attr_default"] = draw(st.sampled_from([None, None, 0.0, 1.5, 2.0, 7.0, -1.0, 100.0])) if wm in ("attr", "attr_dense") else None
    c["val_type"] = draw(st.sampled_from(["float", "float", "int", "float32", "float64", "uint8"])) if wm == "dict" else "float"
    c.update(draw_history(draw, n))
    c["mode2"] = draw(st.sampled_from(["same", "same", "one", "length"]))
    c["dict_rev"] = draw(st.booleans())
    # uniform scaling of the geometry (lengths are scale covariant, the tree must not depend on the unit)
    sc = draw(st.sampled_from([1.0, 1.0, 1.0, 1e-3, 1e-6, 1e3, 1e6]))
    if sc != 1.0:
        mc["V"] = scaled(mc["V"], sc)
    c["scale"] = sc
    # anisotropic scaling and a translation far from the origin (relative to the size of the mesh, ~1..10 x sc)
    an = draw(st.sampled_from([None, None, None, [1.0, 3.0, 0.25], [10.0, 1.0, 1.0], [0.01, 1.0, 100.0]]))
    if an is not None:
        mc["V"] = [[float(x) * a for x, a in zip(v, an)] for v in mc["V"]]
    c["aniso"] = an
    off = draw(st.sampled_from([0.0, 0.0, 0.0, 1e3, 1e5, 1e6]))
    if off:
        d = draw(st.sampled_from([[1.0, 1.0, 1.0], [1.0, -0.5, 0.25], [0.0, 0.0, -1.0]]))
        mc["V"] = [[float(x) + off * sc * t for x, t in zip(v, d)] for v in mc["V"]]
    c["offset"] = off
    c["int_coords"] = draw(st.integers(0, 2)) == 0 and all(float(x) == int(x) and abs(x) < 2 ** 40 for v in mc["V"] for x in v)
    # an edge attribute called "length" already stored on the mesh before the tree is built
    la = draw(st.sampled_from(["none", "none", "fresh", "user", "stale", "stale"]))
    c["length_attr"] = la
    if la == "user":
        c["length_vals"] = [[e[0], e[1], float(draw(st.integers(0, 40))) / 4.0 * sc] for e in mod.edge_keys]
    if la == "stale":
        rnd = np.random.RandomState(draw(st.integers(0, 10 ** 6)))
        amp = draw(st.sampled_from([0.3, 1.0, 3.0])) * sc
        c["V2"] = (np.array(mc["V"], dtype=float).reshape(-1, 3) + rnd.uniform(-amp, amp, (len(mc["V"]), 3))).tolist()
    return c


@st.composite
def face_tree_case(draw):
    mc = draw(with_big(surface_meshes(), ("surface",)))
    mod = Model(mc)
    n, links = mod.links("face")
    mode, forb = draw_exclusion(draw, n, links)
    if forb is not None and draw(st.booleans()):
        # forbidding border edges changes nothing: there is no face on the other side
        be = sorted(mod.border_edges)
        forb = forb + [list(e) for e in be[:draw(st.integers(0, 3))]]
    dbl = double_adjacencies(links)
    if dbl and draw(st.booleans()):
        # two faces sharing two (or more) edges: forbid all but one of the shared edges, the faces stay adjacent
        pair = sorted(dbl)[draw(st.integers(0, len(dbl) - 1))]
        shared = dbl[pair]
        keep = draw(st.integers(0, len(shared) - 1))
        forb = [e for e in (forb or []) if tuple(e) not in set(shared)] + [list(e) for i, e in enumerate(shared) if i != keep]
        mode = mode + "+double"
    c = {"mesh": mc, "root": draw_root(draw, n), "forbidden": forb, "mode": mode, "sort": draw(st.booleans())}
    c.update(draw_history(draw, n))
    return c


def double_adjacencies(links):
    """{(f1, f2): [carrier keys]} for element pairs joined by more than one link"""
    by = {}
    for a, b, c in links:
        by.setdefault(key(a, b), []).append(c)
    return {k: sorted(v) for k, v in by.items() if len(v) > 1}


@st.composite
def cell_tree_case(draw):
    mc = draw(with_big(volume_meshes(), ("volume",)))
    mod = Model(mc)
    n, links = mod.links("cell")
    mode, forb = draw_exclusion(draw, n, links)
    if forb is not None and draw(st.booleans()):
        bf = sorted(mod.face_keys - set(c for _, _, c in links))
        forb = forb + [list(f) for f in bf[:draw(st.integers(0, 3))]]
    c = {"mesh": mc, "root": draw_root(draw, n), "forbidden": forb, "mode": mode, "sort": draw(st.booleans())}
    c.update(draw_history(draw, n))
    return c


@st.composite
def forest_case(draw):
    what = draw(st.sampled_from(["edge", "edge", "face", "face", "cell"]))
    if what == "edge":
        mc = draw(any_mesh())
        c = {"what": what, "mesh": mc, "forbidden": None, "mode": "none", "sort": draw(st.booleans()),
             "twice": draw(st.booleans()), "warm": draw(st.integers(0, 2)) == 0}
        c.update(draw_forms(draw))
        return c
    if what == "face":
        mc = draw(surface_meshes())
        mod = Model(mc)
        n, links = mod.links("face")
        mode, forb = draw_exclusion(draw, n, links)
        c = {"what": what, "mesh": mc, "forbidden": forb, "mode": mode, "sort": draw(st.booleans()),
             "twice": draw(st.booleans()), "warm": draw(st.integers(0, 2)) == 0}
        c.update(draw_forms(draw))
        return c
    mc = draw(volume_meshes())
    c = {"what": what, "mesh": mc, "forbidden": None, "mode": "none", "sort": draw(st.booleans()),
         "twice": draw(st.booleans()), "warm": draw(st.integers(0, 2)) == 0}
    c.update(draw_forms(draw))
    return c


@st.composite
def deep_forest_case(draw):
    c = {"what": "edge", "mesh": draw(deep_paths()), "forbidden": None, "mode": "none", "sort": draw(st.booleans()), "twice": False, "warm": False}
    c.update(draw_forms(draw))
    c["recycle"] = 0
    return c


# ============================================================================================ building

def variant_mesh(mc, seed):
    """another mesh with exactly the same element counts as mc but a different numbering (vertex ids, element order)"""
    if mc["kind"] == "surface":
        V, F, _ = G.relabel(mc["V"], mc["F"], seed)
        return {"kind": "surface", "V": V, "F": [list(map(int, f)) for f in F]}
    if mc["kind"] == "volume":
        V, C = T.relabel(mc["V"], mc["C"], seed, "mixed")
        return {"kind": "volume", "V": V, "C": [list(map(int, c)) for c in C]}
    rnd = random.Random(seed)
    n = len(mc["V"])
    perm = list(range(n)); rnd.shuffle(perm)
    V = [None] * n
    for o, nw in enumerate(perm):
        V[nw] = mc["V"][o]
    E = [[perm[a], perm[b]] for a, b in mc["E"]]
    rnd.shuffle(E)
    return {"kind": "polyline", "V": V, "E": E}


def construct_mesh(case, mc, mod, ctx=None):
    """the mouette mesh of the (expanded) mesh case mc, in the container forms asked by the case"""
    cls, raw = prepare_mesh(case, mc, mod, ctx)
    return cls(raw)


def release_mesh(pm):
    """drop a mesh for good: break its mesh <-> connectivity reference cycles so that it is freed at once (as a later garbage
    collection would do), which makes its address available to the next mesh object"""
    for a in ("connectivity", "boundary_connectivity"):
        if hasattr(pm, a):
            try:
                setattr(pm, a, None)
            except Exception:
                pass


def prepare_mesh(case, mc, mod, ctx=None):
    """(mesh class, filled RawMeshData) for the (expanded) mesh case mc"""
    import mouette as M
    from mouette.mesh.mesh_data import RawMeshData
    lab = (lambda *a: ctx.label(*a)) if ctx is not None else (lambda *a: None)
    # index rows: python lists or numpy rows of a (narrow) integer dtype that can hold every vertex id
    idx = case.get("idx", "list")
    if idx != "list" and len(mc["V"]) > {"int64": 2 ** 62, "int32": 2 ** 31 - 1, "int16": 2 ** 15 - 1, "uint8": 255}[idx]:
        idx = "list"
    lab("index-rows=" + idx)
    row = (lambda r: list(int(x) for x in r)) if idx == "list" else (lambda r: np.array(r, dtype=idx))
    raw = RawMeshData()
    if case.get("int_coords"):
        raw.vertices += [[int(x) for x in v] for v in mc["V"]]       # integer-typed coordinates (int64 vectors)
        lab("coords=int-typed")
    else:
        raw.vertices += [list(map(float, v)) for v in mc["V"]]
    explicit = bool(case.get("explicit")) and mc["kind"] != "polyline"
    if explicit:
        # edges (and the faces of cells) are declared by the caller instead of being completed by the library
        M.config.complete_edges_from_faces = False
        M.config.complete_faces_from_cells = False
        lab("explicit-edges-faces")
        raw.edges += [tuple(int(x) for x in e) if idx == "list" else row(e) for e in mod.edge_keys]
    if mc["kind"] == "polyline":
        raw.edges += [tuple(int(x) for x in e) if idx == "list" else row(e) for e in mc["E"]]
        return M.mesh.PolyLine, raw
    if mc["kind"] == "surface":
        raw.faces += [row(f) for f in mc["F"]]
        return M.mesh.SurfaceMesh, raw
    if explicit:
        raw.faces += [row(f) for f in sorted(mod.face_keys)]
    raw.cells += [row(c) for c in mc["C"]]
    return M.mesh.VolumeMesh, raw


def build(case, ctx, exercise=None):
    """fresh mouette mesh + reference model + index maps (edge key -> edge id, face key -> face id).
    exercise(mesh): what the sub-check does with a mesh; run on short-lived predecessor meshes when the case asks for recycling."""
    import mouette as M
    M.config.sort_neighborhoods = bool(case.get("sort", True))
    mc = expand_mesh(case["mesh"])
    mod = Model(mc)
    M.config.display_duplicate_attribute_warning = bool(case.get("dup_warn", False))
    ctx.label("dup_warn=" + str(bool(case.get("dup_warn", False))))
    rounds = int(case.get("recycle", 0)) if (exercise is not None and len(mc["V"]) <= 3000) else 0
    if rounds:
        # object recycling: meshes of the same size (other numbering) are built, spanned and dropped one after the other; each is
        # released immediately before the next mesh object is created, so that the next one (finally the mesh of this case) is
        # likely to be allocated at the address where its predecessor lived
        ctx.label("recycled-mesh-objects")
        pm = None
        reused = False
        for r in range(rounds):
            vmc = variant_mesh(mc, int(case.get("recycle_seed", 0)) * 7 + r)
            needs_model = bool(case.get("explicit")) and vmc["kind"] != "polyline"      # only explicit edge / face lists need it
            cls, raw = prepare_mesh(case, vmc, Model(vmc) if needs_model else None)
            if pm is not None:
                release_mesh(pm)
                pm = None
            pm = cls(raw)
            try:
                exercise(pm)
            except Exception:
                pass                                   # the predecessors are history only; the mesh of the case is what is judged
        cls, raw = prepare_mesh(case, mc, mod, ctx)
        old = id(pm)
        release_mesh(pm)
        pm = None
        m = cls(raw)
        ctx.label("mesh-address-reused" if id(m) == old else "mesh-address-fresh")
    else:
        m = construct_mesh(case, mc, mod, ctx)
    if case.get("warm"):
        # the mesh object has been used before: connectivity and boundary caches exist, a persistent edge length is stored
        ctx.label("warm-mesh")
        if len(m.vertices):
            m.connectivity.vertex_to_vertices(0)
        if mc["kind"] != "polyline":
            _ = m.boundary_edges, m.boundary_vertices, m.interior_edges
            if len(m.faces):
                m.connectivity.face_to_edges(0)
        if mc["kind"] == "volume":
            _ = m.boundary_faces
            m.connectivity.cell_to_face(0)
        if case.get("length_attr", "none") == "none":
            M.attributes.edge_length(m)
    for t in mc.get("tags", []):
        if t.startswith(("base=", "comps=", "closed", "bordered", "union", "part=", "coords=", "big")):
            ctx.label(t)
    ctx.label("mesh=" + mc["kind"])
    medges = [key(e) for e in m.edges]
    eid = {e: i for i, e in enumerate(medges)}
    ok = ctx.check(len(eid) == len(medges) and set(medges) == set(mod.edge_keys), "mesh:edges",
                   f"the mesh's edge container {medges[:12]}... is not the reference edge set ({len(mod.edge_keys)} edges)")
    fid = None
    if mc["kind"] == "volume":
        mfaces = [key(f) for f in m.faces]
        fid = {f: i for i, f in enumerate(mfaces)}
        ok = ctx.check(len(fid) == len(mfaces) and set(mfaces) == mod.face_keys, "mesh:faces",
                       f"the volume's face container has {len(mfaces)} faces, reference {len(mod.face_keys)}") and ok
    return m, mod, eid, fid, ok


def has_cycle(n, links):
    pairs = [(a, b) for a, b, _ in links]
    return len(pairs) > n - len(R.partition(n, pairs))


def plain_int(x):
    return isinstance(x, (int,)) and not isinstance(x, bool)


def as_int(x):
    try:
        if isinstance(x, bool):
            return None
        i = int(x)
        return i if i == x else None
    except Exception:
        return None


# ============================================================================================ oracles

def read_tables(ctx, tag, tree, n):
    """validate shapes of parent / children / edges; returns (parent, children, edges) as plain python or None"""
    par, chi, edg = tree.parent, tree.children, tree.edges
    if not ctx.check(isinstance(par, (list, tuple)) and len(par) == n, tag + "parent:shape",
                     f"parent is {type(par).__name__} of length {len(par) if hasattr(par, '__len__') else '?'}, expected one entry per element ({n})"):
        return None
    parent = []
    for v, p in enumerate(par):
        if p is None:
            parent.append(None)
            continue
        pi = as_int(p)
        if not ctx.check(pi is not None and 0 <= pi < n and pi != v, tag + "parent:value", f"parent[{v}] = {p!r} is not another element index in [0,{n})"):
            return None
        parent.append(pi)
    if not ctx.check(isinstance(chi, (list, tuple)) and len(chi) == n and all(isinstance(c, (list, tuple)) for c in chi), tag + "children:shape",
                     f"children is not a list of {n} lists"):
        return None
    children = []
    for v, cl in enumerate(chi):
        row = [as_int(c) for c in cl]
        if not ctx.check(all(c is not None and 0 <= c < n for c in row), tag + "children:value", f"children[{v}] = {list(cl)!r} has entries outside [0,{n})"):
            return None
        children.append(row)
    if not ctx.check(isinstance(edg, (list, tuple)), tag + "edges:shape", f"edges is {type(edg).__name__}"):
        return None
    edges = []
    for e in edg:
        good = isinstance(e, (list, tuple)) and len(e) == 2 and all(as_int(x) is not None and 0 <= as_int(x) < n for x in e)
        if not ctx.check(good, tag + "edges:value", f"tree edge {e!r} is not a pair of element indices in [0,{n})"):
            return None
        edges.append((as_int(e[0]), as_int(e[1])))
    return parent, children, edges


def check_children_inverse(ctx, tag, parent, children, n):
    inv = [[] for _ in range(n)]
    for v, p in enumerate(parent):
        if p is not None:
            inv[p].append(v)
    bad = [v for v in range(n) if sorted(children[v]) != inv[v]]
    return ctx.check(not bad, tag + "children-inverse",
                     f"children is not the inverse of parent at element(s) {bad[:5]}: children[{bad[0] if bad else ''}] = "
                     f"{children[bad[0]] if bad else ''}, elements whose parent it is: {inv[bad[0]] if bad else ''}")


def depths_from_parent(ctx, tag, parent, root, reached, n):
    """depth of every reached element following parent links to the root; None if a chain does not end at the root"""
    depth = {root: 0}
    for v in reached:
        chain = []
        x = v
        while x not in depth:
            chain.append(x)
            x = parent[x]
            if x is None or len(chain) > n:
                ctx.check(False, tag + "parent-chain", f"following parent from element {v} does not arrive at the root {root} (chain {chain[:10]})")
                return None
        d = depth[x]
        for y in reversed(chain):
            d += 1
            depth[y] = d
    return depth


def check_traverse(ctx, tag, tree, parent, root, reached, depth, orders=("BFS", "DFS")):
    for order in orders:
        sig = tag + "traverse:" + order + ":"
        ok, seq = ctx.call(sig + "call", lambda: list(tree.traverse(order)))
        if not ok:
            continue
        good = all(isinstance(t, tuple) and len(t) == 2 for t in seq)
        if not ctx.check(good, sig + "shape", f"traverse('{order}') does not yield (node, parent) pairs: {seq[:5]!r}"):
            continue
        ok2, seq2 = ctx.call(sig + "call", lambda: list(tree.traverse(order)))
        if ok2:
            ctx.check(seq2 == seq, sig + "repeatable", f"a second traverse('{order}') yields a different sequence: {seq2[:6]} vs {seq[:6]}")
        nodes = [t[0] for t in seq]
        cnt = Counter(nodes)
        dup = [v for v, c in cnt.items() if c > 1]
        if not ctx.check(not dup, sig + "once", f"traverse('{order}') yields element(s) {dup[:5]} more than once"):
            continue
        if not ctx.check(set(nodes) == set(reached), sig + "covers",
                         f"traverse('{order}') yields {len(nodes)} elements, the tree reaches {len(reached)}; missing {sorted(set(reached) - set(nodes))[:8]}, "
                         f"extra {sorted(set(nodes) - set(reached))[:8]}"):
            continue
        if not ctx.check(seq[0] == (root, None), sig + "root-first", f"traverse('{order}') starts with {seq[0]!r}, expected ({root}, None)"):
            continue
        pos = {v: i for i, v in enumerate(nodes)}
        bad = [(v, p) for v, p in seq if p != parent[v]]
        if not ctx.check(not bad, sig + "parent", f"traverse('{order}') reports (node, parent) = {bad[:3]} but parent[{bad[0][0] if bad else ''}] = "
                         f"{parent[bad[0][0]] if bad else ''}"):
            continue
        late = [(v, p) for v, p in seq if p is not None and pos[p] > pos[v]]
        if not ctx.check(not late, sig + "parents-first", f"traverse('{order}') yields {late[:3]} (node, parent) before the parent itself"):
            continue
        if depth is None:
            continue
        if order == "BFS":
            ds = [depth[v] for v in nodes]
            ctx.check(all(ds[i] <= ds[i + 1] for i in range(len(ds) - 1)), sig + "order",
                      f"traverse('BFS') is not level by level: depths along the sequence {ds[:30]}")
        else:
            path = []
            okk = True
            for v, p in seq:
                if p is None:
                    path = [v]
                    continue
                while path and path[-1] != p:
                    path.pop()
                if not path:
                    okk = False
                    ctx.check(False, sig + "order", f"traverse('DFS') is not depth-first: node {v} (parent {p}) comes after the subtree of {p} was left; "
                              f"sequence {seq[:20]}")
                    break
                path.append(v)


def check_traverse_histories(ctx, tag, obj):
    """Iterators of one tree / forest must be independent of each other: abandoned, interleaved and restarted traversals.
    Reference = complete traversals made first (validated elsewhere)."""
    ok, ref = ctx.call(tag + "traverse:call", lambda: {o: list(obj.traverse(o)) for o in ("BFS", "DFS")})
    if not ok or len(ref["BFS"]) < 2:
        return
    refB, refD = ref["BFS"], ref["DFS"]
    k = max(1, len(refB) // 2)

    def run():
        out = {}
        try:
            list(obj.traverse("breadth-first"))        # not an accepted order: raises; ordinary use must go on afterwards
        except Exception:
            pass
        out["after-bad-order-BFS"] = (list(obj.traverse("BFS")), refB)
        it = obj.traverse("BFS")                       # abandoned half-way, iterator object kept alive
        head = [next(it) for _ in range(k)]
        out["after-abandoned-DFS"] = (list(obj.traverse("DFS")), refD)
        out["after-abandoned-BFS"] = (list(obj.traverse("BFS")), refB)
        out["resumed"] = (head + list(it), refB)         # the suspended iterator finishes its own traversal
        for x in obj.traverse("DFS"):                   # consumer breaks out of the loop
            break
        out["after-break-DFS"] = (list(obj.traverse("DFS")), refD)
        out["after-break-BFS"] = (list(obj.traverse("BFS")), refB)
        out["lock-step"] = (list(zip(obj.traverse("BFS"), obj.traverse("DFS"))), list(zip(refB, refD)))
        out["lock-step-same-order"] = (list(zip(obj.traverse("BFS"), obj.traverse("BFS"))), list(zip(refB, refB)))
        return out
    ok, out = ctx.call(tag + "traverse:histories", run)
    if not ok:
        return
    for name, (got, exp) in out.items():
        if not ctx.check(got == exp, tag + "traverse:history:" + name,
                         f"{name}: the traversal yields {len(got)} items {got[:8]}..., a fresh complete traversal yields {len(exp)} items {exp[:8]}..."):
            return


def check_spanning_tree(ctx, tag, tree, n, adm_links, root_expected, bfs=True, orders=("BFS", "DFS")):
    """tree: a computed BFS spanning tree over n elements; adm_links: admissible (a, b, carrier) adjacencies.
    Returns the sorted reached list or None."""
    root = tree.root
    if root_expected is not None:
        if not ctx.check(as_int(root) == root_expected, tag + "root", f"root is {root!r}, constructor was given {root_expected}"):
            return None
    else:
        if not ctx.check(as_int(root) is not None and 0 <= root < n, tag + "root", f"random root {root!r} is not an element index in [0,{n})"):
            return None
    root = as_int(root)
    tabs = read_tables(ctx, tag, tree, n)
    if tabs is None:
        return None
    parent, children, edges = tabs
    pairs = [(a, b) for a, b, _ in adm_links]
    adm = set(key(a, b) for a, b in pairs)
    comp = R.component_of(n, pairs, root)
    ok = ctx.check(parent[root] is None, tag + "root-parent", f"parent[root={root}] = {parent[root]!r}, expected None")
    reached = sorted(set([root]) | set(v for v in range(n) if parent[v] is not None))
    if not ctx.check(reached == comp, tag + "reached",
                     f"root {root}: the tree reaches {len(reached)} elements, the root's component in the admissible graph has {len(comp)}; "
                     f"not reached {sorted(set(comp) - set(reached))[:8]}, wrongly reached {sorted(set(reached) - set(comp))[:8]}"):
        return None
    ok = ctx.check(len(edges) == len(reached) - 1, tag + "edge-count", f"{len(edges)} tree edges for {len(reached)} reached elements") and ok
    notsorted = [e for e in edges if not e[0] < e[1]]
    ctx.check(not notsorted, tag + "edges:format", f"tree edges {notsorted[:3]} are not stored as (u,v) with u<v")
    badadj = [(v, parent[v]) for v in reached if v != root and key(v, parent[v]) not in adm]
    ok = ctx.check(not badadj, tag + "parent-admissible",
                   f"(element, parent) pairs {badadj[:4]} are not admissible adjacencies (not adjacent in the mesh, or only across excluded items)") and ok
    bade = [e for e in edges if key(e) not in adm]
    ok = ctx.check(not bade, tag + "edge-admissible", f"tree edges {bade[:4]} are not admissible adjacencies") and ok
    from_parent = sorted(key(v, parent[v]) for v in reached if v != root)
    ok = ctx.check(sorted(key(e) for e in edges) == from_parent, tag + "edges-vs-parent",
                   f"edges {sorted(key(e) for e in edges)[:10]} is not the set of (parent, child) pairs {from_parent[:10]}") and ok
    ok = check_children_inverse(ctx, tag, parent, children, n) and ok
    rset = set(reached)
    outside = [v for v in range(n) if v not in rset and children[v]]
    ctx.check(not outside, tag + "children-outside", f"unreached elements {outside[:5]} have children")
    depth = depths_from_parent(ctx, tag, parent, root, reached, n)
    if depth is not None and bfs:
        hops = R.bfs_hops(n, pairs, root)
        bad = [(v, depth[v], hops[v]) for v in reached if depth[v] != hops[v]]
        ctx.check(not bad, tag + "bfs-depth", f"root {root}: (element, depth in tree, minimum hop distance) = {bad[:5]}")
    if ok:
        light = n > 20000                      # very long paths: one BFS traversal, no iterator histories (cost)
        check_traverse(ctx, tag, tree, parent, root, reached, depth, ("BFS",) if light else orders)
        if not light:
            check_traverse_histories(ctx, tag, tree)
    return reached


def admissible_edge_links(mod, case_avoid, avoid_boundary):
    """vertex graph minus avoided edge keys minus border edges if asked (never for polylines)"""
    n, links = mod.links("vertex")
    avoid = set(key(e) for e in (case_avoid or []))
    if avoid_boundary and mod.kind != "polyline":
        avoid |= set(mod.border_edges)
    return n, links, [(a, b, c) for a, b, c in links if c not in avoid], avoid


def label_common(ctx, n, links, adm, root, excl_nonempty):
    pairs_all = [(a, b) for a, b, _ in links]
    ncomp = len(R.partition(n, pairs_all))
    ncomp_adm = len(R.partition(n, [(a, b) for a, b, _ in adm]))
    ctx.label("components=" + str(min(ncomp, 3)))
    ctx.label("root=" + ("random" if root is None else "explicit"))
    ctx.label("exclusion-disconnects" if ncomp_adm > ncomp else "exclusion-harmless" if excl_nonempty else "no-exclusion")
    cyc = has_cycle(n, links)
    ctx.label("cycle" if cyc else "acyclic")
    ctx.nontrivial(cyc and (excl_nonempty or ncomp >= 2))
    return ncomp, ncomp_adm


# -------------------------------------------------------------------------------------------- shared: histories on one mesh

def np_root(case, r):
    """the root as the caller would pass it: plain int, or a numpy integer (e.g. taken out of an index array)"""
    if r is None:
        return None
    if not case.get("root_np"):
        return int(r)
    dt = case.get("np_int", "int64")
    if r > {"int64": 2 ** 62, "int32": 2 ** 31 - 1, "uint16": 65535, "uint8": 255}[dt]:
        dt = "int64"
    return np.dtype(dt).type(r)


def id_set(case, ids):
    """the exclusion argument as the caller passes it: None, a set or a frozenset, of python ints or numpy integers"""
    if ids is None:
        return None
    items = [np.int64(i) for i in ids] if case.get("ids_np") else [int(i) for i in ids]
    return frozenset(items) if case.get("frozen") else set(items)


def snapshot_tables(tree):
    return copy.deepcopy(([x for x in tree.parent], [list(c) for c in tree.children], [tuple(e) for e in tree.edges]))


def check_copies(ctx, tag, tree, n):
    """copy.copy / copy.deepcopy of a computed tree carry the same tables and traverse like the original"""
    ctx.label("copies")
    tabs = snapshot_tables(tree)
    trav = list(tree.traverse("BFS")), list(tree.traverse("DFS"))
    kinds = [("copy", copy.copy)] + ([("deepcopy", copy.deepcopy)] if n <= 150 else [])
    for name, f in kinds:
        ok, t2 = ctx.call(tag + name, f, tree)
        if not ok:
            continue
        ok, res = ctx.call(tag + name + ":use", lambda: (snapshot_tables(t2), (list(t2.traverse("BFS")), list(t2.traverse("DFS"))), t2.root))
        if ok:
            ctx.check(res[0] == tabs and res[1] == trav and res[2] == tree.root, tag + name + ":differs",
                      f"the {name} of the tree has other tables / another traversal than the tree itself")
    ctx.check(snapshot_tables(tree) == tabs, tag + "copy:original-changed", "copying the tree changed it")


def run_trees(ctx, tag, case, n, make, adm_fn, argset, what, all_ids):
    """First tree (root `root`), then - if the case has `root2` - a second tree on the SAME mesh object built with the SAME
    exclusion-set object (possibly edited in place by the caller in between).  make(root, second) returns a constructed (not
    computed) tree; adm_fn(excluded ids, second) the admissible links; all_ids the valid ids for the exclusion set."""
    snap = [None if argset is None else set(argset)]
    if case["root"] is not None and case.get("root_np"):
        ctx.label("root-type=numpy")
    if argset is not None:
        ctx.label("exclusion-arg=" + type(argset).__name__ + ("-of-numpy-ints" if case.get("ids_np") else ""))

    def unchanged(t):
        if argset is None:
            return True
        sn = snap[0]
        return ctx.check(argset == sn, t + "input-mutated",
                         f"the caller's {what} set was modified by the tree: {len(sn)} ids before, {len(argset)} after "
                         f"(added {sorted(argset - sn)[:8]}, removed {sorted(sn - argset)[:8]})")
    ok, tree = ctx.call(tag + "construct", lambda: make(np_root(case, case["root"]), False))
    if not ok:
        return
    if case.get("bad_call"):
        ctx.label("traverse-before-compute")
        try:
            list(tree.traverse("BFS"))          # refused (or at most the root): must leave the tree usable
        except Exception:
            pass
    ok, r = ctx.call(tag + "compute", tree)
    if not ok:
        return
    ctx.check(r is tree, tag + "call-returns-self", "tree() does not return the tree")
    unchanged(tag)
    reached = check_spanning_tree(ctx, tag, tree, n, adm_fn(argset, False), case["root"], bfs=True)
    if reached is None:
        return
    if case.get("copies"):
        check_copies(ctx, tag, tree, n)
    r2 = case.get("root2")
    if r2 is None:
        return
    ctx.label("second-tree")
    tabs1 = snapshot_tables(tree)
    trav1 = list(tree.traverse("BFS")), list(tree.traverse("DFS"))
    if case.get("mutate_arg") and isinstance(argset, set) and all_ids:
        # the caller edits the exclusion set in place before asking for another tree: the new tree follows the edited set,
        # the tree that already exists stays as it was
        x = sorted(all_ids)[int(case.get("mutate_pick", 0)) % len(all_ids)]
        if x in argset:
            argset.discard(x)
        else:
            argset.add(np.int64(x) if case.get("ids_np") else int(x))
        snap[0] = set(argset)
        ctx.label("argument-edited-in-place")
    t2 = tag + "second:"
    ok, tree2 = ctx.call(t2 + "construct", lambda: make(np_root(case, r2), True))
    if not ok:
        return
    ok, r = ctx.call(t2 + "compute", tree2)
    if not ok:
        return
    unchanged(t2)
    check_spanning_tree(ctx, t2, tree2, n, adm_fn(argset, True), r2, bfs=True)
    ctx.check(snapshot_tables(tree) == tabs1, tag + "first-tree-changed",
              "building a second tree on the same mesh changed the tables of the first tree")
    ctx.check((list(tree.traverse("BFS")), list(tree.traverse("DFS"))) == trav1, tag + "first-tree-traverse-changed",
              "after a second tree was built and traversed on the same mesh, the first tree traverses differently")


# -------------------------------------------------------------------------------------------- sub-check: edge tree

def fn_edge_tree(case, ctx):
    from mouette.processing import trees
    ab1 = bool(case["avoid_boundary"])
    ab2 = bool(case.get("avoid_boundary2", ab1))
    m, mod, eid, fid, ok = build(case, ctx, exercise=lambda pm: (trees.EdgeSpanningTree(pm, 0, avoid_boundary=ab1)(),
                                                                   trees.EdgeSpanningTree(pm, 0, avoid_boundary=True)()))
    if not ok:
        return
    n, links, adm, avoid = admissible_edge_links(mod, case["avoid"], case["avoid_boundary"])
    ctx.label("avoid=" + case["avoid_mode"], "avoid_boundary=" + str(bool(case["avoid_boundary"])))
    label_common(ctx, n, links, adm, case["root"], bool(avoid & set(c for _, _, c in links)))
    avoid_ids = id_set(case, None if case["avoid"] is None else [eid[key(e)] for e in case["avoid"]])
    if mod.kind == "surface" and case["avoid_boundary"] and case["avoid"] is None and not case.get("sort", True):
        ctx.label("avoid-boundary-only+unsorted-fans")
    key_of = {i: e for e, i in eid.items()}
    border = set(mod.border_edges) if mod.kind != "polyline" else set()

    def adm_fn(ids, second):
        excl = set(key_of[int(i)] for i in (ids or ()))
        if (ab2 if second else ab1):
            excl |= border
        return [(a, b, c) for a, b, c in links if c not in excl]
    make = lambda root, second: trees.EdgeSpanningTree(m, root, avoid_boundary=(ab2 if second else ab1), avoid_edges=avoid_ids)
    run_trees(ctx, "edge_tree:", case, n, make, adm_fn, avoid_ids, "avoid_edges", sorted(key_of))


# -------------------------------------------------------------------------------------------- sub-check: MST

@contextlib.contextmanager
def memory_cap(extra=2 << 30):
    """Soft address-space limit (current size + extra) while a library call runs: if Kruskal ever hands a cyclic edge set to the
    orientation loop, that loop appends to its queue forever; a MemoryError (reported as a violation) is better than an
    OOM-killed worker, which would hang the process pool.  Restored afterwards."""
    try:
        import resource
        soft, hard = resource.getrlimit(resource.RLIMIT_AS)
        with open("/proc/self/statm") as f:
            cur = int(f.read().split()[0]) * resource.getpagesize()
        lim = cur + extra
        if hard != resource.RLIM_INFINITY:
            lim = min(lim, hard)
        resource.setrlimit(resource.RLIMIT_AS, (lim, hard))
    except Exception:
        resource = None
    try:
        yield
    finally:
        if resource is not None:
            resource.setrlimit(resource.RLIMIT_AS, (soft, hard))


def compute_capped(tree):
    try:
        with memory_cap():
            return tree()
    except Exception as e:
        # drop the locals of the library frames (a multi-GB work queue after a MemoryError): the exception object is kept alive by
        # the reported violation for the rest of the shard and would otherwise pin that memory in every worker
        import traceback
        traceback.clear_frames(e.__traceback__)
        raise


def check_mst(ctx, tag, tree, n, adm, w, wm, root_expected):
    """tree: computed EdgeMinimalSpanningTree; adm: admissible (a, b, edge key); w: reference weight per edge key"""
    root = tree.root
    if root_expected is not None:
        if not ctx.check(as_int(root) == root_expected, tag + "root", f"root is {root!r}, constructor was given {root_expected}"):
            return False
    elif not ctx.check(as_int(root) is not None and 0 <= root < n, tag + "root", f"random root {root!r} is not a vertex index in [0,{n})"):
        return False
    root = as_int(root)
    tabs = read_tables(ctx, tag, tree, n)
    if tabs is None:
        return False
    parent, children, edges = tabs
    pairs = [(a, b) for a, b, _ in adm]
    admset = set(key(a, b) for a, b in pairs)
    adm_w = [(a, b, w[c]) for a, b, c in adm]
    vals = [x for _, _, x in adm_w]
    # 1. the edge list: a minimum-weight spanning forest of the admissible graph
    bade = [e for e in edges if key(e) not in admset]
    okE = ctx.check(not bade, tag + "edge-admissible", f"MST edges {bade[:4]} are not admissible mesh edges (absent, or on the border with avoid_boundary)")
    notsorted = [e for e in edges if not e[0] < e[1]]
    ctx.check(not notsorted, tag + "edges:format", f"MST edges {notsorted[:3]} are not stored as (u,v) with u<v")
    okE = ctx.check(R.is_forest(n, edges), tag + "acyclic", f"the MST edge list contains a cycle or a repeated edge: {edges[:12]}") and okE
    pe, pa = R.partition(n, edges), R.partition(n, pairs)
    okE = ctx.check(pe == pa, tag + "partition",
                    f"the MST edge list connects {len(pe)} blocks, the admissible graph has {len(pa)} components (n={n}, {len(edges)} edges)") and okE
    if okE:
        total = math.fsum(w[key(e)] for e in edges)
        ref_total, ref_k, _ = R.kruskal(n, adm_w)
        tol = 1e-9 * math.fsum(abs(x) for x in vals)          # relative to the scale of the weights (no absolute floor)
        ctx.check(abs(total - ref_total) <= tol, tag + "weight",
                  f"total weight of the returned forest {total!r} != minimum spanning forest weight {ref_total!r} (weights={wm}, {len(edges)} edges, "
                  f"difference {total - ref_total:.3e}, tolerance {tol:.1e})")
    # 2. parent / children orient exactly the root's component
    comp = R.component_of(n, pairs, root)
    ctx.check(parent[root] is None, tag + "root-parent", f"parent[root={root}] = {parent[root]!r}")
    reached = sorted(set([root]) | set(v for v in range(n) if parent[v] is not None))
    if not ctx.check(reached == comp, tag + "reached",
                     f"root {root}: parent table orients {len(reached)} vertices, the root's admissible component has {len(comp)}; "
                     f"missing {sorted(set(comp) - set(reached))[:8]}, extra {sorted(set(reached) - set(comp))[:8]}"):
        return False
    cs = set(comp)
    from_parent = sorted(key(v, parent[v]) for v in reached if v != root)
    in_comp = sorted(key(e) for e in edges if e[0] in cs)
    ok2 = ctx.check(from_parent == in_comp, tag + "edges-vs-parent",
                    f"(parent, child) pairs {from_parent[:10]} are not the MST edges inside the root's component {in_comp[:10]}")
    ok2 = check_children_inverse(ctx, tag, parent, children, n) and ok2
    depth = depths_from_parent(ctx, tag, parent, root, reached, n)
    if ok2:
        check_traverse(ctx, tag, tree, parent, root, reached, depth)
        check_traverse_histories(ctx, tag, tree)
    return True


def fn_mst(case, ctx):
    import mouette as M
    from mouette.processing import trees
    ex_w = case["weights_mode"] if case["weights_mode"] in ("one", "length") else "one"
    m, mod, eid, fid, ok = build(case, ctx, exercise=lambda pm: (trees.EdgeMinimalSpanningTree(pm, 0, avoid_boundary=bool(case["avoid_boundary"]), weights=ex_w)(),
                                                                   trees.EdgeMinimalSpanningTree(pm, 0, avoid_boundary=True, weights="one")()))
    if not ok:
        return
    nE = len(mod.edge_keys)
    n, links, adm, avoid = admissible_edge_links(mod, None, case["avoid_boundary"])
    wm = case["weights_mode"]
    ctx.label("weights=" + wm, "style=" + case["style"], "avoid_boundary=" + str(bool(case["avoid_boundary"])))
    sc = float(case.get("scale", 1.0))
    ctx.label("scale=%g" % sc)
    ctx.label("offset/size=%g" % float(case.get("offset", 0.0)), "anisotropic" if case.get("aniso") else "isotropic")
    label_common(ctx, n, links, adm, case["root"], bool(avoid & set(c for _, _, c in links)))
    # history before the tree: an edge attribute named "length" already lives on the mesh
    la = case.get("length_attr", "none")
    ctx.label("length-attr=" + la)
    if la == "fresh":
        M.attributes.edge_length(m)
    elif la == "user":
        a = m.edges.create_attribute("length", float, dense=True)
        for u, v, x in case["length_vals"]:
            a[eid[key(u, v)]] = float(x)
    elif la == "stale":
        M.attributes.edge_length(m)                      # lengths of the ORIGINAL geometry stay stored on the mesh
        for i, p in enumerate(case["V2"]):
            m.vertices[i] = M.Vec(float(p[0]), float(p[1]), float(p[2]))
        mod.V = case["V2"]                                # the reference measures the current geometry

    def length_attr_values():
        if not m.edges.has_attribute("length"):
            return None
        a = m.edges.get_attribute("length")
        return [float(a[e]) for e in range(nE)]
    len_snap = length_attr_values()
    coords_snap = [[float(x) for x in v] for v in m.vertices]
    # reference weights per edge key
    w_len = {e: mod.length(e) for e in mod.edge_keys}
    w_one = {e: 1.0 for e in mod.edge_keys}
    arg_snapshot = lambda: None
    if wm == "one":
        w, arg = w_one, "one"
    elif wm == "length":
        w, arg = w_len, "length"
    else:
        dflt = case.get("attr_default")
        vt = case.get("val_type", "float")

        def conv(x):
            """the weight value as the caller stores it in a dict"""
            x = float(x)
            if vt == "int" and x == int(x):
                return int(x)
            if vt == "float32":
                return np.float32(x)
            if vt == "float64":
                return np.float64(x)
            if vt == "uint8" and x == int(x) and 0 <= x <= 255:
                return np.uint8(x)
            return x
        w = {e: (0.0 if dflt is None else float(dflt)) for e in mod.edge_keys}
        for a, b, x in case["weights"]:
            w[key(a, b)] = float(conv(x)) if wm == "dict" else float(x)
        if wm == "dict":
            ctx.label("dict-values=" + vt)
            order = list(reversed(mod.edge_keys)) if case.get("dict_rev") else list(mod.edge_keys)
            cw = {tuple(key(a, b)): conv(x) for a, b, x in case["weights"]}
            arg = {eid[e]: cw[e] for e in order}                # insertion order of the dict must not matter
            ctx.label("dict-order=" + ("reversed" if case.get("dict_rev") else "sorted"))
            arg_snapshot = lambda: dict(arg)
        else:
            if dflt is None:
                arg = m.edges.create_attribute("c10_weight", float, dense=(wm == "attr_dense"))
            else:
                arg = m.edges.create_attribute("c10_weight", float, dense=(wm == "attr_dense"), default_value=float(dflt))
            wl = sorted(case["weights"], key=lambda t: eid[key(t[0], t[1])], reverse=bool(case.get("dict_rev")))
            for a, b, x in wl:                          # written in increasing or decreasing index order
                arg[eid[key(a, b)]] = float(x)
            unwritten = len(mod.edge_keys) - len(case["weights"])
            ctx.label("attr-default=" + ("type-default" if dflt is None else "zero" if dflt == 0 else "non-zero")
                      + ("+unwritten" if unwritten else "+all-written"))
            arg_snapshot = lambda: [float(arg[e]) for e in range(nE)]
    arg_snap = arg_snapshot()
    vals = [w[c] for _, _, c in adm]
    ctx.label("ties" if len(set(vals)) < len(vals) else "no-ties")
    if case["root"] is not None and case.get("root_np"):
        ctx.label("root-type=numpy")

    def untouched(t):
        ctx.check(arg_snapshot() == arg_snap, t + "input-mutated", f"the weights object ({wm}) was modified by the tree")
        ctx.check(length_attr_values() == len_snap, t + "length-attr-mutated", "the mesh's stored 'length' edge attribute was created / modified by the tree")
        now = [[float(x) for x in v] for v in m.vertices]
        ctx.check(now == coords_snap, t + "vertices-mutated", "vertex coordinates were modified by the tree")

    ab = bool(case["avoid_boundary"])
    ok, tree = ctx.call("mst:construct", lambda: trees.EdgeMinimalSpanningTree(m, np_root(case, case["root"]), avoid_boundary=ab, weights=arg))
    if not ok:
        return
    ok, r = ctx.call("mst:compute", compute_capped, tree)
    if not ok:
        return
    untouched("mst:")
    if not check_mst(ctx, "mst:", tree, n, adm, w, wm, case["root"]):
        return
    if case.get("copies"):
        check_copies(ctx, "mst:", tree, n)
    r2 = case.get("root2")
    if r2 is None:
        return
    # second tree on the same mesh object (same weights object, or another weight choice)
    mode2 = case.get("mode2", "same")
    ctx.label("second-tree", "second-weights=" + mode2)
    arg2, w2, wm2 = (arg, w, wm) if mode2 == "same" else ("one", w_one, "one") if mode2 == "one" else ("length", w_len, "length")
    tabs1 = snapshot_tables(tree)
    if mode2 == "same" and wm in ("dict", "attr", "attr_dense") and case.get("mutate_arg") and mod.edge_keys:
        # the caller rewrites one weight in the same dict / attribute object before asking for another tree
        ek = mod.edge_keys[int(case.get("mutate_pick", 0)) % len(mod.edge_keys)]
        newv = float(w[ek]) + 10.0 if int(case.get("mutate_pick", 0)) % 2 else -5.0
        arg[eid[ek]] = newv
        w2 = dict(w); w2[ek] = newv
        arg_snap = arg_snapshot()
        ctx.label("argument-edited-in-place")
    trav1 = list(tree.traverse("BFS")), list(tree.traverse("DFS"))
    ok, tree2 = ctx.call("mst:second:construct", lambda: trees.EdgeMinimalSpanningTree(m, np_root(case, r2), avoid_boundary=ab, weights=arg2))
    if not ok:
        return
    ok, r = ctx.call("mst:second:compute", compute_capped, tree2)
    if not ok:
        return
    untouched("mst:second:")
    check_mst(ctx, "mst:second:", tree2, n, adm, w2, wm2, r2)
    ctx.check(snapshot_tables(tree) == tabs1, "mst:first-tree-changed", "building a second MST on the same mesh changed the tables of the first one")
    ctx.check((list(tree.traverse("BFS")), list(tree.traverse("DFS"))) == trav1, "mst:first-tree-traverse-changed",
              "after a second MST was built and traversed on the same mesh, the first one traverses differently")


# -------------------------------------------------------------------------------------------- sub-check: face tree

def fn_face_tree(case, ctx):
    from mouette.processing import trees
    m, mod, eid, fid, ok = build(case, ctx, exercise=lambda pm: trees.FaceSpanningTree(pm, 0)())
    if not ok:
        return
    n, links = mod.links("face")
    forb = set(key(e) for e in (case["forbidden"] or []))
    adm = [(a, b, c) for a, b, c in links if c not in forb]
    ctx.label("forbidden=" + case["mode"])
    label_common(ctx, n, links, adm, case["root"], bool(forb & set(c for _, _, c in links)))
    forb_ids = id_set(case, None if case["forbidden"] is None else [eid[key(e)] for e in case["forbidden"]])
    dbl = double_adjacencies(links)
    if dbl:
        ctx.label("faces-sharing-two-edges")
        if any(0 < len([e for e in sh if e in forb]) < len(sh) for sh in dbl.values()):
            ctx.label("faces-sharing-two-edges:partly-forbidden")
    make = lambda root, second: trees.FaceSpanningTree(m, root, forb_ids)
    key_of = {i: e for e, i in eid.items()}
    adm_fn = lambda ids, second: [(a, b, c) for a, b, c in links if c not in set(key_of[int(i)] for i in (ids or ()))]
    run_trees(ctx, "face_tree:", case, n, make, adm_fn, forb_ids, "forbidden_edges", sorted(key_of))


# -------------------------------------------------------------------------------------------- sub-check: cell tree

def fn_cell_tree(case, ctx):
    from mouette.processing import trees
    m, mod, eid, fid, ok = build(case, ctx, exercise=lambda pm: trees.CellSpanningTree(pm, 0)())
    if not ok:
        return
    n, links = mod.links("cell")
    forb = set(key(f) for f in (case["forbidden"] or []))
    adm = [(a, b, c) for a, b, c in links if c not in forb]
    ctx.label("forbidden=" + case["mode"])
    label_common(ctx, n, links, adm, case["root"], bool(forb & set(c for _, _, c in links)))
    forb_ids = id_set(case, None if case["forbidden"] is None else [fid[key(f)] for f in case["forbidden"]])
    make = lambda root, second: trees.CellSpanningTree(m, root, forb_ids)
    key_of = {i: f for f, i in fid.items()}
    adm_fn = lambda ids, second: [(a, b, c) for a, b, c in links if c not in set(key_of[int(i)] for i in (ids or ()))]
    run_trees(ctx, "cell_tree:", case, n, make, adm_fn, forb_ids, "forbidden_faces", sorted(key_of))


# -------------------------------------------------------------------------------------------- sub-check: forests

def fn_forest(case, ctx):
    from mouette.processing import trees
    fcls = {"edge": trees.EdgeSpanningForest, "face": trees.FaceSpanningForest, "cell": trees.CellSpanningForest}[case["what"]]
    m, mod, eid, fid, ok = build(case, ctx, exercise=lambda pm: fcls(pm)())
    if not ok:
        return
    what = case["what"]
    ctx.label("forest=" + what, "forbidden=" + case["mode"])
    if what == "edge":
        n, links = mod.links("vertex")
        adm = links
        mk = lambda: trees.EdgeSpanningForest(m)
        excl = False
    elif what == "face":
        n, links = mod.links("face")
        forb = set(key(e) for e in (case["forbidden"] or []))
        adm = [(a, b, c) for a, b, c in links if c not in forb]
        forb_ids = id_set(case, None if case["forbidden"] is None else [eid[key(e)] for e in case["forbidden"]])
        mk = lambda: trees.FaceSpanningForest(m, forb_ids)
        excl = bool(forb & set(c for _, _, c in links))
    else:
        n, links = mod.links("cell")
        adm = links
        mk = lambda: trees.CellSpanningForest(m)
        excl = False
    label_common(ctx, n, links, adm, 0, excl)
    fset = forb_ids if what == "face" else None
    fsnap = None if fset is None else set(fset)
    first = validate_forest(ctx, "forest:" + what + ":", mk, n, adm, fset, fsnap)
    if first is None or not case.get("twice"):
        return
    # several forest objects alive at the same time: a second one on the same mesh object (same exclusion-set object), then one on
    # another small mesh; the first forest is inspected again after each of them was computed
    ctx.label("second-forest")
    tag = "forest:" + what + ":"
    tabs1 = [snapshot_tables(t) for t in first.trees]
    ids1 = [id(t) for t in first.trees]
    roots1 = list(first.roots)
    second = validate_forest(ctx, tag + "second:", mk, n, adm, fset, fsnap)

    def first_intact(when):
        ok = ctx.check([id(t) for t in first.trees] == ids1 and list(first.roots) == roots1, tag + "first-forest-replaced",
                       f"after {when}, the first forest's trees / roots are other objects than before ({len(first.trees)} trees, roots {list(first.roots)[:8]}; "
                       f"before {len(ids1)} trees, roots {roots1[:8]})")
        ok = ok and ctx.check([snapshot_tables(t) for t in first.trees] == tabs1, tag + "first-forest-changed",
                              f"{when} changed the trees of the first forest")
        if ok:
            validate_forest(ctx, tag + "reinspected:", mk, n, adm, fset, fsnap, forest=first)
        return ok
    if not first_intact("building a second forest on the same mesh"):
        return
    other_mesh = polyline_from(OTHER_V, OTHER_E)
    other_links = [(a, b, (a, b)) for a, b in OTHER_E]
    other = validate_forest(ctx, tag + "other:", lambda: trees.EdgeSpanningForest(other_mesh), len(OTHER_V), other_links, None, None)
    if not first_intact("computing a forest on another mesh"):
        return
    if second is not None:
        validate_forest(ctx, tag + "second:reinspected:", mk, n, adm, fset, fsnap, forest=second)
    if other is not None:
        validate_forest(ctx, tag + "other:reinspected:", None, len(OTHER_V), other_links, None, None, forest=other)


def validate_forest(ctx, tag, mk, n, adm, fset, fsnap, forest=None):
    """build + compute + validate one forest (or re-inspect the already computed `forest`); returns it (None when validation
    stopped early)"""
    if forest is None:
        ok, forest = ctx.call(tag + "construct", mk)
        if not ok:
            return
        ok, r = ctx.call(tag + "compute", forest)
        if not ok:
            return
        ctx.check(r is forest, tag + "call-returns-self", "forest() does not return the forest")
    if fset is not None:
        ctx.check(fset == fsnap, tag + "input-mutated",
                  f"the caller's forbidden_edges set was modified by the forest ({len(fsnap)} ids before, {len(fset)} after)")
    pairs = [(a, b) for a, b, _ in adm]
    comps = R.partition(n, pairs)
    tl, rl = forest.trees, forest.roots
    if not ctx.check(isinstance(tl, list) and isinstance(rl, list) and len(tl) == len(rl), tag + "shape",
                     f"trees ({len(tl) if hasattr(tl, '__len__') else '?'}) and roots ({len(rl) if hasattr(rl, '__len__') else '?'}) do not match"):
        return
    ok, nt = ctx.call(tag + "n_trees", lambda: forest.n_trees)
    if ok:
        ctx.check(nt == len(tl), tag + "n_trees", f"n_trees = {nt!r} but {len(tl)} trees are stored")
    if not ctx.check(len(tl) == len(comps), tag + "tree-count",
                     f"{len(tl)} trees for {len(comps)} connected components of the admissible graph ({n} elements); roots {list(rl)[:10]}"):
        return
    covered = Counter()
    all_edges = []
    parent_of = {}
    for i, (t, r0) in enumerate(zip(tl, rl)):
        ok, ti = ctx.call(tag + "getitem", lambda: forest[i])
        if ok:
            ctx.check(ti is t, tag + "getitem", f"forest[{i}] is not trees[{i}]")
        if not ctx.check(as_int(r0) is not None and 0 <= r0 < n, tag + "root", f"roots[{i}] = {r0!r}"):
            return
        reached = check_spanning_tree(ctx, tag + "tree:", t, n, adm, as_int(r0), bfs=True, orders=("BFS",))
        if reached is None:
            return
        for v in reached:
            covered[v] += 1
            parent_of[v] = t.parent[v]
        all_edges += [key(e) for e in t.edges]
    multi = [v for v in range(n) if covered[v] != 1]
    if not ctx.check(not multi, tag + "cover-once", f"elements {multi[:8]} are covered {[covered[v] for v in multi[:8]]} times by the trees (expected once each)"):
        return
    ok, fe = ctx.call(tag + "edges", lambda: forest.edges)
    if ok:
        good = isinstance(fe, list) and all(isinstance(e, (tuple, list)) and len(e) == 2 for e in fe)
        if ctx.check(good, tag + "edges:shape", f"forest.edges = {fe!r:.200}"):
            ctx.check(sorted(key(e) for e in fe) == sorted(all_edges), tag + "edges-union",
                      f"forest.edges ({len(fe)}) is not the union of the trees' edges ({len(all_edges)})")
            ctx.check(len(fe) == n - len(comps), tag + "edge-count", f"{len(fe)} forest edges for {n} elements in {len(comps)} components")
            # the returned list is the caller's: editing it must not change the forest
            before = list(fe)
            fe.append((-1, -1))
            if fe:
                fe.pop(0)
            ok, fe2 = ctx.call(tag + "edges", lambda: forest.edges)
            if ok:
                ctx.check(list(fe2) == before, tag + "edges-aliased", "editing the list returned by forest.edges changed what forest.edges returns next")
    for order in ("BFS", "DFS"):
        sig = tag + "traverse:" + order + ":"
        ok, seq = ctx.call(sig + "call", lambda: list(forest.traverse(order)))
        if not ok:
            continue
        if not ctx.check(all(isinstance(t, tuple) and len(t) == 2 for t in seq), sig + "shape", f"{seq[:5]!r}"):
            continue
        nodes = [t[0] for t in seq]
        if not ctx.check(sorted(nodes) == list(range(n)), sig + "once",
                         f"forest.traverse('{order}') yields {len(nodes)} items for {n} elements; counts != 1: "
                         f"{[(v, c) for v, c in Counter(nodes).items() if c != 1][:6]}, missing {sorted(set(range(n)) - set(nodes))[:6]}"):
            continue
        bad = [(v, p) for v, p in seq if p != parent_of[v]]
        ctx.check(not bad, sig + "parent", f"forest.traverse('{order}') reports (node, parent) {bad[:4]} that contradict the trees' parent tables")
        pos = {v: i for i, v in enumerate(nodes)}
        late = [(v, p) for v, p in seq if p is not None and pos[p] > pos[v]]
        ctx.check(not late, sig + "parents-first", f"forest.traverse('{order}') yields {late[:4]} before their parents")
    if n <= 20000:
        check_traverse_histories(ctx, tag, forest)
    return forest


OTHER_V = [[float(i), 0.0, 0.0] for i in range(7)]
OTHER_E = [(0, 1), (1, 2), (3, 4)]                      # components {0,1,2} {3,4} {5} {6}


def self_test():
    R.self_test_c10()
    # the model on a literal case: two triangles sharing edge (1,2) + an isolated triangle
    mc = {"kind": "surface", "V": [[0, 0, 0], [1, 0, 0], [0, 1, 0], [1, 1, 0], [5, 0, 0], [6, 0, 0], [5, 1, 0]],
          "F": [[0, 1, 2], [2, 1, 3], [4, 5, 6]]}
    mod = Model(mc)
    assert mod.links("face") == (3, [(0, 1, (1, 2))]) and len(mod.edge_keys) == 8 and (1, 2) not in mod.border_edges
    n, links, adm, avoid = admissible_edge_links(mod, [[0, 1]], True)
    assert [c for _, _, c in adm] == [(1, 2)]
    assert has_cycle(*mod.links("vertex")) and not has_cycle(*mod.links("face"))
    mv = Model({"kind": "volume", "V": T.two()[0], "C": T.two()[1]})
    assert mv.links("cell") == (2, [(0, 1, (0, 1, 2))]) and len(mv.border_edges) == 9


SUBCHECKS = [
    SubCheck("edge_tree", edge_tree_case(), fn_edge_tree, quick=1500, thorough=2500, watchdog=(90, 180)),   # deep paths take seconds
    # if the orientation loop of the MST ever runs on a cyclic edge set it grows its queue without bound (~1 GB/s): memory is bounded by
    # memory_cap (a MemoryError becomes a violation); the shorter watchdog only stops the slowly growing variants early
    SubCheck("edge_mst", mst_case(), fn_mst, quick=1200, thorough=2500, watchdog=(10, 30)),
    SubCheck("face_tree", face_tree_case(), fn_face_tree, quick=900, thorough=2000),
    SubCheck("cell_tree", cell_tree_case(), fn_cell_tree, quick=600, thorough=1500),
    SubCheck("forests", forest_case(), fn_forest, quick=900, thorough=2000, watchdog=(90, 180)),
    # size regime: open paths whose hop depth from the root crosses 2**15 (2**16); seconds per case, hence their own small budgets
    SubCheck("edge_tree_deep", deep_edge_tree_case(), fn_edge_tree, quick=16, thorough=40, watchdog=(120, 240)),
    SubCheck("forests_deep", deep_forest_case(), fn_forest, quick=8, thorough=16, watchdog=(120, 240)),
]

def kf_mst_dense_attribute(case, violation):
    """EdgeMinimalSpanningTree refuses a dense (ArrayAttribute) edge attribute as weights (only if the lead prefers a
    known finding over scratch/fixes/C10-1-mst-dense-attribute-weights.diff)"""
    return case.get("weights_mode") == "attr_dense" and violation.signature == "mst:construct:raises"


MATCHERS = {"kf_mst_dense_attribute": kf_mst_dense_attribute}
