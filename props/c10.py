"""C10 - spanning trees and forests span, are acyclic, and respect exclusions.

Every oracle is a validity predicate on the returned tables (parent / children / edges / traverse / trees / roots) against a
reference graph built from the raw case (vlib.topo + vlib.ref_graph); no particular tree is ever expected.
"""
import math, copy, contextlib, gc, random, collections, os, json, hashlib
import numpy as np
from collections import Counter
from hypothesis import strategies as st
from vlib.runner import SubCheck
from vlib import gen_surface as G
from vlib import gen_tets as T
from vlib import ref_graph as R
from vlib.topo import SurfRef, TetRef, key
from vlib.build import surface_from, volume_from, polyline_from

PROPERTY = "C10"
RULE = ("Meshes: generated polylines (paths, cycles, trees, random simple graphs, disjoint unions, isolated vertices), oriented "
        "manifold polygon surfaces (vlib.gen_surface incl. disjoint unions, optional isolated vertices) and conforming tet meshes "
        "(vlib.gen_tets incl. disjoint unions), neighbourhood sorting on/off. Configurations: root explicit (any element) or None "
        "(random, seeded per case); exclusion sets drawn as none / sparse random / dense random / a cut separating a hop-ball from "
        "the rest (avoid_edges and avoid_boundary for vertex trees, forbidden_edges for face trees, forbidden_faces for cell "
        "trees); MST weights one / length / dict / sparse Attribute (unset entries = default 0) / dense attribute, values with ties, "
        "zeros and negatives; traversal BFS and DFS; the three forests. non-trivial = the element adjacency graph has a cycle and "
        "(the exclusion set is non-empty or the graph has >=2 components); distinct = distinct realised case. "
        "Histories on the SAME mesh object: optional warm-up queries (boundary data, connectivity, a persistent edge_length "
        "attribute) before the tree; a second tree / forest built on the same mesh with another root and the SAME exclusion-set / "
        "weights object (arguments are snapshotted and must be unchanged, the first tree's tables must stay as they were); for the MST "
        "a pre-existing edge attribute named 'length' (fresh / set by the user / stale because vertices were moved afterwards), "
        "coordinates uniformly scaled by 1e-6..1e6, integer-typed coordinates, roots given as numpy integers. Iteration histories on one "
        "tree / forest: a traversal abandoned half-way (iterator kept alive, or dropped by `break`) followed by complete ones, BFS and DFS "
        "iterators advanced in lock-step, the first tree traversed again after a second tree exists. Several forest objects alive at once "
        "(a second one on the same mesh, another one on a different small mesh): the first is fully re-inspected afterwards. A few "
        "meshes above 1000 elements (size regime). Returned lists (forest.edges) are mutated and re-read; dict weights in both "
        "insertion orders. Library switches drawn per case: sort_neighborhoods, display_duplicate_attribute_warning, and "
        "complete_edges_from_faces / complete_faces_from_cells switched off with every edge (and cell face) declared explicitly. Index rows "
        "as lists or numpy rows of dtype int64/int32/int16/uint8; roots and excluded ids as python ints or (narrow) numpy integers; "
        "exclusion sets as set or frozenset; dict weights as float / int / np.float32 / np.float64 / np.uint8 values; sparse and dense "
        "weight attributes with a non-zero default and unwritten entries; MST geometry translated far from the origin (1e3..1e6 x size) and "
        "anisotropically scaled; an invalid traverse() call (bad order / uncomputed tree) that raises is followed by ordinary use. Face "
        "trees: pairs of faces sharing two edges with exactly one of them forbidden are generated on purpose. Sizes around powers of "
        "two: paths of 255..258 vertices, and (sparsely) open paths of 32766..32775 and 65534..65541 vertices rooted at an end (hop depth "
        "beyond int16 / uint16), stored compactly as {kind: path, n, stride}. Recycled objects: before the mesh of the case is built, "
        "1-3 predecessor meshes with the same element counts but another numbering are built, spanned by the same kind of tree, dropped "
        "and garbage collected (id()-keyed caches). The caller's exclusion set / weights object may be edited in place between the first "
        "and the second tree (the second tree must follow the edit). copy.copy / copy.deepcopy of a computed tree answer like the "
        "original. Polylines with shuffled vertex ids and edge order; sparse weight attributes written in decreasing index order. "
        "Spelling of the calls (drawn per case, labelled call= / flag= / run=): every documented constructor parameter by position in the "
        "documented order / every parameter incl. the mesh by keyword / parameters equal to their documented default left out (weights "
        "omitted = 'length', root omitted = random, no exclusion set) / the earlier mixed spelling; avoid_boundary as bool, numpy.bool_ or "
        "0 / 1; the tree or forest run as obj() or obj.compute(); traverse() with the order left out (= 'BFS'), by position and by keyword. "
        "Special ids: root (and second root) 0 and the LAST element each in ~10% of the cases; the exclusion set extended by the first "
        "(0) and / or the last edge / face id of the container (a set that is exactly {0} is labelled), empty-but-valid exclusion sets; "
        "meshes with 0 (edge forest on an empty polyline), 1 and 2 elements (labelled elements=). MST weights: additionally all-zero, "
        "integers around 2**40 and multiples of 2**-40 (exactly representable: only low bits tell the edges apart; integer-valued caller "
        "weights are compared with tolerance 0), dicts as OrderedDict / defaultdict / a user subclass of dict, dict keys as numpy "
        "integers, integer-typed (sparse / dense) weight attributes. Size regime (about two cases per sub-check and quick run, selected "
        "by a hash of the generated case, stored compactly): triangle strips with 65538 / 100002 faces (face trees and forests, vertex "
        "trees), Kuhn tet strips with 65538 cells (cell trees and forests), open paths of 100003 vertices; in edge_tree_deep one case in "
        "four is an MST over 65597 / 100005 edges (weights one / length / formula dict, avoid_boundary off); the first example of the deep "
        "sub-checks (identical in every shard) is a cheap 259-vertex path; "
        "polylines with more than 256 connected components. Warm-up additionally queries border flags, edge ids and dual adjacencies and "
        "stores barycenters. Histories computing the SAME tree / forest object twice (before or after its tables are read) are "
        "judged since finding F-C10-2 was fixed in /repo (constant RECOMPUTE_ORACLE).")
ASSUMPTIONS = ["meshes are what the data model represents (simple 1-skeleton, manifold surfaces, conforming tet meshes); "
               "exclusion sets contain valid edge / face indices; dict weights give a finite float for every edge",
               "a volume mesh's boundary edges are the edges of its boundary faces (VolumeMesh.is_edge_on_border)",
               "exclusion sets are sets (set / frozenset) as documented - lists, generators and other iterables are not generated; "
               "0 / 1 and numpy.bool_ are acceptable spellings of a documented bool flag; a dict subclass is a dict; numpy integer keys "
               "address the same dict entries as Python ints",
               "the compact huge strips are valid meshes (validated at a small size in self_test, not per case)"]

MAX_HOPS_BALL = 3
# Histories in which the SAME tree / forest object is computed twice (tree()() or compute() again after its tables were read).
# On the unchanged library every compute() appends to the tables of the previous run (children and edges doubled, a forest holds
# every tree twice), see scratch/fixes/C10-r6-recompute-appends.diff; the oracle stays off until that is repaired (or recorded as
# a known finding), because it would fire on about a third of all cases.  (C10_RECOMPUTE_ORACLE=1 ./check.py C10 quick switches it on.)
RECOMPUTE_ORACLE = os.environ.get("C10_RECOMPUTE_ORACLE", "1") == "1"     # finding F-C10-2, fixed in /repo (d082539): on by default


# ============================================================================================ generators

@st.composite
def polylines(draw):
    def one(n, kind):
        E = []
        if kind == "path":
            E = [(i, i + 1) for i in range(n - 1)]
        elif kind == "cycle" and n >= 3:
            E = [(i, (i + 1) % n) for i in range(n)]
        elif kind == "tree":
            E = [(draw(st.integers(0, i - 1)), i) for i in range(1, n)]
        elif kind == "grid":
            w = max(2, int(math.sqrt(n)))
            h = max(1, n // w)
            n = w * h
            E = [(j * w + i, j * w + i + 1) for j in range(h) for i in range(w - 1)] + [(j * w + i, (j + 1) * w + i) for j in range(h - 1) for i in range(w)]
        else:
            pairs = [(j, i) for i in range(n) for j in range(i)]
            if pairs:
                E = draw(st.lists(st.sampled_from(pairs), unique=True, max_size=min(len(pairs), 2 * n + 2)))
        return n, [tuple(e) for e in E]
    kinds = ["path", "cycle", "tree", "graph", "graph", "grid"]
    parts = draw(st.integers(1, 3))
    n_tot, E_tot, tags = 0, [], []
    for _ in range(parts):
        k = draw(st.sampled_from(kinds))
        n, E = one(draw(st.integers(1, 10)), k)
        E_tot += [(a + n_tot, b + n_tot) for a, b in E]
        n_tot += n
        tags.append("part=" + k)
    E_tot = [list(e) if draw(st.booleans()) else [e[1], e[0]] for e in E_tot]
    if draw(st.booleans()):
        # lattice coordinates: many equal lengths (ties for weights='length')
        V = [[float(i % 4), float((i // 4) % 3), float(i // 12)] for i in range(n_tot)]
        tags.append("coords=lattice")
    else:
        V = [[draw(st.floats(-3, 3)), draw(st.floats(-3, 3)), draw(st.floats(-3, 3))] for _ in range(n_tot)]
        V = [[float(round(x, 6)) for x in v] for v in V]
        tags.append("coords=float")
    if n_tot > 1 and draw(st.booleans()):
        # vertex ids scattered over the components, edges listed in another order (components interleaved)
        rnd = random.Random(draw(st.integers(0, 10 ** 6)))
        perm = list(range(n_tot)); rnd.shuffle(perm)
        V2 = [None] * n_tot
        for o, nw in enumerate(perm):
            V2[nw] = V[o]
        V = V2
        E_tot = [[perm[a], perm[b]] for a, b in E_tot]
        rnd.shuffle(E_tot)
        tags.append("ids-shuffled")
    return {"kind": "polyline", "V": V, "E": E_tot, "tags": tags}


@st.composite
def surface_meshes(draw, max_faces=40):
    s = draw(G.surfaces(max_faces=max_faces, keep_isolated=draw(st.integers(0, 5)) == 0))
    V, F, tags = s["V"], s["F"], s["tags"]
    if draw(st.integers(0, 3)) == 0:
        s2 = draw(G.surfaces(max_faces=max_faces // 2, allow_union=False, allow_sum=False, max_ops=3))
        V, F = G.disjoint_union(V, F, s2["V"], s2["F"])
        tags = [t for t in tags if t.startswith(("base=", "op="))] + ["union2"] + G.tags_of(V, F)
    return {"kind": "surface", "V": V, "F": [list(map(int, f)) for f in F], "tags": tags}


@st.composite
def volume_meshes(draw, max_cells=40):
    s = draw(T.tets(max_cells=max_cells))
    V, C, tags = s["V"], s["C"], s["tags"]
    if draw(st.integers(0, 3)) == 0:
        s2 = draw(T.tets(max_cells=max_cells // 2))
        n1 = len(V)
        V = [list(v) for v in V] + [[v[0] + 9.0, v[1], v[2]] for v in s2["V"]]
        C = [list(c) for c in C] + [[n1 + v for v in c] for c in s2["C"]]
        tags = [t for t in tags if t.startswith(("base=", "op="))] + ["union2"]
    return {"kind": "volume", "V": V, "C": [list(map(int, c)) for c in C], "tags": tags}


@st.composite
def big_meshes(draw):
    """size regime: a few meshes with more than 1000 vertices / faces / 380 cells (no internal threshold is known; this guards one)"""
    k = draw(st.sampled_from(["surface", "surface_tri", "polyline", "volume", "scatter"]))
    if k == "scatter":
        # several hundred connected components (isolated vertices and a few short chains): more than 2**8 trees in a forest
        n = draw(st.integers(300, 640))
        rnd = random.Random(draw(st.integers(0, 10 ** 6)))
        E = [[i, i + 1] for i in range(n - 1) if rnd.random() < 0.12]
        V = [[float(i % 25), float(i // 25), 0.0] for i in range(n)]
        return {"kind": "polyline", "V": V, "E": E, "tags": ["base=scatter", "big"]}
    if k in ("surface", "surface_tri", "polyline"):
        nu, nv = draw(st.integers(30, 36)), draw(st.integers(31, 34))
        V, F = G.grid(nu, nv)
        if k == "polyline":
            ref = SurfRef(len(V), F)
            return {"kind": "polyline", "V": V, "E": [list(e) for e in sorted(ref.uedges)], "tags": ["base=biggrid", "big"]}
        if k == "surface_tri":
            V, F = G.op_triangulate_all(V, F, draw(st.integers(0, 3)))
        # a hole in the middle so that exclusions / border avoidance matter
        hole = set(range(len(F) // 2, len(F) // 2 + draw(st.integers(0, 3))))
        F2 = [f for i, f in enumerate(F) if i not in hole]
        if SurfRef(len(V), F2).validate() is None:      # (removing faces that only touch at a vertex would pinch the surface)
            F = F2
        return {"kind": "surface", "V": V, "F": [list(map(int, f)) for f in F], "tags": ["base=biggrid", "big"] + G.tags_of(V, F)}
    V, C = T.kuhn(4, 4, 4)
    C = T.orient_all(V, C, True)
    return {"kind": "volume", "V": [[float(x) for x in v] for v in V], "C": [list(map(int, c)) for c in C], "tags": ["base=bigkuhn", "big"]}


def pick_mesh(small, kinds, pow2=False):
    """small meshes, and sparsely (1/80 each): 'big' ones (> 1000 elements) and, if pow2, paths of 255..258 vertices"""
    def choose(x):
        # Hypothesis favours the ends of an integer range and small values: the drawn integer is scrambled first, so that the
        # rare classes keep their stated frequencies
        i = ((x * 2654435761 + 40503) % (2 ** 32)) % 1200
        if 100 <= i < 115:
            return big_meshes().filter(lambda m: m["kind"] in kinds)
        if pow2 and 1000 <= i < 1015:
            return pow2_paths()
        return small
    return st.integers(0, 2 ** 32 - 1).flatmap(choose)


def any_mesh():
    small = st.one_of(polylines(), surface_meshes(), surface_meshes(), volume_meshes())
    return pick_mesh(small, ("polyline", "surface", "volume"), pow2=True)


def with_big(small, kinds):
    return pick_mesh(small, kinds)


COMPACT_KINDS = ("path", "tristrip", "kuhnstrip")


def is_compact(mc):
    return mc.get("kind") in COMPACT_KINDS


def compact_count(mc):
    """number of vertices of a compact mesh case"""
    k = mc["kind"]
    return int(mc["n"]) if k == "path" else 2 * int(mc["k"]) if k == "tristrip" else 4 * (int(mc["k"]) + 1)


HUGE_MESHES = {
    # size regime beyond 2**16 and 10**5 elements on the path the tree walks, stored compactly: a triangle strip of 2k-2 faces / 2k
    # vertices / 4k-3 edges, a Kuhn strip of 6k tets (10**5 cells would cost the harness's own reference tens of seconds)
    "edge_tree": [("tristrip", 32770), ("tristrip", 32770), ("tristrip", 32770), ("tristrip", 50002)],      # 65540 / 100004 vertices
    "edge_mst": [("tristrip", 16400), ("tristrip", 16400), ("tristrip", 25002)],       # 65597 / 100005 edges (Kruskal walks edges)
    "face": [("tristrip", 32770), ("tristrip", 32770), ("tristrip", 32770), ("tristrip", 50002)],           # 65538 / 100002 faces
    "cell": [("kuhnstrip", 10923)],                                                    # 65538 cells
}
HUGE_SLOT = 700
_HUGE_SEEN = set()


def case_hash(c):
    """a well-mixed hash of the whole case (a CRC is linear: cases that differ in one digit would get correlated values)"""
    return int.from_bytes(hashlib.blake2b(json.dumps(c, sort_keys=True, default=str).encode(), digest_size=8).digest(), "big")


def rnd_root(rnd, n):
    k = rnd.randrange(10)
    return None if k <= 1 else 0 if k == 2 else n - 1 if k == 3 else rnd.randrange(n)


def rnd_exclusion(rnd, n, links):
    """a small exclusion set on a huge mesh: none / empty / 1-3 random carriers / the boundary of a hop ball"""
    mode = rnd.choice(["none", "sparse", "cut"])
    if mode == "none":
        return mode, (None if rnd.randrange(3) else [])
    if mode == "sparse":
        return mode, [list(links[rnd.randrange(len(links))][2]) for _ in range(rnd.randint(1, 3))]
    seed = rnd.randrange(n)
    hops = R.bfs_hops(n, links, seed)
    r = rnd.randint(0, MAX_HOPS_BALL)
    ball = set(v for v in range(n) if hops[v] is not None and hops[v] <= r)
    return mode, [list(c) for c in sorted(set(c for a, b, c in links if (a in ball) != (b in ball)))]


def hugeify(c, sub, per_1200, force=False):
    """Turns about per_1200 / 1200 of the generated cases into size-regime cases: the mesh is replaced by a compact huge one and the
    fields that depend on the mesh (roots, exclusion set, weights) are redrawn from a generator seeded by a hash of the whole
    case.  Selecting by the hash (not by a drawn value) keeps the class at its stated frequency whatever values Hypothesis
    favours, and a case derived from a huge one by copying most of its draws is not huge again (no bursts of expensive cases)."""
    h = case_hash(c)
    if not force:
        if not HUGE_SLOT <= h % 1200 < HUGE_SLOT + per_1200 or h in _HUGE_SEEN:
            return c                      # (a case generated a second time in this process stays small: no expensive duplicates)
        _HUGE_SEEN.add(h)
    rnd = random.Random(h)
    what = c.get("what", sub)
    kind, k = rnd.choice(HUGE_MESHES[{"edge": "edge_tree"}.get(what, what)])
    mc = {"kind": kind, "k": k, "tags": ["base=" + kind, "huge"]}
    c = dict(c)
    c["mesh"] = mc
    c["recycle"], c["copies"] = 0, False
    mod = Model.of(mc)
    elements = {"edge_tree": "vertex", "edge_mst": "vertex", "face": "face", "cell": "cell"}[{"edge": "edge_tree"}.get(what, what)]
    n, links = mod.links(elements)
    if "root" in c:
        c["root"] = rnd_root(rnd, n)
        c["root2"] = rnd_root(rnd, n) if rnd.randrange(3) == 0 else None
    if "twice" in c:
        c["twice"] = False
    if sub == "edge_tree":
        c["avoid_mode"], c["avoid"] = rnd_exclusion(rnd, n, links)
    elif sub == "edge_mst":
        wm = rnd.choice(["one", "one", "length", "dict"])
        c["avoid_boundary"] = False          # (all 4k-3 edges of the strip are admissible: Kruskal walks more than 2**16 edges)
        c.update({"weights_mode": wm, "weights": None, "style": "-", "attr_default": None, "attr_type": "float", "scale": 1.0, "aniso": None,
                  "offset": 0.0, "int_coords": False, "length_attr": rnd.choice(["none", "none", "fresh"])})
        for f in ("V2", "length_vals", "wformula"):
            c.pop(f, None)
        if wm == "dict":
            # weights by formula (the case stays small): w(u, v) = (a*u + b*v) mod m, small integers with many ties and zeros
            c["wformula"] = [rnd.randint(1, 9), rnd.randint(1, 9), rnd.choice([2, 3, 7, 11])]
            c["style"] = "formula"
            c["val_type"] = rnd.choice(["float", "int", "float64", "uint8"])
            c["dict_kind"] = rnd.choice(["dict", "dict", "OrderedDict", "defaultdict", "subclass"])
            c["dict_keys_np"] = rnd.randrange(4) == 0
    elif "forbidden" in c and what in ("face", "cell") and (sub != "forests" or what == "face"):
        c["mode"], c["forbidden"] = rnd_exclusion(rnd, n, links)
    return c


def path_id(n, stride, pos):
    """vertex id of the pos-th vertex along a compact path mesh (stride coprime with n: ids are scattered along the path)"""
    return (pos * stride) % n


_EXPANDED = {}


def case_key(mc):
    return (mc["kind"], int(mc.get("n", 0)), int(mc.get("stride", 1)), int(mc.get("k", 0)), tuple(mc.get("tags", [])))


def expand_mesh(mc):
    """{"kind": "path", "n", "stride"} / {"kind": "tristrip", "k"} / {"kind": "kuhnstrip", "k"} -> the polyline / surface / volume it
    stands for (kept compact in the case because the element counts exceed 65536); the last expansion is kept"""
    if not is_compact(mc):
        return mc
    ck = case_key(mc)
    if ck in _EXPANDED:
        return _EXPANDED[ck]
    tags = list(mc.get("tags", []))
    if mc["kind"] == "path":
        n, s = int(mc["n"]), int(mc.get("stride", 1))
        assert math.gcd(n, s) == 1
        V = [None] * n
        for pos in range(n):
            V[path_id(n, s, pos)] = [0.5 * pos, float(pos % 3), 0.0]
        E = [[path_id(n, s, pos), path_id(n, s, pos + 1)] for pos in range(n - 1)]
        out = {"kind": "polyline", "V": V, "E": E, "tags": tags}
    elif mc["kind"] == "tristrip":
        k = int(mc["k"])
        V = [[float(i // 2), float(i % 2), 0.0] for i in range(2 * k)]
        F = []
        for i in range(k - 1):
            a, b, c, d = 2 * i, 2 * i + 1, 2 * i + 2, 2 * i + 3
            F += [[a, c, b], [b, c, d]]
        out = {"kind": "surface", "V": V, "F": F, "tags": tags, "trusted": True}
    else:
        V, C = T.kuhn(1, 1, int(mc["k"]))
        C = T.orient_all(V, C, True)
        out = {"kind": "volume", "V": [[float(x) for x in v] for v in V], "C": [list(map(int, c)) for c in C], "tags": tags, "trusted": True}
    _EXPANDED.clear()
    _EXPANDED[ck] = out
    return out


@st.composite
def pow2_paths(draw):
    """open paths with 255..258 vertices (element counts around 2**8), expanded at once: they are small"""
    n = draw(st.sampled_from([255, 256, 257, 258]))
    stride = draw(st.sampled_from([1, 7, 101]))
    return expand_mesh({"kind": "path", "n": n, "stride": stride, "tags": ["base=path%d" % n, "pow2-size"]})


@st.composite
def deep_paths(draw):
    """open paths whose hop depth from an end point crosses 2**15 or 2**16"""
    # (the first entry is what Hypothesis generates first in EVERY shard of a run - the simplest example -, so it is a cheap one:
    # a size-regime case evaluated once per shard would be the same expensive case eight times over)
    n = draw(st.sampled_from([259, 32768, 32769, 32770, 32771, 32775, 33001, 32768, 32769, 32770, 32767, 32766, 65537, 100003]))
    stride = draw(st.sampled_from([1, 1, 7, 10007]))
    while math.gcd(n, stride) != 1:
        stride += 1
    return {"kind": "path", "n": n, "stride": stride, "tags": ["base=deep-path", "deep>=" + ("2^8" if n < 1000 else "2^15" if n < 60000 else "2^16" if n < 100000 else "1e5")]}


class Model:
    """Reference adjacency of a realised mesh case, from the raw lists only."""

    _last = {}

    @classmethod
    def of(cls, mesh_case):
        """the model of a mesh case; the model of the last compact (huge) case is kept (it is built once by the strategy and once
        by the sub-check, and costs seconds)"""
        if not is_compact(mesh_case):
            return cls(mesh_case)
        ck = case_key(mesh_case)
        if ck not in cls._last:
            cls._last.clear()
            cls._last[ck] = cls(mesh_case)
        return copy.copy(cls._last[ck])          # shallow: callers may rebind .V, never edit the tables

    def __init__(self, mesh_case):
        mesh_case = expand_mesh(mesh_case)
        trusted = bool(mesh_case.get("trusted"))  # compact strips: validated once at a small size in self_test()
        self.kind = mesh_case["kind"]
        self.V = mesh_case["V"]
        self.nV = len(self.V)
        self.face_links = []        # (f1, f2, edge key)
        self.cell_links = []        # (c1, c2, face key)
        self.nF = self.nC = 0
        self.border_edges = set()
        self.face_keys = set()
        if self.kind == "polyline":
            self.edge_keys = sorted(set(key(e) for e in mesh_case["E"]))
        elif self.kind == "surface":
            ref = SurfRef(self.nV, mesh_case["F"])
            err = None if trusted else ref.validate()
            if err is not None:
                raise AssertionError("invalid generated surface: " + err)
            self.edge_keys = sorted(ref.uedges)
            self.border_edges = ref.border_edges()
            self.nF = len(ref.F)
            for (a, b) in self.edge_keys:
                f1, f2 = ref.direct_face(a, b), ref.direct_face(b, a)
                if f1 is not None and f2 is not None and f1 != f2:
                    self.face_links.append((f1, f2, (a, b)))
        elif trusted:
            # huge tet strips: the same tables as below, computed in one pass over the sorted cells (TetRef also builds incidence
            # tables this module never uses; the fast route is compared with it at a small size in self_test)
            self.nC = len(mesh_case["C"])
            ek, f2c = set(), {}
            for ci, cell in enumerate(mesh_case["C"]):
                a, b, c, d = sorted(cell)
                ek.update(((a, b), (a, c), (a, d), (b, c), (b, d), (c, d)))
                for fk in ((a, b, c), (a, b, d), (a, c, d), (b, c, d)):
                    f2c.setdefault(fk, []).append(ci)
            self.edge_keys = sorted(ek)
            self.face_keys = set(f2c)
            for fk in sorted(f2c):
                cs = f2c[fk]
                if len(cs) == 2:
                    self.cell_links.append((cs[0], cs[1], fk))
                else:
                    a, b, c = fk
                    self.border_edges.update(((a, b), (a, c), (b, c)))
        else:
            ref = TetRef(self.nV, mesh_case["C"])
            err = None if trusted else ref.validate()
            if err is not None:
                raise AssertionError("invalid generated tet mesh: " + err)
            self.edge_keys = sorted(ref.ekeys)
            self.border_edges = ref.border_edges()
            self.nC = len(ref.C)
            self.face_keys = set(ref.fkeys)
            for fk in sorted(ref.fkeys):
                cs = ref.f2c[fk]
                if len(cs) == 2:
                    self.cell_links.append((cs[0], cs[1], fk))

    def links(self, what):
        """(n, [(a, b, carrier key)]) for the element graph 'vertex' | 'face' | 'cell'"""
        if what == "vertex":
            return self.nV, [(a, b, (a, b)) for (a, b) in self.edge_keys]
        if what == "face":
            return self.nF, list(self.face_links)
        return self.nC, list(self.cell_links)

    def length(self, e):
        a, b = e
        return math.sqrt(sum((float(x) - float(y)) ** 2 for x, y in zip(self.V[a], self.V[b])))


def draw_exclusion(draw, n, links, huge=False):
    """returns (mode, list of carrier keys). links: (a, b, carrier); huge: only small exclusion sets (the case stays small)"""
    carriers = sorted(set(c for _, _, c in links))
    if not carriers:
        return "none", None if draw(st.booleans()) else []
    mode = draw(st.sampled_from(["none", "sparse", "cut"] if huge else ["none", "none", "sparse", "dense", "cut", "cut", "all"]))
    if mode == "none":
        return mode, (None if draw(st.integers(0, 2)) else [])          # [] = an empty (falsy) but valid exclusion set
    if mode == "all":
        return mode, [list(c) for c in carriers]
    if mode in ("sparse", "dense"):
        k = draw(st.integers(1, 3 if huge else max(1, len(carriers) // 6))) if mode == "sparse" else draw(st.integers(len(carriers) // 3, len(carriers)))
        idx = draw(st.lists(st.integers(0, len(carriers) - 1), min_size=k, max_size=k, unique=True)) if k <= len(carriers) else list(range(len(carriers)))
        return mode, [list(carriers[i]) for i in sorted(idx)]
    # cut: a hop ball around a seed element against the rest (maybe leaving a few crossing links to keep it connected)
    seed = draw(st.integers(0, n - 1))
    hops = R.bfs_hops(n, links, seed)
    r = draw(st.integers(0, MAX_HOPS_BALL))
    ball = set(v for v in range(n) if hops[v] is not None and hops[v] <= r)
    crossing = sorted(set(c for a, b, c in links if (a in ball) != (b in ball)))
    leave = draw(st.integers(0, 2)) if draw(st.booleans()) else 0
    if leave and crossing:
        keep = set(draw(st.lists(st.integers(0, len(crossing) - 1), max_size=leave)))
        crossing = [c for i, c in enumerate(crossing) if i not in keep]
    return mode, [list(c) for c in crossing]


def draw_root(draw, n):
    """None (random root) 1/5; element 0 and the LAST element 1/10 each (special ids); otherwise any element"""
    k = draw(st.integers(0, 9))
    if k <= 1:
        return None
    if k == 2:
        return 0
    if k == 3:
        return n - 1
    return draw(st.integers(0, n - 1))


def draw_history(draw, n):
    """fields shared by the tree sub-checks: a second tree on the same mesh object, numpy-typed roots, warm-up queries"""
    k = draw(st.integers(0, 8))
    r2 = None if k <= 2 else 0 if k == 3 else n - 1 if k == 4 else draw(st.integers(0, n - 1))
    h = {"root2": r2, "root_np": draw(st.integers(0, 3)) == 0, "warm": draw(st.integers(0, 2)) == 0}
    h.update(draw_forms(draw))
    return h


CALL_STYLES = ["legacy", "positional", "keyword", "minimal"]


def draw_forms(draw):
    """argument / container forms, spelling of the calls, call histories on one object and library-wide switches"""
    return {"idx": draw(st.sampled_from(["list", "list", "int64", "int32", "int16", "uint8"])),
            "np_int": draw(st.sampled_from(["int64", "int64", "int32", "uint8", "uint16"])),
            "ids_np": draw(st.integers(0, 3)) == 0, "frozen": draw(st.integers(0, 3)) == 0,
            "explicit": draw(st.integers(0, 4)) == 0, "dup_warn": draw(st.booleans()), "bad_call": draw(st.integers(0, 2)) == 0,
            "recycle": draw(st.sampled_from([0, 0, 0, 0, 2, 3])), "recycle_seed": draw(st.integers(0, 1000)),
            "mutate_arg": draw(st.integers(0, 2)) == 0, "mutate_pick": draw(st.integers(0, 10 ** 6)),
            "copies": draw(st.integers(0, 3)) == 0,
            # how the caller spells the constructor call / the boolean flag / the run, which special ids join the exclusion set,
            # whether the same tree / forest object is computed again
            "call": draw(st.sampled_from(CALL_STYLES)), "flag": draw(st.sampled_from(["bool", "bool", "np_bool", "int"])),
            "run": draw(st.sampled_from(["call", "call", "compute"])),
            "excl_extra": draw(st.sampled_from([None, None, None, None, "first", "first", "last", "first+last"])),
            "recompute": draw(st.sampled_from(["no", "no", "no", "before-read", "after-read"]))}


def scaled(V, s):
    return [[float(x) * s for x in v] for v in V]


@st.composite
def edge_tree_case(draw):
    mc = draw(any_mesh())
    mod = Model.of(mc)
    n, links = mod.links("vertex")
    mode, avoid = draw_exclusion(draw, n, links)
    ab = draw(st.booleans())
    if mod.kind == "surface" and draw(st.integers(0, 3)) == 0:
        mode, avoid, ab = "none", None, True           # border avoidance alone (no avoid_edges argument) on a surface
    c = {"mesh": mc, "root": draw_root(draw, n), "avoid_boundary": ab,
         "avoid": avoid, "avoid_mode": mode, "sort": draw(st.booleans())}
    c.update(draw_history(draw, n))
    c["avoid_boundary2"] = draw(st.booleans())
    return hugeify(c, "edge_tree", 2)


@st.composite
def deep_edge_tree_case(draw):
    """breadth-first tree on a very long open path rooted at (or near) an end: hop depths beyond 2**15 - 1 (2**16 - 1)"""
    mc = draw(deep_paths())
    n, s = mc["n"], mc["stride"]
    end = draw(st.sampled_from([0, 0, n - 1, 3]))
    c = {"mesh": mc, "root": path_id(n, s, end), "avoid_boundary": draw(st.booleans()), "avoid": None, "avoid_mode": "none",
         "sort": draw(st.booleans())}
    if draw(st.integers(0, 3)) == 0:
        # one avoided edge at the far end: the tree stops there
        pos = n - 2 - draw(st.integers(0, 2)) if end != n - 1 else draw(st.integers(0, 2))
        c["avoid"] = [sorted([path_id(n, s, pos), path_id(n, s, pos + 1)])]
        c["avoid_mode"] = "sparse"
    c.update(draw_forms(draw))
    c.update({"root2": path_id(n, s, draw(st.sampled_from([n - 1, n // 2, 0]))) if draw(st.integers(0, 2)) == 0 else None, "root_np": draw(st.booleans()),
              "warm": False, "recycle": 0, "copies": False, "avoid_boundary2": draw(st.booleans()), "np_int": "int64"})
    return c


def deep_vertex_tree_case():
    """size regime of the vertex trees: a breadth-first tree on a very long path, or (one in four) a minimal spanning tree on a huge
    triangle strip.  Selector 0 comes first: the simplest example, generated first in every shard, is the cheap short path."""
    return st.sampled_from([0, 0, 0, 1]).flatmap(lambda k: deep_edge_tree_case() if k == 0 else mst_case().map(lambda c: hugeify(c, "edge_mst", 0, force=True)))


def fn_deep_vertex_tree(case, ctx):
    return fn_mst(case, ctx) if "weights_mode" in case else fn_edge_tree(case, ctx)


WEIGHT_MODES = ["one", "length", "length", "dict", "dict", "attr", "attr", "attr_dense"]


WEIGHT_STYLES = ["smallint", "smallint", "float", "equal", "signed", "zeroes", "zeroes", "allzero", "huge", "tiny"]


def weight_values(style):
    """huge / tiny: integers around 2**40 and multiples of 2**-40 (exact floats): only the low bits tell the edges apart"""
    return {"smallint": st.integers(0, 3).map(float), "float": st.floats(0, 10).map(lambda x: float(round(x, 5))),
            "equal": st.just(2.5), "signed": st.integers(-3, 3).map(float),
            "zeroes": st.sampled_from([0.0, 0.0, 1.0]), "allzero": st.just(0.0),
            "huge": st.integers(0, 3).map(lambda k: float(2 ** 40 + k)), "tiny": st.integers(0, 3).map(lambda k: k * 2.0 ** -40)}[style]


@st.composite
def mst_case(draw):
    mc = draw(any_mesh())
    mod = Model.of(mc)
    n = mod.nV
    wm = draw(st.sampled_from(WEIGHT_MODES))
    weights = None
    style = "-"
    c = {}
    if wm in ("dict", "attr", "attr_dense"):
        style = draw(st.sampled_from(WEIGHT_STYLES))
        vals = weight_values(style)
        weights = []
        for e in mod.edge_keys:
            if wm in ("attr", "attr_dense") and draw(st.integers(0, 3)) == 0:
                continue                                    # left unwritten: the attribute reads its own default value there
            weights.append([e[0], e[1], draw(vals)])
    c.update({"mesh": mc, "root": draw_root(draw, n), "avoid_boundary": draw(st.integers(0, 2)) == 0,
              "weights_mode": wm, "weights": weights, "style": style, "sort": draw(st.booleans())})
    # default value of the weight attribute (None = the type's default 0.0); unwritten edges weigh this much
    c["attr_default"] = draw(st.sampled_from([None, None, 0.0, 1.5, 2.0, 7.0, -1.0, 100.0])) if wm in ("attr", "attr_dense") else None
    c["val_type"] = draw(st.sampled_from(["float", "float", "int", "float32", "float64", "uint8"])) if wm == "dict" else "float"
    # the dict as an OrderedDict / defaultdict / user subclass of dict; keyed by numpy integers (they hash like ints)
    c["dict_kind"] = draw(st.sampled_from(["dict", "dict", "dict", "OrderedDict", "defaultdict", "subclass"])) if wm == "dict" else "dict"
    c["dict_keys_np"] = wm == "dict" and draw(st.integers(0, 3)) == 0
    # an integer-typed weight attribute when every weight (and the default) is an integer
    ints = wm in ("attr", "attr_dense") and all(float(x) == int(x) for _, _, x in weights) and (c["attr_default"] is None or float(c["attr_default"]) == int(c["attr_default"]))
    c["attr_type"] = "int" if ints and draw(st.integers(0, 2)) == 0 else "float"
    c.update(draw_history(draw, n))
    c["mode2"] = draw(st.sampled_from(["same", "same", "one", "length"]))
    c["dict_rev"] = draw(st.booleans())
    # uniform scaling of the geometry (lengths are scale covariant, the tree must not depend on the unit)
    sc = draw(st.sampled_from([1.0, 1.0, 1.0, 1e-3, 1e-6, 1e3, 1e6]))
    if sc != 1.0:
        mc["V"] = scaled(mc["V"], sc)
    c["scale"] = sc
    # anisotropic scaling and a translation far from the origin (relative to the size of the mesh, ~1..10 x sc)
    an = draw(st.sampled_from([None, None, None, [1.0, 3.0, 0.25], [10.0, 1.0, 1.0], [0.01, 1.0, 100.0]]))
    if an is not None:
        mc["V"] = [[float(x) * a for x, a in zip(v, an)] for v in mc["V"]]
    c["aniso"] = an
    off = draw(st.sampled_from([0.0, 0.0, 0.0, 1e3, 1e5, 1e6]))
    if off:
        d = draw(st.sampled_from([[1.0, 1.0, 1.0], [1.0, -0.5, 0.25], [0.0, 0.0, -1.0]]))
        mc["V"] = [[float(x) + off * sc * t for x, t in zip(v, d)] for v in mc["V"]]
    c["offset"] = off
    c["int_coords"] = draw(st.integers(0, 2)) == 0 and all(float(x) == int(x) and abs(x) < 2 ** 40 for v in mc["V"] for x in v)
    # an edge attribute called "length" already stored on the mesh before the tree is built
    la = draw(st.sampled_from(["none", "none", "fresh", "user", "stale", "stale"]))
    c["length_attr"] = la
    if la == "user":
        c["length_vals"] = [[e[0], e[1], float(draw(st.integers(0, 40))) / 4.0 * sc] for e in mod.edge_keys]
    if la == "stale":
        rnd = np.random.RandomState(draw(st.integers(0, 10 ** 6)))
        amp = draw(st.sampled_from([0.3, 1.0, 3.0])) * sc
        c["V2"] = (np.array(mc["V"], dtype=float).reshape(-1, 3) + rnd.uniform(-amp, amp, (len(mc["V"]), 3))).tolist()
    return c                 # (size regime: part of the edge_tree_deep sub-check, which has a long watchdog)


@st.composite
def face_tree_case(draw):
    mc = draw(with_big(surface_meshes(), ("surface",)))
    mod = Model.of(mc)
    n, links = mod.links("face")
    mode, forb = draw_exclusion(draw, n, links)
    if forb is not None and draw(st.booleans()):
        # forbidding border edges changes nothing: there is no face on the other side
        be = sorted(mod.border_edges)
        forb = forb + [list(e) for e in be[:draw(st.integers(0, 3))]]
    dbl = double_adjacencies(links)
    if dbl and draw(st.booleans()):
        # two faces sharing two (or more) edges: forbid all but one of the shared edges, the faces stay adjacent
        pair = sorted(dbl)[draw(st.integers(0, len(dbl) - 1))]
        shared = dbl[pair]
        keep = draw(st.integers(0, len(shared) - 1))
        forb = [e for e in (forb or []) if tuple(e) not in set(shared)] + [list(e) for i, e in enumerate(shared) if i != keep]
        mode = mode + "+double"
    c = {"mesh": mc, "root": draw_root(draw, n), "forbidden": forb, "mode": mode, "sort": draw(st.booleans())}
    c.update(draw_history(draw, n))
    return hugeify(c, "face", 3)


def double_adjacencies(links):
    """{(f1, f2): [carrier keys]} for element pairs joined by more than one link"""
    by = {}
    for a, b, c in links:
        by.setdefault(key(a, b), []).append(c)
    return {k: sorted(v) for k, v in by.items() if len(v) > 1}


@st.composite
def cell_tree_case(draw):
    mc = draw(with_big(volume_meshes(), ("volume",)))
    mod = Model.of(mc)
    n, links = mod.links("cell")
    mode, forb = draw_exclusion(draw, n, links)
    if forb is not None and draw(st.booleans()):
        bf = sorted(mod.face_keys - set(c for _, _, c in links))
        forb = forb + [list(f) for f in bf[:draw(st.integers(0, 3))]]
    c = {"mesh": mc, "root": draw_root(draw, n), "forbidden": forb, "mode": mode, "sort": draw(st.booleans())}
    c.update(draw_history(draw, n))
    return hugeify(c, "cell", 3)


EMPTY_POLYLINE = {"kind": "polyline", "V": [], "E": [], "tags": ["base=empty-mesh"]}


@st.composite
def forest_case(draw):
    what = draw(st.sampled_from(["edge", "edge", "face", "face", "cell"]))
    if what == "edge":
        # (huge vertex graphs: the forests_deep sub-check); sparsely a mesh without any element
        mc = copy.deepcopy(EMPTY_POLYLINE) if draw(st.integers(0, 39)) == 0 else draw(any_mesh())
        c = {"what": what, "mesh": mc, "forbidden": None, "mode": "none", "sort": draw(st.booleans()),
             "twice": draw(st.booleans()), "warm": draw(st.integers(0, 2)) == 0}
        c.update(draw_forms(draw))
        return c
    if what == "face":
        mc = draw(surface_meshes())
        mod = Model.of(mc)
        n, links = mod.links("face")
        mode, forb = draw_exclusion(draw, n, links)
        c = {"what": what, "mesh": mc, "forbidden": forb, "mode": mode, "sort": draw(st.booleans()),
             "twice": draw(st.booleans()), "warm": draw(st.integers(0, 2)) == 0}
        c.update(draw_forms(draw))
        return hugeify(c, "forests", 4)
    mc = draw(volume_meshes())
    c = {"what": what, "mesh": mc, "forbidden": None, "mode": "none", "sort": draw(st.booleans()),
         "twice": draw(st.booleans()), "warm": draw(st.integers(0, 2)) == 0}
    c.update(draw_forms(draw))
    return hugeify(c, "forests", 4)


@st.composite
def deep_forest_case(draw):
    c = {"what": "edge", "mesh": draw(deep_paths()), "forbidden": None, "mode": "none", "sort": draw(st.booleans()), "twice": False, "warm": False}
    c.update(draw_forms(draw))
    c["recycle"] = 0
    return c


# ============================================================================================ building

def variant_mesh(mc, seed):
    """another mesh with exactly the same element counts as mc but a different numbering (vertex ids, element order)"""
    if mc["kind"] == "surface":
        V, F, _ = G.relabel(mc["V"], mc["F"], seed)
        return {"kind": "surface", "V": V, "F": [list(map(int, f)) for f in F]}
    if mc["kind"] == "volume":
        V, C = T.relabel(mc["V"], mc["C"], seed, "mixed")
        return {"kind": "volume", "V": V, "C": [list(map(int, c)) for c in C]}
    rnd = random.Random(seed)
    n = len(mc["V"])
    perm = list(range(n)); rnd.shuffle(perm)
    V = [None] * n
    for o, nw in enumerate(perm):
        V[nw] = mc["V"][o]
    E = [[perm[a], perm[b]] for a, b in mc["E"]]
    rnd.shuffle(E)
    return {"kind": "polyline", "V": V, "E": E}


def construct_mesh(case, mc, mod, ctx=None):
    """the mouette mesh of the (expanded) mesh case mc, in the container forms asked by the case"""
    cls, raw = prepare_mesh(case, mc, mod, ctx)
    return cls(raw)


def release_mesh(pm):
    """drop a mesh for good: break its mesh <-> connectivity reference cycles so that it is freed at once (as a later garbage
    collection would do), which makes its address available to the next mesh object"""
    for a in ("connectivity", "boundary_connectivity"):
        if hasattr(pm, a):
            try:
                setattr(pm, a, None)
            except Exception:
                pass


def prepare_mesh(case, mc, mod, ctx=None):
    """(mesh class, filled RawMeshData) for the (expanded) mesh case mc"""
    import mouette as M
    from mouette.mesh.mesh_data import RawMeshData
    lab = (lambda *a: ctx.label(*a)) if ctx is not None else (lambda *a: None)
    # index rows: python lists or numpy rows of a (narrow) integer dtype that can hold every vertex id
    idx = case.get("idx", "list")
    if idx != "list" and len(mc["V"]) > {"int64": 2 ** 62, "int32": 2 ** 31 - 1, "int16": 2 ** 15 - 1, "uint8": 255}[idx]:
        idx = "list"
    lab("index-rows=" + idx)
    row = (lambda r: list(int(x) for x in r)) if idx == "list" else (lambda r: np.array(r, dtype=idx))
    raw = RawMeshData()
    if case.get("int_coords"):
        raw.vertices += [[int(x) for x in v] for v in mc["V"]]       # integer-typed coordinates (int64 vectors)
        lab("coords=int-typed")
    else:
        raw.vertices += [list(map(float, v)) for v in mc["V"]]
    explicit = bool(case.get("explicit")) and mc["kind"] != "polyline"
    if explicit:
        # edges (and the faces of cells) are declared by the caller instead of being completed by the library
        M.config.complete_edges_from_faces = False
        M.config.complete_faces_from_cells = False
        lab("explicit-edges-faces")
        raw.edges += [tuple(int(x) for x in e) if idx == "list" else row(e) for e in mod.edge_keys]
    if mc["kind"] == "polyline":
        raw.edges += [tuple(int(x) for x in e) if idx == "list" else row(e) for e in mc["E"]]
        return M.mesh.PolyLine, raw
    if mc["kind"] == "surface":
        raw.faces += [row(f) for f in mc["F"]]
        return M.mesh.SurfaceMesh, raw
    if explicit:
        raw.faces += [row(f) for f in sorted(mod.face_keys)]
    raw.cells += [row(c) for c in mc["C"]]
    return M.mesh.VolumeMesh, raw


def build(case, ctx, exercise=None):
    """fresh mouette mesh + reference model + index maps (edge key -> edge id, face key -> face id).
    exercise(mesh): what the sub-check does with a mesh; run on short-lived predecessor meshes when the case asks for recycling."""
    import mouette as M
    M.config.sort_neighborhoods = bool(case.get("sort", True))
    mc = expand_mesh(case["mesh"])
    mod = Model.of(case["mesh"])
    M.config.display_duplicate_attribute_warning = bool(case.get("dup_warn", False))
    ctx.label("dup_warn=" + str(bool(case.get("dup_warn", False))))
    rounds = int(case.get("recycle", 0)) if (exercise is not None and len(mc["V"]) <= 3000) else 0
    if rounds:
        # object recycling: meshes of the same size (other numbering) are built, spanned and dropped one after the other; each is
        # released immediately before the next mesh object is created, so that the next one (finally the mesh of this case) is
        # likely to be allocated at the address where its predecessor lived
        ctx.label("recycled-mesh-objects")
        pm = None
        reused = False
        for r in range(rounds):
            vmc = variant_mesh(mc, int(case.get("recycle_seed", 0)) * 7 + r)
            needs_model = bool(case.get("explicit")) and vmc["kind"] != "polyline"      # only explicit edge / face lists need it
            cls, raw = prepare_mesh(case, vmc, Model(vmc) if needs_model else None)
            if pm is not None:
                release_mesh(pm)
                pm = None
            pm = cls(raw)
            try:
                exercise(pm)
            except Exception:
                pass                                   # the predecessors are history only; the mesh of the case is what is judged
        cls, raw = prepare_mesh(case, mc, mod, ctx)
        old = id(pm)
        release_mesh(pm)
        pm = None
        m = cls(raw)
        ctx.label("mesh-address-reused" if id(m) == old else "mesh-address-fresh")
    else:
        m = construct_mesh(case, mc, mod, ctx)
    if case.get("warm"):
        # the mesh object has been used before: connectivity and boundary caches exist, a persistent edge length is stored
        ctx.label("warm-mesh")
        if len(m.vertices):
            m.connectivity.vertex_to_vertices(0)
        if mc["kind"] != "polyline":
            _ = m.boundary_edges, m.boundary_vertices, m.interior_edges
            if len(m.faces):
                m.connectivity.face_to_edges(0)
        if mc["kind"] == "volume":
            _ = m.boundary_faces
            m.connectivity.cell_to_face(0)
        if case.get("length_attr", "none") == "none":
            M.attributes.edge_length(m)
        if len(m.edges) and case.get("call") is not None:
            # (cases of the current format only) per-element queries other callers make: border flags of one edge and its end
            # points, the edge index, dual adjacencies; barycenters stored on the mesh
            a, b = (int(x) for x in m.edges[len(m.edges) - 1])
            try:
                m.connectivity.edge_id(a, b)
                m.connectivity.vertex_to_edges(a)
                if mc["kind"] != "polyline":
                    m.is_edge_on_border(a, b), m.is_vertex_on_border(a), m.is_vertex_on_border(b)
                    if len(m.faces):
                        m.connectivity.face_to_faces(0)
                        M.attributes.face_barycenter(m)
                if mc["kind"] == "volume":
                    M.attributes.cell_barycenter(m)
            except Exception:
                pass                                   # history only: these queries are other properties' business
    for t in mc.get("tags", []):
        if t.startswith(("base=", "comps=", "closed", "bordered", "union", "part=", "coords=", "big", "huge", "deep>=")):
            ctx.label(t)
    ctx.label("mesh=" + mc["kind"])
    medges = [(int(a), int(b)) if a < b else (int(b), int(a)) for a, b in m.edges]
    eid = {e: i for i, e in enumerate(medges)}
    ok = ctx.check(len(eid) == len(medges) and set(medges) == set(mod.edge_keys), "mesh:edges",
                   f"the mesh's edge container {medges[:12]}... is not the reference edge set ({len(mod.edge_keys)} edges)")
    fid = None
    if mc["kind"] == "volume":
        mfaces = [key(f) for f in m.faces]
        fid = {f: i for i, f in enumerate(mfaces)}
        ok = ctx.check(len(fid) == len(mfaces) and set(mfaces) == mod.face_keys, "mesh:faces",
                       f"the volume's face container has {len(mfaces)} faces, reference {len(mod.face_keys)}") and ok
    return m, mod, eid, fid, ok


def has_cycle(n, links):
    pairs = [(a, b) for a, b, _ in links]
    return len(pairs) > n - len(R.partition(n, pairs))


def plain_int(x):
    return isinstance(x, (int,)) and not isinstance(x, bool)


def as_int(x):
    try:
        if isinstance(x, bool):
            return None
        i = int(x)
        return i if i == x else None
    except Exception:
        return None


# ============================================================================================ oracles

def read_tables(ctx, tag, tree, n):
    """validate shapes of parent / children / edges; returns (parent, children, edges) as plain python or None"""
    par, chi, edg = tree.parent, tree.children, tree.edges
    if not ctx.check(isinstance(par, (list, tuple)) and len(par) == n, tag + "parent:shape",
                     f"parent is {type(par).__name__} of length {len(par) if hasattr(par, '__len__') else '?'}, expected one entry per element ({n})"):
        return None
    parent = []
    for v, p in enumerate(par):
        if p is None:
            parent.append(None)
            continue
        pi = as_int(p)
        if not ctx.check(pi is not None and 0 <= pi < n and pi != v, tag + "parent:value", f"parent[{v}] = {p!r} is not another element index in [0,{n})"):
            return None
        parent.append(pi)
    if not ctx.check(isinstance(chi, (list, tuple)) and len(chi) == n and all(isinstance(c, (list, tuple)) for c in chi), tag + "children:shape",
                     f"children is not a list of {n} lists"):
        return None
    children = []
    for v, cl in enumerate(chi):
        row = [as_int(c) for c in cl]
        if not ctx.check(all(c is not None and 0 <= c < n for c in row), tag + "children:value", f"children[{v}] = {list(cl)!r} has entries outside [0,{n})"):
            return None
        children.append(row)
    if not ctx.check(isinstance(edg, (list, tuple)), tag + "edges:shape", f"edges is {type(edg).__name__}"):
        return None
    edges = []
    for e in edg:
        good = isinstance(e, (list, tuple)) and len(e) == 2 and all(as_int(x) is not None and 0 <= as_int(x) < n for x in e)
        if not ctx.check(good, tag + "edges:value", f"tree edge {e!r} is not a pair of element indices in [0,{n})"):
            return None
        edges.append((as_int(e[0]), as_int(e[1])))
    return parent, children, edges


def check_children_inverse(ctx, tag, parent, children, n):
    inv = [[] for _ in range(n)]
    for v, p in enumerate(parent):
        if p is not None:
            inv[p].append(v)
    bad = [v for v in range(n) if sorted(children[v]) != inv[v]]
    return ctx.check(not bad, tag + "children-inverse",
                     f"children is not the inverse of parent at element(s) {bad[:5]}: children[{bad[0] if bad else ''}] = "
                     f"{children[bad[0]] if bad else ''}, elements whose parent it is: {inv[bad[0]] if bad else ''}")


def depths_from_parent(ctx, tag, parent, root, reached, n):
    """depth of every reached element following parent links to the root; None if a chain does not end at the root"""
    depth = {root: 0}
    for v in reached:
        chain = []
        x = v
        while x not in depth:
            chain.append(x)
            x = parent[x]
            if x is None or len(chain) > n:
                ctx.check(False, tag + "parent-chain", f"following parent from element {v} does not arrive at the root {root} (chain {chain[:10]})")
                return None
        d = depth[x]
        for y in reversed(chain):
            d += 1
            depth[y] = d
    return depth


def check_traverse(ctx, tag, tree, parent, root, reached, depth, orders=("BFS", "DFS")):
    for order in orders:
        sig = tag + "traverse:" + order + ":"
        ok, seq = ctx.call(sig + "call", lambda: list(tree.traverse(order)))
        if not ok:
            continue
        good = all(isinstance(t, tuple) and len(t) == 2 for t in seq)
        if not ctx.check(good, sig + "shape", f"traverse('{order}') does not yield (node, parent) pairs: {seq[:5]!r}"):
            continue
        ok2, seq2 = ctx.call(sig + "call", lambda: list(tree.traverse(order)))
        if ok2:
            ctx.check(seq2 == seq, sig + "repeatable", f"a second traverse('{order}') yields a different sequence: {seq2[:6]} vs {seq[:6]}")
        nodes = [t[0] for t in seq]
        cnt = Counter(nodes)
        dup = [v for v, c in cnt.items() if c > 1]
        if not ctx.check(not dup, sig + "once", f"traverse('{order}') yields element(s) {dup[:5]} more than once"):
            continue
        if not ctx.check(set(nodes) == set(reached), sig + "covers",
                         f"traverse('{order}') yields {len(nodes)} elements, the tree reaches {len(reached)}; missing {sorted(set(reached) - set(nodes))[:8]}, "
                         f"extra {sorted(set(nodes) - set(reached))[:8]}"):
            continue
        if not ctx.check(seq[0] == (root, None), sig + "root-first", f"traverse('{order}') starts with {seq[0]!r}, expected ({root}, None)"):
            continue
        pos = {v: i for i, v in enumerate(nodes)}
        bad = [(v, p) for v, p in seq if p != parent[v]]
        if not ctx.check(not bad, sig + "parent", f"traverse('{order}') reports (node, parent) = {bad[:3]} but parent[{bad[0][0] if bad else ''}] = "
                         f"{parent[bad[0][0]] if bad else ''}"):
            continue
        late = [(v, p) for v, p in seq if p is not None and pos[p] > pos[v]]
        if not ctx.check(not late, sig + "parents-first", f"traverse('{order}') yields {late[:3]} (node, parent) before the parent itself"):
            continue
        if depth is None:
            continue
        if order == "BFS":
            ds = [depth[v] for v in nodes]
            ctx.check(all(ds[i] <= ds[i + 1] for i in range(len(ds) - 1)), sig + "order",
                      f"traverse('BFS') is not level by level: depths along the sequence {ds[:30]}")
        else:
            path = []
            okk = True
            for v, p in seq:
                if p is None:
                    path = [v]
                    continue
                while path and path[-1] != p:
                    path.pop()
                if not path:
                    okk = False
                    ctx.check(False, sig + "order", f"traverse('DFS') is not depth-first: node {v} (parent {p}) comes after the subtree of {p} was left; "
                              f"sequence {seq[:20]}")
                    break
                path.append(v)


def check_traverse_histories(ctx, tag, obj):
    """Iterators of one tree / forest must be independent of each other: abandoned, interleaved and restarted traversals.
    Reference = complete traversals made first (validated elsewhere)."""
    ok, ref = ctx.call(tag + "traverse:call", lambda: {o: list(obj.traverse(o)) for o in ("BFS", "DFS")})
    if not ok or len(ref["BFS"]) < 2:
        return
    refB, refD = ref["BFS"], ref["DFS"]
    k = max(1, len(refB) // 2)

    def run():
        out = {}
        try:
            list(obj.traverse("breadth-first"))        # not an accepted order: raises; ordinary use must go on afterwards
        except Exception:
            pass
        out["after-bad-order-BFS"] = (list(obj.traverse("BFS")), refB)
        it = obj.traverse("BFS")                       # abandoned half-way, iterator object kept alive
        head = [next(it) for _ in range(k)]
        out["after-abandoned-DFS"] = (list(obj.traverse("DFS")), refD)
        out["after-abandoned-BFS"] = (list(obj.traverse("BFS")), refB)
        out["resumed"] = (head + list(it), refB)         # the suspended iterator finishes its own traversal
        for x in obj.traverse("DFS"):                   # consumer breaks out of the loop
            break
        out["after-break-DFS"] = (list(obj.traverse("DFS")), refD)
        out["after-break-BFS"] = (list(obj.traverse("BFS")), refB)
        out["lock-step"] = (list(zip(obj.traverse("BFS"), obj.traverse("DFS"))), list(zip(refB, refD)))
        out["lock-step-same-order"] = (list(zip(obj.traverse("BFS"), obj.traverse("BFS"))), list(zip(refB, refB)))
        # the documented spellings of the order: left out (default "BFS"), by keyword
        out["order-left-out"] = (list(obj.traverse()), refB)
        out["order-by-keyword-DFS"] = (list(obj.traverse(order="DFS")), refD)
        out["order-by-keyword-BFS"] = (list(obj.traverse(order="BFS")), refB)
        return out
    ok, out = ctx.call(tag + "traverse:histories", run)
    if not ok:
        return
    for name, (got, exp) in out.items():
        if not ctx.check(got == exp, tag + "traverse:history:" + name,
                         f"{name}: the traversal yields {len(got)} items {got[:8]}..., a fresh complete traversal yields {len(exp)} items {exp[:8]}..."):
            return


def check_spanning_tree(ctx, tag, tree, n, adm_links, root_expected, bfs=True, orders=("BFS", "DFS")):
    """tree: a computed BFS spanning tree over n elements; adm_links: admissible (a, b, carrier) adjacencies.
    Returns the sorted reached list or None."""
    root = tree.root
    if root_expected is not None:
        if not ctx.check(as_int(root) == root_expected, tag + "root", f"root is {root!r}, constructor was given {root_expected}"):
            return None
    else:
        if not ctx.check(as_int(root) is not None and 0 <= root < n, tag + "root", f"random root {root!r} is not an element index in [0,{n})"):
            return None
    root = as_int(root)
    tabs = read_tables(ctx, tag, tree, n)
    if tabs is None:
        return None
    parent, children, edges = tabs
    pairs = [(a, b) for a, b, _ in adm_links]
    adm = set(key(a, b) for a, b in pairs)
    comp = R.component_of(n, pairs, root)
    ok = ctx.check(parent[root] is None, tag + "root-parent", f"parent[root={root}] = {parent[root]!r}, expected None")
    reached = sorted(set([root]) | set(v for v in range(n) if parent[v] is not None))
    if not ctx.check(reached == comp, tag + "reached",
                     f"root {root}: the tree reaches {len(reached)} elements, the root's component in the admissible graph has {len(comp)}; "
                     f"not reached {sorted(set(comp) - set(reached))[:8]}, wrongly reached {sorted(set(reached) - set(comp))[:8]}"):
        return None
    ok = ctx.check(len(edges) == len(reached) - 1, tag + "edge-count", f"{len(edges)} tree edges for {len(reached)} reached elements") and ok
    notsorted = [e for e in edges if not e[0] < e[1]]
    ctx.check(not notsorted, tag + "edges:format", f"tree edges {notsorted[:3]} are not stored as (u,v) with u<v")
    badadj = [(v, parent[v]) for v in reached if v != root and key(v, parent[v]) not in adm]
    ok = ctx.check(not badadj, tag + "parent-admissible",
                   f"(element, parent) pairs {badadj[:4]} are not admissible adjacencies (not adjacent in the mesh, or only across excluded items)") and ok
    bade = [e for e in edges if key(e) not in adm]
    ok = ctx.check(not bade, tag + "edge-admissible", f"tree edges {bade[:4]} are not admissible adjacencies") and ok
    from_parent = sorted(key(v, parent[v]) for v in reached if v != root)
    ok = ctx.check(sorted(key(e) for e in edges) == from_parent, tag + "edges-vs-parent",
                   f"edges {sorted(key(e) for e in edges)[:10]} is not the set of (parent, child) pairs {from_parent[:10]}") and ok
    ok = check_children_inverse(ctx, tag, parent, children, n) and ok
    rset = set(reached)
    outside = [v for v in range(n) if v not in rset and children[v]]
    ctx.check(not outside, tag + "children-outside", f"unreached elements {outside[:5]} have children")
    depth = depths_from_parent(ctx, tag, parent, root, reached, n)
    if depth is not None and bfs:
        hops = R.bfs_hops(n, pairs, root)
        bad = [(v, depth[v], hops[v]) for v in reached if depth[v] != hops[v]]
        ctx.check(not bad, tag + "bfs-depth", f"root {root}: (element, depth in tree, minimum hop distance) = {bad[:5]}")
    if ok:
        light = n > 20000                      # huge meshes: no iterator histories (cost)
        check_traverse(ctx, tag, tree, parent, root, reached, depth, orders)
        if not light:
            check_traverse_histories(ctx, tag, tree)
    return reached


def admissible_edge_links(mod, case_avoid, avoid_boundary):
    """vertex graph minus avoided edge keys minus border edges if asked (never for polylines)"""
    n, links = mod.links("vertex")
    avoid = set(key(e) for e in (case_avoid or []))
    if avoid_boundary and mod.kind != "polyline":
        avoid |= set(mod.border_edges)
    return n, links, [(a, b, c) for a, b, c in links if c not in avoid], avoid


def label_common(ctx, n, links, adm, root, excl_nonempty, what_root=True):
    pairs_all = [(a, b) for a, b, _ in links]
    ncomp = len(R.partition(n, pairs_all))
    ncomp_adm = len(R.partition(n, [(a, b) for a, b, _ in adm]))
    ctx.label("components=" + str(min(ncomp, 3)))
    if ncomp >= 256:
        ctx.label("components>=256")
    ctx.label("elements=" + (str(n) if n <= 2 else "3+" if n <= 65536 else ">2^16" if n < 100000 else ">=1e5"))
    ctx.label("root=" + ("random" if root is None else "explicit"))
    if root is not None and what_root:
        if root == 0:
            ctx.label("root=id0")
        if root == n - 1:
            ctx.label("root=last-id")
    ctx.label("exclusion-disconnects" if ncomp_adm > ncomp else "exclusion-harmless" if excl_nonempty else "no-exclusion")
    cyc = has_cycle(n, links)
    ctx.label("cycle" if cyc else "acyclic")
    ctx.nontrivial(cyc and (excl_nonempty or ncomp >= 2))
    return ncomp, ncomp_adm


# -------------------------------------------------------------------------------------------- shared: histories on one mesh

def np_root(case, r):
    """the root as the caller would pass it: plain int, or a numpy integer (e.g. taken out of an index array)"""
    if r is None:
        return None
    if not case.get("root_np"):
        return int(r)
    dt = case.get("np_int", "int64")
    if r > {"int64": 2 ** 62, "int32": 2 ** 31 - 1, "uint16": 65535, "uint8": 255}[dt]:
        dt = "int64"
    return np.dtype(dt).type(r)


def id_set(case, ids):
    """the exclusion argument as the caller passes it: None, a set or a frozenset, of python ints or numpy integers"""
    if ids is None:
        return None
    items = [np.int64(i) for i in ids] if case.get("ids_np") else [int(i) for i in ids]
    return frozenset(items) if case.get("frozen") else set(items)


def flag_value(case, b):
    """a boolean option as the caller passes it: bool, numpy.bool_ or 0 / 1"""
    f = case.get("flag", "bool")
    return np.bool_(bool(b)) if f == "np_bool" else int(bool(b)) if f == "int" else bool(b)


def is_default(v, d):
    if d is None:
        return v is None
    if d is False:
        return isinstance(v, (bool, np.bool_, int)) and not v
    return isinstance(v, str) and v == d


def spelled(case, ctx, cls, mesh, params, legacy_pos):
    """cls(mesh, ...) spelled as the case asks.  params: [(documented name, value, documented default)] in the documented order
    (after `mesh`).  positional: every parameter by position; keyword: every parameter (and the mesh) by its documented name;
    minimal: parameters whose value is the documented default are left out, the others by keyword; legacy (cases stored by earlier
    versions): the first `legacy_pos` parameters by position, the others by keyword."""
    style = case.get("call", "legacy")
    if style not in CALL_STYLES:
        style = "legacy"
    ctx.label("call=" + style)
    if style == "positional":
        return cls(mesh, *[v for _, v, _ in params])
    if style == "keyword":
        return cls(mesh=mesh, **{k: v for k, v, _ in params})
    if style == "minimal":
        return cls(mesh, **{k: v for k, v, d in params if not is_default(v, d)})
    return cls(mesh, *[v for _, v, _ in params[:legacy_pos]], **{k: v for k, v, _ in params[legacy_pos:]})


def runner_of(case, ctx, obj):
    """how the caller runs a tree / forest: obj() (returns obj) or obj.compute() (returns None)"""
    if case.get("run", "call") == "compute":
        ctx.label("run=compute()")
        return lambda: (obj.compute(), obj)[1]
    ctx.label("run=__call__")
    return obj


def extra_ids(case, n_ids):
    """special ids the case adds to the exclusion set: the first (0) and / or the last id of the container"""
    x = case.get("excl_extra")
    if not x or n_ids <= 0:
        return []
    return sorted(set(([0] if "first" in x else []) + ([n_ids - 1] if "last" in x else [])))


def with_extra(case, ctx, keys, key_of):
    """the excluded carrier keys of the case plus the keys of the special ids (resolved on the mesh: ids are the library's)"""
    ids = extra_ids(case, len(key_of))
    if not ids:
        return keys
    out = [list(k) for k in (keys or [])]
    have = set(tuple(key(k)) for k in out)
    for i in ids:
        if tuple(key_of[i]) not in have:
            out.append(list(key_of[i]))
            have.add(tuple(key_of[i]))
    ctx.label("exclusion-has-" + "+".join((["id0"] if 0 in ids else []) + (["last-id"] if len(key_of) - 1 in ids else [])))
    if len(out) == 1 and ids == [0]:
        ctx.label("exclusion-is-{0}")
    return out


def snapshot_tables(tree):
    return copy.deepcopy(([x for x in tree.parent], [list(c) for c in tree.children], [tuple(e) for e in tree.edges]))


def check_copies(ctx, tag, tree, n):
    """copy.copy / copy.deepcopy of a computed tree carry the same tables and traverse like the original"""
    ctx.label("copies")
    tabs = snapshot_tables(tree)
    trav = list(tree.traverse("BFS")), list(tree.traverse("DFS"))
    kinds = [("copy", copy.copy)] + ([("deepcopy", copy.deepcopy)] if n <= 150 else [])
    for name, f in kinds:
        ok, t2 = ctx.call(tag + name, f, tree)
        if not ok:
            continue
        ok, res = ctx.call(tag + name + ":use", lambda: (snapshot_tables(t2), (list(t2.traverse("BFS")), list(t2.traverse("DFS"))), t2.root))
        if ok:
            ctx.check(res[0] == tabs and res[1] == trav and res[2] == tree.root, tag + name + ":differs",
                      f"the {name} of the tree has other tables / another traversal than the tree itself")
    ctx.check(snapshot_tables(tree) == tabs, tag + "copy:original-changed", "copying the tree changed it")


def run_trees(ctx, tag, case, n, make, adm_fn, argset, what, all_ids):
    """First tree (root `root`), then - if the case has `root2` - a second tree on the SAME mesh object built with the SAME
    exclusion-set object (possibly edited in place by the caller in between).  make(root, second) returns a constructed (not
    computed) tree; adm_fn(excluded ids, second) the admissible links; all_ids the valid ids for the exclusion set."""
    snap = [None if argset is None else set(argset)]
    if case["root"] is not None and case.get("root_np"):
        ctx.label("root-type=numpy")
    if argset is not None:
        ctx.label("exclusion-arg=" + type(argset).__name__ + ("-of-numpy-ints" if case.get("ids_np") else ""))

    def unchanged(t):
        if argset is None:
            return True
        sn = snap[0]
        return ctx.check(argset == sn, t + "input-mutated",
                         f"the caller's {what} set was modified by the tree: {len(sn)} ids before, {len(argset)} after "
                         f"(added {sorted(argset - sn)[:8]}, removed {sorted(sn - argset)[:8]})")
    ok, tree = ctx.call(tag + "construct", lambda: make(np_root(case, case["root"]), False))
    if not ok:
        return
    if case.get("bad_call"):
        ctx.label("traverse-before-compute")
        try:
            list(tree.traverse("BFS"))          # refused (or at most the root): must leave the tree usable
        except Exception:
            pass
    run = runner_of(case, ctx, tree)
    ok, r = ctx.call(tag + "compute", run)
    if not ok:
        return
    ctx.check(r is tree, tag + "call-returns-self", "tree() does not return the tree")
    rec = case.get("recompute", "no") if RECOMPUTE_ORACLE else "no"
    if rec == "before-read":
        # the same tree object is computed a second time before anything is read from it
        ctx.label("computed-twice-before-read")
        ok, r = ctx.call(tag + "recompute", run)
        if not ok:
            return
    unchanged(tag)
    reached = check_spanning_tree(ctx, tag, tree, n, adm_fn(argset, False), case["root"], bfs=True)
    if reached is None:
        return
    if rec == "after-read":
        # ... or after its tables were read and traversed
        ctx.label("computed-again-after-read")
        ok, r = ctx.call(tag + "recompute", run)
        if not ok or check_spanning_tree(ctx, tag + "recomputed:", tree, n, adm_fn(argset, False), case["root"], bfs=True) is None:
            return
    if case.get("copies"):
        check_copies(ctx, tag, tree, n)
    r2 = case.get("root2")
    if r2 is None:
        return
    ctx.label("second-tree")
    tabs1 = snapshot_tables(tree)
    trav1 = list(tree.traverse("BFS")), list(tree.traverse("DFS"))
    if case.get("mutate_arg") and isinstance(argset, set) and all_ids:
        # the caller edits the exclusion set in place before asking for another tree: the new tree follows the edited set,
        # the tree that already exists stays as it was
        x = sorted(all_ids)[int(case.get("mutate_pick", 0)) % len(all_ids)]
        if x in argset:
            argset.discard(x)
        else:
            argset.add(np.int64(x) if case.get("ids_np") else int(x))
        snap[0] = set(argset)
        ctx.label("argument-edited-in-place")
    t2 = tag + "second:"
    ok, tree2 = ctx.call(t2 + "construct", lambda: make(np_root(case, r2), True))
    if not ok:
        return
    ok, r = ctx.call(t2 + "compute", runner_of(case, ctx, tree2))
    if not ok:
        return
    unchanged(t2)
    check_spanning_tree(ctx, t2, tree2, n, adm_fn(argset, True), r2, bfs=True)
    ctx.check(snapshot_tables(tree) == tabs1, tag + "first-tree-changed",
              "building a second tree on the same mesh changed the tables of the first tree")
    ctx.check((list(tree.traverse("BFS")), list(tree.traverse("DFS"))) == trav1, tag + "first-tree-traverse-changed",
              "after a second tree was built and traversed on the same mesh, the first tree traverses differently")


# -------------------------------------------------------------------------------------------- sub-check: edge tree

def fn_edge_tree(case, ctx):
    from mouette.processing import trees
    ab1 = bool(case["avoid_boundary"])
    ab2 = bool(case.get("avoid_boundary2", ab1))
    m, mod, eid, fid, ok = build(case, ctx, exercise=lambda pm: (trees.EdgeSpanningTree(pm, 0, avoid_boundary=ab1)(),
                                                                   trees.EdgeSpanningTree(pm, 0, avoid_boundary=True)()))
    if not ok:
        return
    key_of = {i: e for e, i in eid.items()}
    avoid_keys = with_extra(case, ctx, case["avoid"], key_of)
    n, links, adm, avoid = admissible_edge_links(mod, avoid_keys, case["avoid_boundary"])
    ctx.label("avoid=" + case["avoid_mode"], "avoid_boundary=" + str(bool(case["avoid_boundary"])))
    if avoid_keys is not None and not avoid_keys:
        ctx.label("avoid=empty-set")
    label_common(ctx, n, links, adm, case["root"], bool(avoid & set(c for _, _, c in links)))
    avoid_ids = id_set(case, None if avoid_keys is None else [eid[key(e)] for e in avoid_keys])
    if mod.kind == "surface" and case["avoid_boundary"] and avoid_keys is None and not case.get("sort", True):
        ctx.label("avoid-boundary-only+unsorted-fans")
    border = set(mod.border_edges) if mod.kind != "polyline" else set()
    ctx.label("flag=" + case.get("flag", "bool"))

    def adm_fn(ids, second):
        excl = set(key_of[int(i)] for i in (ids or ()))
        if (ab2 if second else ab1):
            excl |= border
        return [(a, b, c) for a, b, c in links if c not in excl]
    make = lambda root, second: spelled(case, ctx, trees.EdgeSpanningTree, m,
                                        [("starting_vertex", root, None), ("avoid_boundary", flag_value(case, ab2 if second else ab1), False),
                                         ("avoid_edges", avoid_ids, None)], 1)
    run_trees(ctx, "edge_tree:", case, n, make, adm_fn, avoid_ids, "avoid_edges", sorted(key_of))


# -------------------------------------------------------------------------------------------- sub-check: MST

@contextlib.contextmanager
def memory_cap(extra=2 << 30):
    """Soft address-space limit (current size + extra) while a library call runs: if Kruskal ever hands a cyclic edge set to the
    orientation loop, that loop appends to its queue forever; a MemoryError (reported as a violation) is better than an
    OOM-killed worker, which would hang the process pool.  Restored afterwards."""
    try:
        import resource
        soft, hard = resource.getrlimit(resource.RLIMIT_AS)
        with open("/proc/self/statm") as f:
            cur = int(f.read().split()[0]) * resource.getpagesize()
        lim = cur + extra
        if hard != resource.RLIM_INFINITY:
            lim = min(lim, hard)
        resource.setrlimit(resource.RLIMIT_AS, (lim, hard))
    except Exception:
        resource = None
    try:
        yield
    finally:
        if resource is not None:
            resource.setrlimit(resource.RLIMIT_AS, (soft, hard))


class WeightTable(dict):
    """a caller's own subclass of dict (weights of the minimal spanning tree)"""


def compute_capped(tree):
    try:
        with memory_cap():
            return tree()
    except Exception as e:
        # drop the locals of the library frames (a multi-GB work queue after a MemoryError): the exception object is kept alive by
        # the reported violation for the rest of the shard and would otherwise pin that memory in every worker
        import traceback
        traceback.clear_frames(e.__traceback__)
        raise


def check_mst(ctx, tag, tree, n, adm, w, wm, root_expected):
    """tree: computed EdgeMinimalSpanningTree; adm: admissible (a, b, edge key); w: reference weight per edge key"""
    root = tree.root
    if root_expected is not None:
        if not ctx.check(as_int(root) == root_expected, tag + "root", f"root is {root!r}, constructor was given {root_expected}"):
            return False
    elif not ctx.check(as_int(root) is not None and 0 <= root < n, tag + "root", f"random root {root!r} is not a vertex index in [0,{n})"):
        return False
    root = as_int(root)
    tabs = read_tables(ctx, tag, tree, n)
    if tabs is None:
        return False
    parent, children, edges = tabs
    pairs = [(a, b) for a, b, _ in adm]
    admset = set(key(a, b) for a, b in pairs)
    adm_w = [(a, b, w[c]) for a, b, c in adm]
    vals = [x for _, _, x in adm_w]
    # 1. the edge list: a minimum-weight spanning forest of the admissible graph
    bade = [e for e in edges if key(e) not in admset]
    okE = ctx.check(not bade, tag + "edge-admissible", f"MST edges {bade[:4]} are not admissible mesh edges (absent, or on the border with avoid_boundary)")
    notsorted = [e for e in edges if not e[0] < e[1]]
    ctx.check(not notsorted, tag + "edges:format", f"MST edges {notsorted[:3]} are not stored as (u,v) with u<v")
    okE = ctx.check(R.is_forest(n, edges), tag + "acyclic", f"the MST edge list contains a cycle or a repeated edge: {edges[:12]}") and okE
    pe, pa = R.partition(n, edges), R.partition(n, pairs)
    okE = ctx.check(pe == pa, tag + "partition",
                    f"the MST edge list connects {len(pe)} blocks, the admissible graph has {len(pa)} components (n={n}, {len(edges)} edges)") and okE
    if okE:
        total = math.fsum(w[key(e)] for e in edges)
        ref_total, ref_k, _ = R.kruskal(n, adm_w)
        tol = 1e-9 * math.fsum(abs(x) for x in vals)          # relative to the scale of the weights (no absolute floor)
        if wm != "length" and all(float(x) == int(x) and abs(x) < 2 ** 50 for x in vals):
            # integer weights (given by the caller, not measured): sums and comparisons are exact in floating point, a
            # minimum-weight forest has exactly the reference weight
            tol = 0.0
            ctx.label("weights=exact-integers")
        ctx.check(abs(total - ref_total) <= tol, tag + "weight",
                  f"total weight of the returned forest {total!r} != minimum spanning forest weight {ref_total!r} (weights={wm}, {len(edges)} edges, "
                  f"difference {total - ref_total:.3e}, tolerance {tol:.1e})")
    # 2. parent / children orient exactly the root's component
    comp = R.component_of(n, pairs, root)
    ctx.check(parent[root] is None, tag + "root-parent", f"parent[root={root}] = {parent[root]!r}")
    reached = sorted(set([root]) | set(v for v in range(n) if parent[v] is not None))
    if not ctx.check(reached == comp, tag + "reached",
                     f"root {root}: parent table orients {len(reached)} vertices, the root's admissible component has {len(comp)}; "
                     f"missing {sorted(set(comp) - set(reached))[:8]}, extra {sorted(set(reached) - set(comp))[:8]}"):
        return False
    cs = set(comp)
    from_parent = sorted(key(v, parent[v]) for v in reached if v != root)
    in_comp = sorted(key(e) for e in edges if e[0] in cs)
    ok2 = ctx.check(from_parent == in_comp, tag + "edges-vs-parent",
                    f"(parent, child) pairs {from_parent[:10]} are not the MST edges inside the root's component {in_comp[:10]}")
    ok2 = check_children_inverse(ctx, tag, parent, children, n) and ok2
    depth = depths_from_parent(ctx, tag, parent, root, reached, n)
    if ok2:
        check_traverse(ctx, tag, tree, parent, root, reached, depth)
        if n <= 20000:
            check_traverse_histories(ctx, tag, tree)
    return True


def fn_mst(case, ctx):
    import mouette as M
    from mouette.processing import trees
    ex_w = case["weights_mode"] if case["weights_mode"] in ("one", "length") else "one"
    m, mod, eid, fid, ok = build(case, ctx, exercise=lambda pm: (trees.EdgeMinimalSpanningTree(pm, 0, avoid_boundary=bool(case["avoid_boundary"]), weights=ex_w)(),
                                                                   trees.EdgeMinimalSpanningTree(pm, 0, avoid_boundary=True, weights="one")()))
    if not ok:
        return
    nE = len(mod.edge_keys)
    n, links, adm, avoid = admissible_edge_links(mod, None, case["avoid_boundary"])
    wm = case["weights_mode"]
    case_weights = case["weights"]
    if case.get("wformula"):
        fa, fb, fm = (int(x) for x in case["wformula"])
        case_weights = [[u, v, float((fa * u + fb * v) % fm)] for (u, v) in mod.edge_keys]
    ctx.label("weights=" + wm, "style=" + case["style"], "avoid_boundary=" + str(bool(case["avoid_boundary"])))
    sc = float(case.get("scale", 1.0))
    ctx.label("scale=%g" % sc)
    ctx.label("offset/size=%g" % float(case.get("offset", 0.0)), "anisotropic" if case.get("aniso") else "isotropic")
    label_common(ctx, n, links, adm, case["root"], bool(avoid & set(c for _, _, c in links)))
    # history before the tree: an edge attribute named "length" already lives on the mesh
    la = case.get("length_attr", "none")
    ctx.label("length-attr=" + la)
    if la == "fresh":
        M.attributes.edge_length(m)
    elif la == "user":
        a = m.edges.create_attribute("length", float, dense=True)
        for u, v, x in case["length_vals"]:
            a[eid[key(u, v)]] = float(x)
    elif la == "stale":
        M.attributes.edge_length(m)                      # lengths of the ORIGINAL geometry stay stored on the mesh
        for i, p in enumerate(case["V2"]):
            m.vertices[i] = M.Vec(float(p[0]), float(p[1]), float(p[2]))
        mod.V = case["V2"]                                # the reference measures the current geometry

    def length_attr_values():
        if not m.edges.has_attribute("length"):
            return None
        a = m.edges.get_attribute("length")
        return [float(a[e]) for e in range(nE)]
    len_snap = length_attr_values()
    coords_snap = [[float(x) for x in v] for v in m.vertices]
    # reference weights per edge key
    w_len = {e: mod.length(e) for e in mod.edge_keys}
    w_one = {e: 1.0 for e in mod.edge_keys}
    arg_snapshot = lambda: None
    if wm == "one":
        w, arg = w_one, "one"
    elif wm == "length":
        w, arg = w_len, "length"
    else:
        dflt = case.get("attr_default")
        vt = case.get("val_type", "float")

        def conv(x):
            """the weight value as the caller stores it in a dict"""
            x = float(x)
            if vt == "int" and x == int(x):
                return int(x)
            if vt == "float32":
                return np.float32(x)
            if vt == "float64":
                return np.float64(x)
            if vt == "uint8" and x == int(x) and 0 <= x <= 255:
                return np.uint8(x)
            return x
        w = {e: (0.0 if dflt is None else float(dflt)) for e in mod.edge_keys}
        for a, b, x in case_weights:
            w[key(a, b)] = float(conv(x)) if wm == "dict" else float(x)
        if wm == "dict":
            ctx.label("dict-values=" + vt)
            order = list(reversed(mod.edge_keys)) if case.get("dict_rev") else list(mod.edge_keys)
            cw = {tuple(key(a, b)): conv(x) for a, b, x in case_weights}
            kt = np.int64 if case.get("dict_keys_np") else int
            items = [(kt(eid[e]), cw[e]) for e in order]        # insertion order of the dict must not matter
            dk = case.get("dict_kind", "dict")
            arg = (collections.OrderedDict(items) if dk == "OrderedDict" else collections.defaultdict(float, items) if dk == "defaultdict"
                   else WeightTable(items) if dk == "subclass" else dict(items))
            ctx.label("dict-order=" + ("reversed" if case.get("dict_rev") else "sorted"), "dict-kind=" + dk,
                      "dict-keys=" + ("numpy" if case.get("dict_keys_np") else "int"))
            arg_snapshot = lambda: dict(arg)
        else:
            at = int if case.get("attr_type") == "int" else float
            ctx.label("attr-type=" + at.__name__)
            if dflt is None:
                arg = m.edges.create_attribute("c10_weight", at, dense=(wm == "attr_dense"))
            else:
                arg = m.edges.create_attribute("c10_weight", at, dense=(wm == "attr_dense"), default_value=at(dflt))
            wl = sorted(case_weights, key=lambda t: eid[key(t[0], t[1])], reverse=bool(case.get("dict_rev")))
            for a, b, x in wl:                          # written in increasing or decreasing index order
                arg[eid[key(a, b)]] = at(x)
            unwritten = len(mod.edge_keys) - len(case_weights)
            ctx.label("attr-default=" + ("type-default" if dflt is None else "zero" if dflt == 0 else "non-zero")
                      + ("+unwritten" if unwritten else "+all-written"))
            arg_snapshot = lambda: [float(arg[e]) for e in range(nE)]
    arg_snap = arg_snapshot()
    vals = [w[c] for _, _, c in adm]
    ctx.label("ties" if len(set(vals)) < len(vals) else "no-ties")
    if case["root"] is not None and case.get("root_np"):
        ctx.label("root-type=numpy")

    def untouched(t):
        ctx.check(arg_snapshot() == arg_snap, t + "input-mutated", f"the weights object ({wm}) was modified by the tree")
        ctx.check(length_attr_values() == len_snap, t + "length-attr-mutated", "the mesh's stored 'length' edge attribute was created / modified by the tree")
        now = [[float(x) for x in v] for v in m.vertices]
        ctx.check(now == coords_snap, t + "vertices-mutated", "vertex coordinates were modified by the tree")

    ab = bool(case["avoid_boundary"])
    ctx.label("flag=" + case.get("flag", "bool"))
    make = lambda root, wts: spelled(case, ctx, trees.EdgeMinimalSpanningTree, m,
                                     [("starting_vertex", root, None), ("avoid_boundary", flag_value(case, ab), False), ("weights", wts, "length")], 1)
    ok, tree = ctx.call("mst:construct", lambda: make(np_root(case, case["root"]), arg))
    if not ok:
        return
    run = runner_of(case, ctx, tree)
    ok, r = ctx.call("mst:compute", compute_capped, run)
    if not ok:
        return
    rec = case.get("recompute", "no") if RECOMPUTE_ORACLE else "no"
    if rec == "before-read":
        ctx.label("computed-twice-before-read")
        ok, r = ctx.call("mst:recompute", compute_capped, run)
        if not ok:
            return
    untouched("mst:")
    if not check_mst(ctx, "mst:", tree, n, adm, w, wm, case["root"]):
        return
    if rec == "after-read":
        ctx.label("computed-again-after-read")
        ok, r = ctx.call("mst:recompute", compute_capped, run)
        if not ok or not check_mst(ctx, "mst:recomputed:", tree, n, adm, w, wm, case["root"]):
            return
    if case.get("copies"):
        check_copies(ctx, "mst:", tree, n)
    r2 = case.get("root2")
    if r2 is None:
        return
    # second tree on the same mesh object (same weights object, or another weight choice)
    mode2 = case.get("mode2", "same")
    ctx.label("second-tree", "second-weights=" + mode2)
    arg2, w2, wm2 = (arg, w, wm) if mode2 == "same" else ("one", w_one, "one") if mode2 == "one" else ("length", w_len, "length")
    tabs1 = snapshot_tables(tree)
    if mode2 == "same" and wm in ("dict", "attr", "attr_dense") and case.get("mutate_arg") and mod.edge_keys:
        # the caller rewrites one weight in the same dict / attribute object before asking for another tree
        ek = mod.edge_keys[int(case.get("mutate_pick", 0)) % len(mod.edge_keys)]
        newv = float(w[ek]) + 10.0 if int(case.get("mutate_pick", 0)) % 2 else -5.0
        arg[eid[ek]] = int(newv) if (wm != "dict" and case.get("attr_type") == "int") else newv
        w2 = dict(w); w2[ek] = newv
        arg_snap = arg_snapshot()
        ctx.label("argument-edited-in-place")
    trav1 = list(tree.traverse("BFS")), list(tree.traverse("DFS"))
    ok, tree2 = ctx.call("mst:second:construct", lambda: make(np_root(case, r2), arg2))
    if not ok:
        return
    ok, r = ctx.call("mst:second:compute", compute_capped, runner_of(case, ctx, tree2))
    if not ok:
        return
    untouched("mst:second:")
    check_mst(ctx, "mst:second:", tree2, n, adm, w2, wm2, r2)
    ctx.check(snapshot_tables(tree) == tabs1, "mst:first-tree-changed", "building a second MST on the same mesh changed the tables of the first one")
    ctx.check((list(tree.traverse("BFS")), list(tree.traverse("DFS"))) == trav1, "mst:first-tree-traverse-changed",
              "after a second MST was built and traversed on the same mesh, the first one traverses differently")


# -------------------------------------------------------------------------------------------- sub-check: face tree

def fn_face_tree(case, ctx):
    from mouette.processing import trees
    m, mod, eid, fid, ok = build(case, ctx, exercise=lambda pm: trees.FaceSpanningTree(pm, 0)())
    if not ok:
        return
    n, links = mod.links("face")
    key_of = {i: e for e, i in eid.items()}
    forb_keys = with_extra(case, ctx, case["forbidden"], key_of)
    forb = set(key(e) for e in (forb_keys or []))
    adm = [(a, b, c) for a, b, c in links if c not in forb]
    ctx.label("forbidden=" + case["mode"])
    if forb_keys is not None and not forb_keys:
        ctx.label("forbidden=empty-set")
    label_common(ctx, n, links, adm, case["root"], bool(forb & set(c for _, _, c in links)))
    forb_ids = id_set(case, None if forb_keys is None else [eid[key(e)] for e in forb_keys])
    dbl = double_adjacencies(links) if n <= 20000 else {}
    if dbl:
        ctx.label("faces-sharing-two-edges")
        if any(0 < len([e for e in sh if e in forb]) < len(sh) for sh in dbl.values()):
            ctx.label("faces-sharing-two-edges:partly-forbidden")
    make = lambda root, second: spelled(case, ctx, trees.FaceSpanningTree, m, [("starting_face", root, None), ("forbidden_edges", forb_ids, None)], 2)
    def adm_fn(ids, second):
        excl = set(key_of[int(i)] for i in (ids or ()))
        return [(a, b, c) for a, b, c in links if c not in excl]
    run_trees(ctx, "face_tree:", case, n, make, adm_fn, forb_ids, "forbidden_edges", sorted(key_of))


# -------------------------------------------------------------------------------------------- sub-check: cell tree

def fn_cell_tree(case, ctx):
    from mouette.processing import trees
    m, mod, eid, fid, ok = build(case, ctx, exercise=lambda pm: trees.CellSpanningTree(pm, 0)())
    if not ok:
        return
    n, links = mod.links("cell")
    key_of = {i: f for f, i in fid.items()}
    forb_keys = with_extra(case, ctx, case["forbidden"], key_of)
    forb = set(key(f) for f in (forb_keys or []))
    adm = [(a, b, c) for a, b, c in links if c not in forb]
    ctx.label("forbidden=" + case["mode"])
    if forb_keys is not None and not forb_keys:
        ctx.label("forbidden=empty-set")
    label_common(ctx, n, links, adm, case["root"], bool(forb & set(c for _, _, c in links)))
    forb_ids = id_set(case, None if forb_keys is None else [fid[key(f)] for f in forb_keys])
    make = lambda root, second: spelled(case, ctx, trees.CellSpanningTree, m, [("starting_cell", root, None), ("forbidden_faces", forb_ids, None)], 2)
    def adm_fn(ids, second):
        excl = set(key_of[int(i)] for i in (ids or ()))
        return [(a, b, c) for a, b, c in links if c not in excl]
    run_trees(ctx, "cell_tree:", case, n, make, adm_fn, forb_ids, "forbidden_faces", sorted(key_of))


# -------------------------------------------------------------------------------------------- sub-check: forests

def fn_forest(case, ctx):
    from mouette.processing import trees
    fcls = {"edge": trees.EdgeSpanningForest, "face": trees.FaceSpanningForest, "cell": trees.CellSpanningForest}[case["what"]]
    m, mod, eid, fid, ok = build(case, ctx, exercise=lambda pm: fcls(pm)())
    if not ok:
        return
    what = case["what"]
    ctx.label("forest=" + what, "forbidden=" + case["mode"])
    if what == "edge":
        n, links = mod.links("vertex")
        adm = links
        mk = lambda: spelled(case, ctx, trees.EdgeSpanningForest, m, [], 0)
        excl = False
    elif what == "face":
        n, links = mod.links("face")
        key_of = {i: e for e, i in eid.items()}
        forb_keys = with_extra(case, ctx, case["forbidden"], key_of)
        forb = set(key(e) for e in (forb_keys or []))
        adm = [(a, b, c) for a, b, c in links if c not in forb]
        if forb_keys is not None and not forb_keys:
            ctx.label("forbidden=empty-set")
        forb_ids = id_set(case, None if forb_keys is None else [eid[key(e)] for e in forb_keys])
        mk = lambda: spelled(case, ctx, trees.FaceSpanningForest, m, [("forbidden_edges", forb_ids, None)], 1)
        excl = bool(forb & set(c for _, _, c in links))
    else:
        n, links = mod.links("cell")
        adm = links
        mk = lambda: spelled(case, ctx, trees.CellSpanningForest, m, [], 0)
        excl = False
    label_common(ctx, n, links, adm, 0, excl, what_root=False)
    fset = forb_ids if what == "face" else None
    fsnap = None if fset is None else set(fset)
    first = validate_forest(ctx, "forest:" + what + ":", mk, n, adm, fset, fsnap, case=case)
    if first is None or not case.get("twice"):
        return
    # several forest objects alive at the same time: a second one on the same mesh object (same exclusion-set object), then one on
    # another small mesh; the first forest is inspected again after each of them was computed
    ctx.label("second-forest")
    tag = "forest:" + what + ":"
    tabs1 = [snapshot_tables(t) for t in first.trees]
    ids1 = [id(t) for t in first.trees]
    roots1 = list(first.roots)
    second = validate_forest(ctx, tag + "second:", mk, n, adm, fset, fsnap)

    def first_intact(when):
        ok = ctx.check([id(t) for t in first.trees] == ids1 and list(first.roots) == roots1, tag + "first-forest-replaced",
                       f"after {when}, the first forest's trees / roots are other objects than before ({len(first.trees)} trees, roots {list(first.roots)[:8]}; "
                       f"before {len(ids1)} trees, roots {roots1[:8]})")
        ok = ok and ctx.check([snapshot_tables(t) for t in first.trees] == tabs1, tag + "first-forest-changed",
                              f"{when} changed the trees of the first forest")
        if ok:
            validate_forest(ctx, tag + "reinspected:", mk, n, adm, fset, fsnap, forest=first)
        return ok
    if not first_intact("building a second forest on the same mesh"):
        return
    other_mesh = polyline_from(OTHER_V, OTHER_E)
    other_links = [(a, b, (a, b)) for a, b in OTHER_E]
    other = validate_forest(ctx, tag + "other:", lambda: trees.EdgeSpanningForest(other_mesh), len(OTHER_V), other_links, None, None)
    if not first_intact("computing a forest on another mesh"):
        return
    if second is not None:
        validate_forest(ctx, tag + "second:reinspected:", mk, n, adm, fset, fsnap, forest=second)
    if other is not None:
        validate_forest(ctx, tag + "other:reinspected:", None, len(OTHER_V), other_links, None, None, forest=other)


def validate_forest(ctx, tag, mk, n, adm, fset, fsnap, forest=None, case=None):
    """build + compute + validate one forest (or re-inspect the already computed `forest`); returns it (None when validation
    stopped early).  case: how the forest is run (the first forest of a case)"""
    rec = "no"
    if forest is None:
        ok, forest = ctx.call(tag + "construct", mk)
        if not ok:
            return
        run = runner_of(case, ctx, forest) if case is not None else forest
        ok, r = ctx.call(tag + "compute", run)
        if not ok:
            return
        ctx.check(r is forest, tag + "call-returns-self", "forest() does not return the forest")
        rec = case.get("recompute", "no") if (RECOMPUTE_ORACLE and case is not None) else "no"
        if rec == "before-read":
            ctx.label("computed-twice-before-read")
            ok, r = ctx.call(tag + "recompute", run)
            if not ok:
                return
        elif rec == "after-read":
            # the forest is validated, computed again, and validated again (below)
            ctx.label("computed-again-after-read")
            if validate_forest(ctx, tag, None, n, adm, fset, fsnap, forest=forest) is None:
                return
            ok, r = ctx.call(tag + "recompute", run)
            if not ok:
                return
            tag = tag + "recomputed:"
    if fset is not None:
        ctx.check(fset == fsnap, tag + "input-mutated",
                  f"the caller's forbidden_edges set was modified by the forest ({len(fsnap)} ids before, {len(fset)} after)")
    pairs = [(a, b) for a, b, _ in adm]
    comps = R.partition(n, pairs)
    tl, rl = forest.trees, forest.roots
    if not ctx.check(isinstance(tl, list) and isinstance(rl, list) and len(tl) == len(rl), tag + "shape",
                     f"trees ({len(tl) if hasattr(tl, '__len__') else '?'}) and roots ({len(rl) if hasattr(rl, '__len__') else '?'}) do not match"):
        return
    ok, nt = ctx.call(tag + "n_trees", lambda: forest.n_trees)
    if ok:
        ctx.check(nt == len(tl), tag + "n_trees", f"n_trees = {nt!r} but {len(tl)} trees are stored")
    if not ctx.check(len(tl) == len(comps), tag + "tree-count",
                     f"{len(tl)} trees for {len(comps)} connected components of the admissible graph ({n} elements); roots {list(rl)[:10]}"):
        return
    covered = Counter()
    all_edges = []
    parent_of = {}
    for i, (t, r0) in enumerate(zip(tl, rl)):
        ok, ti = ctx.call(tag + "getitem", lambda: forest[i])
        if ok:
            ctx.check(ti is t, tag + "getitem", f"forest[{i}] is not trees[{i}]")
        if not ctx.check(as_int(r0) is not None and 0 <= r0 < n, tag + "root", f"roots[{i}] = {r0!r}"):
            return
        reached = check_spanning_tree(ctx, tag + "tree:", t, n, adm, as_int(r0), bfs=True, orders=("BFS",))
        if reached is None:
            return
        for v in reached:
            covered[v] += 1
            parent_of[v] = t.parent[v]
        all_edges += [key(e) for e in t.edges]
    multi = [v for v in range(n) if covered[v] != 1]
    if not ctx.check(not multi, tag + "cover-once", f"elements {multi[:8]} are covered {[covered[v] for v in multi[:8]]} times by the trees (expected once each)"):
        return
    ok, fe = ctx.call(tag + "edges", lambda: forest.edges)
    if ok:
        good = isinstance(fe, list) and all(isinstance(e, (tuple, list)) and len(e) == 2 for e in fe)
        if ctx.check(good, tag + "edges:shape", f"forest.edges = {fe!r:.200}"):
            ctx.check(sorted(key(e) for e in fe) == sorted(all_edges), tag + "edges-union",
                      f"forest.edges ({len(fe)}) is not the union of the trees' edges ({len(all_edges)})")
            ctx.check(len(fe) == n - len(comps), tag + "edge-count", f"{len(fe)} forest edges for {n} elements in {len(comps)} components")
            # the returned list is the caller's: editing it must not change the forest
            before = list(fe)
            fe.append((-1, -1))
            if fe:
                fe.pop(0)
            ok, fe2 = ctx.call(tag + "edges", lambda: forest.edges)
            if ok:
                ctx.check(list(fe2) == before, tag + "edges-aliased", "editing the list returned by forest.edges changed what forest.edges returns next")
    for order in ("BFS", "DFS"):
        sig = tag + "traverse:" + order + ":"
        ok, seq = ctx.call(sig + "call", lambda: list(forest.traverse(order)))
        if not ok:
            continue
        if not ctx.check(all(isinstance(t, tuple) and len(t) == 2 for t in seq), sig + "shape", f"{seq[:5]!r}"):
            continue
        nodes = [t[0] for t in seq]
        if not ctx.check(sorted(nodes) == list(range(n)), sig + "once",
                         f"forest.traverse('{order}') yields {len(nodes)} items for {n} elements; counts != 1: "
                         f"{[(v, c) for v, c in Counter(nodes).items() if c != 1][:6]}, missing {sorted(set(range(n)) - set(nodes))[:6]}"):
            continue
        bad = [(v, p) for v, p in seq if p != parent_of[v]]
        ctx.check(not bad, sig + "parent", f"forest.traverse('{order}') reports (node, parent) {bad[:4]} that contradict the trees' parent tables")
        pos = {v: i for i, v in enumerate(nodes)}
        late = [(v, p) for v, p in seq if p is not None and pos[p] > pos[v]]
        ctx.check(not late, sig + "parents-first", f"forest.traverse('{order}') yields {late[:4]} before their parents")
    if n <= 20000:
        check_traverse_histories(ctx, tag, forest)
    return forest


OTHER_V = [[float(i), 0.0, 0.0] for i in range(7)]
OTHER_E = [(0, 1), (1, 2), (3, 4)]                      # components {0,1,2} {3,4} {5} {6}


def self_test():
    R.self_test_c10()
    # the model on a literal case: two triangles sharing edge (1,2) + an isolated triangle
    mc = {"kind": "surface", "V": [[0, 0, 0], [1, 0, 0], [0, 1, 0], [1, 1, 0], [5, 0, 0], [6, 0, 0], [5, 1, 0]],
          "F": [[0, 1, 2], [2, 1, 3], [4, 5, 6]]}
    mod = Model(mc)
    assert mod.links("face") == (3, [(0, 1, (1, 2))]) and len(mod.edge_keys) == 8 and (1, 2) not in mod.border_edges
    n, links, adm, avoid = admissible_edge_links(mod, [[0, 1]], True)
    assert [c for _, _, c in adm] == [(1, 2)]
    assert has_cycle(*mod.links("vertex")) and not has_cycle(*mod.links("face"))
    mv = Model({"kind": "volume", "V": T.two()[0], "C": T.two()[1]})
    assert mv.links("cell") == (2, [(0, 1, (0, 1, 2))]) and len(mv.border_edges) == 9
    # the compact strips are valid meshes (checked here at a small size; the huge ones are trusted) with the advertised counts
    ts = dict(expand_mesh({"kind": "tristrip", "k": 6}))
    ts.pop("trusted")
    mt = Model(ts)
    assert mt.nV == 12 and mt.nF == 10 and len(mt.edge_keys) == 21 and len(mt.face_links) == 9 and len(mt.border_edges) == 12
    ks = dict(expand_mesh({"kind": "kuhnstrip", "k": 3}))
    ks.pop("trusted")
    mk = Model(ks)
    mkf = Model(expand_mesh({"kind": "kuhnstrip", "k": 3}))               # the fast route for trusted strips gives the same tables
    assert (mkf.edge_keys, mkf.face_keys, mkf.cell_links, set(mkf.border_edges), mkf.nC) == (mk.edge_keys, mk.face_keys, mk.cell_links, set(mk.border_edges), mk.nC)
    assert mk.nV == 16 and mk.nC == 18 and len(R.partition(mk.nC, [(a, b) for a, b, _ in mk.cell_links])) == 1
    assert compact_count({"kind": "tristrip", "k": 6}) == 12 and compact_count({"kind": "kuhnstrip", "k": 3}) == 16
    assert is_default(None, None) and is_default(np.bool_(False), False) and is_default(0, False) and not is_default(1, False)
    assert is_default("length", "length") and not is_default({}, "length") and not is_default(0, None)


SUBCHECKS = [
    SubCheck("edge_tree", edge_tree_case(), fn_edge_tree, quick=1500, thorough=2500, watchdog=(90, 180)),   # deep paths take seconds
    # if the orientation loop of the MST ever runs on a cyclic edge set it grows its queue without bound (~1 GB/s): memory is bounded by
    # memory_cap (a MemoryError becomes a violation); the shorter watchdog only stops the slowly growing variants early
    SubCheck("edge_mst", mst_case(), fn_mst, quick=1200, thorough=2500, watchdog=(10, 30)),
    SubCheck("face_tree", face_tree_case(), fn_face_tree, quick=900, thorough=2000, watchdog=(90, 180)),      # size-regime cases take seconds
    SubCheck("cell_tree", cell_tree_case(), fn_cell_tree, quick=600, thorough=1500, watchdog=(90, 180)),
    SubCheck("forests", forest_case(), fn_forest, quick=900, thorough=2000, watchdog=(90, 180)),
    # size regime: open paths whose hop depth from the root crosses 2**15 (2**16); seconds per case, hence their own small budgets
    # (one case in four is a minimal spanning tree over more than 2**16 / 10**5 edges instead: edge_mst keeps a short watchdog)
    SubCheck("edge_tree_deep", deep_vertex_tree_case(), fn_deep_vertex_tree, quick=16, thorough=40, watchdog=(120, 240)),
    SubCheck("forests_deep", deep_forest_case(), fn_forest, quick=8, thorough=16, watchdog=(120, 240)),
]

def kf_mst_dense_attribute(case, violation):
    """EdgeMinimalSpanningTree refuses a dense (ArrayAttribute) edge attribute as weights (only if the lead prefers a
    known finding over scratch/fixes/C10-1-mst-dense-attribute-weights.diff)"""
    return case.get("weights_mode") == "attr_dense" and violation.signature == "mst:construct:raises"


MATCHERS = {"kf_mst_dense_attribute": kf_mst_dense_attribute}
