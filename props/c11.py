"""C11 - k-d tree: construction terminates, leaves partition the points, kNN and radius queries are exact."""
import math
import numbers
import numpy as np
from hypothesis import strategies as st
from vlib.runner import SubCheck

PROPERTY = "C11"
RULE = ("Generated point arrays N in [0,80], d in [1,4] of six kinds (uniform floats, small-integer lattices with many "
        "duplicates, clusters with exact duplicates, collinear sets, all-identical sets, sets where more than half of the points "
        "share the maximum on one/all axes) x leaf size 1-8 x strategy balanced/fast/random (numpy.random seeded from the "
        "case) x 1-4 queries (query point on a data point / inside / outside the bounding box / midpoint of two data points, "
        "k in [1,N+3], radius >=0 incl. 0 and the exact distance to a data point). The build runs under a split counter "
        "(termination certificate), the leaves are compared with range(N), every query with a brute-force scan (integer "
        "arithmetic when all coordinates are dyadic). Two sub-checks share the generator: 'queries' (build, then kNN + radius "
        "queries; a case whose build diverges is discarded there) and 'build' (termination certificate + leaf partition, no "
        "queries). non-trivial = N > leaf size (the tree has an inner node) and, for 'queries', some query has k>1 or r>0; "
        "distinct = distinct realised (points, parameters, queries).")
ASSUMPTIONS = ["coordinates are finite floats of magnitude <= 1000 (no overflow/underflow of squared distances is probed)",
               "point arrays have shape (N,d) with d>=1 (N=0 is given as an empty (0,d) array)",
               "max_leaf_size >= 1, k >= 1, 0 <= r < inf",
               "termination: a non-terminating build is reported only with a divergence certificate (a no-progress split "
               "of the same index set on the same axis repeats under a pivot rule that is deterministic for that set); "
               "exhausting 200*(N+10) splits without certificate is counted as discarded 'inconclusive-budget'"]

KINDS = ["uniform", "lattice", "cluster", "collinear", "identical", "maxheavy"]
KIND_WEIGHTS = ["uniform"] * 3 + ["lattice"] * 3 + ["cluster"] * 2 + ["collinear"] * 2 + ["identical"] + ["maxheavy"] * 2
REL_TOL = 1e-12


# ------------------------------------------------------------------------------------------ generators
def _fl(S):
    return st.floats(min_value=-S, max_value=S, allow_nan=False, allow_infinity=False, width=64)


def _is_int_array(pts):
    return all(float(x) == int(x) for p in pts for x in p)


@st.composite
def kd_case(draw, with_queries=True):
    kind = draw(st.sampled_from(KIND_WEIGHTS))
    d = draw(st.integers(1, 4))
    N = draw(st.one_of(st.integers(0, 12), st.integers(0, 80), st.integers(9, 80)))
    leaf = draw(st.integers(1, 8))
    strategy = draw(st.sampled_from(["balanced", "fast", "random"]))
    S = 1.0
    if kind == "lattice":
        R = draw(st.sampled_from([1, 2, 3, 6]))
        pts = draw(st.lists(st.lists(st.integers(-R, R), min_size=d, max_size=d), min_size=N, max_size=N))
    elif kind == "uniform":
        S = draw(st.sampled_from([1.0, 1000.0]))
        pts = draw(st.lists(st.lists(_fl(S), min_size=d, max_size=d), min_size=N, max_size=N))
    elif kind == "cluster":
        S = draw(st.sampled_from([1.0, 1000.0]))
        nc = draw(st.integers(1, 4))
        centres = draw(st.lists(st.lists(_fl(S * 0.9), min_size=d, max_size=d), min_size=nc, max_size=nc))
        pts = []
        for _ in range(N):
            c = centres[draw(st.integers(0, nc - 1))]
            if draw(st.integers(0, 2)) == 0:
                pts.append(list(c))                      # exact duplicate of the centre
            else:
                pts.append([c[a] + draw(_fl(1e-3 * S)) for a in range(d)])
    elif kind == "collinear":
        base = draw(st.lists(st.integers(-3, 3), min_size=d, max_size=d))
        direc = draw(st.lists(st.integers(-2, 2), min_size=d, max_size=d))
        f = draw(st.sampled_from([1, 1, 0.5, 0.1, 1.0 / 3.0]))
        ts = draw(st.lists(st.integers(-6, 6), min_size=N, max_size=N))
        pts = [[(base[a] + t * direc[a]) * f for a in range(d)] for t in ts]
    elif kind == "identical":
        if draw(st.booleans()):
            p = draw(st.lists(st.integers(-3, 3), min_size=d, max_size=d))
        else:
            p = draw(st.lists(_fl(1.0), min_size=d, max_size=d))
        pts = [list(p) for _ in range(N)]
    else:  # maxheavy: more than half of the points carry the maximum on the chosen axes
        R = draw(st.sampled_from([1, 2, 3]))
        pts = draw(st.lists(st.lists(st.integers(-R, R), min_size=d, max_size=d), min_size=N, max_size=N))
        if draw(st.integers(0, 2)) > 0:
            axes = list(range(d))
        else:
            axes = sorted(set(draw(st.lists(st.integers(0, d - 1), min_size=1, max_size=d))))
        if N > 0:
            m = draw(st.integers(N // 2 + 1, N))
            off = draw(st.integers(0, N - 1))
            for i in range(m):
                for a in axes:
                    pts[(off + i) % N][a] = R
    integral = _is_int_array(pts)
    int_dtype = integral and draw(st.integers(0, 3)) == 0
    if integral:
        pts = [[int(x) for x in p] for p in pts]
    dyadic = all(float(x) * 4 == int(float(x) * 4) for p in pts for x in p)

    # bounding box (default [-1,1]^d for the empty set)
    if N > 0:
        lo = [min(p[a] for p in pts) for a in range(d)]
        hi = [max(p[a] for p in pts) for a in range(d)]
    else:
        lo, hi = [-1] * d, [1] * d
    S = max([1.0] + [abs(float(x)) for x in lo + hi])

    def half(a_lo, a_hi):
        return draw(st.integers(math.ceil(2 * a_lo), math.floor(2 * a_hi))) / 2

    queries = []
    for _ in range(draw(st.integers(1, 4)) if with_queries else 0):
        qkind = draw(st.sampled_from(["on", "inside", "outside", "mid"] if N > 0 else ["inside", "outside"]))
        if qkind == "on":
            q = list(pts[draw(st.integers(0, N - 1))])
        elif qkind == "mid":
            p1, p2 = pts[draw(st.integers(0, N - 1))], pts[draw(st.integers(0, N - 1))]
            q = [(p1[a] + p2[a]) / 2 for a in range(d)]
        else:
            if dyadic:
                q = [half(math.floor(lo[a]), math.ceil(hi[a])) for a in range(d)]
            else:
                q = [draw(st.floats(min_value=float(lo[a]), max_value=float(hi[a]), allow_nan=False)) for a in range(d)]
            if qkind == "outside":
                axes_out = sorted(set(draw(st.lists(st.integers(0, d - 1), min_size=1, max_size=d))))
                for a in axes_out:
                    delta = draw(st.integers(1, 8)) / 2 if dyadic else draw(st.floats(min_value=0.0, max_value=S, allow_nan=False))
                    q[a] = (hi[a] + delta) if draw(st.booleans()) else (lo[a] - delta)
        q = [float(x) for x in q]
        k = draw(st.one_of(st.integers(1, N + 3), st.integers(1, min(N + 3, leaf + 3))))
        q_dyadic = dyadic and all(x * 4 == int(x * 4) for x in q)
        rk = draw(st.sampled_from(["zero", "free", "point", "point"] if N > 0 else ["zero", "free"]))
        if rk == "zero":
            r = 0.0
        elif rk == "point":
            p = pts[draw(st.integers(0, N - 1))]
            if q_dyadic:
                D = sum((int(4 * q[a]) - int(4 * float(p[a]))) ** 2 for a in range(d))      # 16 * dist^2
                r = math.isqrt(D) / 4         # the exact distance when it is dyadic, else the dyadic just below it
            else:
                r = math.sqrt(math.fsum((q[a] - float(p[a])) ** 2 for a in range(d)))
                if draw(st.integers(0, 3)) == 0:
                    r = math.nextafter(r, math.inf)
        else:
            if q_dyadic:
                r = draw(st.integers(0, int(4 * (2 * S + 4)))) / 4
            else:
                r = draw(st.floats(min_value=0.0, max_value=2.5 * S * math.sqrt(d), allow_nan=False))
        queries.append({"q": q, "k": k, "r": float(r), "qkind": qkind, "rkind": rk})
    return {"kind": kind, "d": d, "points": pts, "int_dtype": bool(int_dtype), "leaf": leaf, "strategy": strategy,
            "queries": queries}


# ------------------------------------------------------------------------------------------ termination monitor
class Divergence(BaseException):
    """raised from inside the wrapped splitter to abort a build that provably never ends (BaseException: the library
    cannot swallow it)"""


class BudgetExhausted(BaseException):
    pass


class SplitMonitor:
    def __init__(self, points, strategy, budget):
        self.P = points
        self.strategy = strategy
        self.budget = budget
        self.steps = 0
        self.noprogress = 0
        self.seen = set()

    def deterministic_for(self, idx):
        """is the pivot of this index set independent of numpy.random?"""
        if self.strategy == "balanced":
            return True, "balanced pivot = median"
        if self.strategy == "fast" and len(idx) <= 50:
            return True, "fast pivot = median of a permutation of all (<=50) values"
        if len(idx) > 0 and bool(np.all(self.P[idx] == self.P[idx[0]])):
            return True, "all points of the node are identical (every pivot rule returns their common value)"
        return False, ""

    def observe(self, idx, axis, result):
        self.steps += 1
        try:
            _, less, more = result
            nl, nm = len(less), len(more)
        except Exception:
            return
        n = len(idx)
        if n > 0 and ((nl == n and nm == 0) or (nm == n and nl == 0)):
            self.noprogress += 1
            det, why = self.deterministic_for(idx)
            if det:
                key = (tuple(sorted(int(i) for i in idx)), int(axis))
                if key in self.seen:
                    raise Divergence(f"the {n} indices {list(key[0])[:12]}{'...' if n > 12 else ''} were split on axis {axis} a second "
                                     f"time with no change ({why}): the build repeats this state forever "
                                     f"(after {self.steps} splits)")
                self.seen.add(key)
        if self.steps > self.budget:
            raise BudgetExhausted()


_WATCHED = {}


def watched_class(KDTree):
    W = _WATCHED.get(KDTree)
    if W is None:
        class Watched(KDTree):
            _mon = None

            def _split_points(self, pt_idx, axis):
                res = KDTree._split_points(self, pt_idx, axis)
                if Watched._mon is not None:
                    Watched._mon.observe(np.asarray(pt_idx), axis, res)
                return res
        W = _WATCHED[KDTree] = Watched
    return W


# ------------------------------------------------------------------------------------------ brute force
def is_dyadic4(x):
    x = float(x)
    return abs(x) <= 1e6 and x * 4 == int(x * 4)


def exact_d2(pts, q):
    """16 * squared distance, as Python ints (inputs are multiples of 1/4)"""
    q4 = [int(4 * float(x)) for x in q]
    return [sum((q4[a] - int(4 * float(p[a]))) ** 2 for a in range(len(q))) for p in pts]


def float_dist(pts, q):
    return [math.sqrt(math.fsum((float(p[a]) - q[a]) ** 2 for a in range(len(q)))) for p in pts]


def as_index_list(res, N):
    """validate that a query result is a flat sequence of integer indices in range; returns (list, error)"""
    if isinstance(res, np.ndarray):
        if res.ndim != 1:
            return None, f"result has shape {res.shape}"
        res = list(res)
    if not isinstance(res, (list, tuple)):
        return None, f"result is a {type(res).__name__}, not a list"
    out = []
    for x in res:
        if isinstance(x, (bool, np.bool_)) or not isinstance(x, (numbers.Integral, np.integer)):
            return None, f"entry {x!r} is not an integer index"
        if not (0 <= int(x) < N):
            return None, f"index {int(x)} out of range [0,{N})"
        out.append(int(x))
    return out, None


def self_test():
    assert exact_d2([[3, 4], [0.5, 0]], [0, 0]) == [16 * 25, 4]
    assert abs(float_dist([[3, 4]], [0.0, 0.0])[0] - 5.0) < 1e-15
    P = np.zeros((3, 2))
    m = SplitMonitor(P, "random", 100)
    idx = np.arange(3)
    m.observe(idx, 0, (0.0, idx, idx[:0]))
    m.observe(idx, 1, (0.0, idx, idx[:0]))
    try:
        m.observe(idx, 0, (0.0, idx, idx[:0]))
        raise AssertionError("no certificate on a repeated identical-point split")
    except Divergence:
        pass
    P2 = np.array([[0.0, 0], [1, 1], [1, 1]])
    m = SplitMonitor(P2, "random", 100)
    for _ in range(5):
        m.observe(idx, 0, (1.0, idx, idx[:0]))      # random rule, points differ: never a certificate
    assert as_index_list([np.int64(1), 2], 3)[0] == [1, 2] and as_index_list([3], 3)[0] is None


# ------------------------------------------------------------------------------------------ the check
def fn_build(case, ctx):
    run_case(case, ctx, "build")


def fn_queries(case, ctx):
    run_case(case, ctx, "queries")


def run_case(case, ctx, mode):
    import mouette as M
    from mouette.spatial import KDTree
    d, pts, leaf, strategy = case["d"], case["points"], case["leaf"], case["strategy"]
    N = len(pts)
    P = np.array(pts, dtype=(np.int64 if case.get("int_dtype") else np.float64)).reshape((N, d))
    P0 = P.copy()
    pts_dyadic = all(is_dyadic4(x) for p in pts for x in p)
    distinct_pts = len({tuple(float(x) for x in p) for p in pts})
    ctx.label("kind=" + case["kind"], f"d={d}", "strategy=" + strategy, "leaf<=2" if leaf <= 2 else "leaf>2")
    ctx.label("N=0" if N == 0 else ("N<=leaf" if N <= leaf else "inner-node"))
    if distinct_pts < N:
        ctx.label("duplicate-points")
    if N > leaf and distinct_pts == 1:
        ctx.label("identical>leaf")
    if case.get("int_dtype"):
        ctx.label("int-dtype")
    ctx.label("dyadic-points" if pts_dyadic else "float-points")

    # ---- build under the termination monitor
    W = watched_class(KDTree)
    mon = SplitMonitor(P0, strategy, 200 * (N + 10))
    W._mon = mon
    try:
        ok, tree = ctx.call("build", W, P, leaf, strategy)
    except Divergence as e:
        if mode == "queries":
            # reported by sub-check 'build'; without a tree there is nothing to query
            ctx.discard("queries: build diverges (see sub-check build)")
            return
        ctx.fail("build:diverges", f"KDTree(N={N}, d={d}, max_leaf_size={leaf}, strategy={strategy!r}, kind={case['kind']}) "
                                   f"never terminates: {e}")
        return
    except BudgetExhausted:
        ctx.label("budget-exhausted")
        ctx.discard("inconclusive-budget")
        return
    finally:
        W._mon = None
    if not ok:
        return
    if mode == "build":
        ctx.nontrivial(N > leaf)
    if mon.noprogress:
        ctx.label("noprogress-split-but-terminates")
    if N > leaf and mon.steps == 0:
        ctx.label("split-hook-not-called")      # termination then rests on the runner's watchdog only

    # ---- every index in exactly one leaf
    nodes = getattr(tree, "nodes", None)
    if not ctx.check(isinstance(nodes, list) and len(nodes) >= 1, "build:nodes", f"tree.nodes is {type(nodes).__name__} of length "
                     f"{len(nodes) if hasattr(nodes, '__len__') else '?'}"):
        return
    count = [0] * N
    n_leaves = 0
    for nd in nodes:
        if isinstance(nd, KDTree.Leaf):
            n_leaves += 1
            lst, err = as_index_list(np.asarray(nd.points).ravel(), N)
            if not ctx.check(err is None, "build:leaf-content", f"leaf {nd.id}: {err}"):
                return
            for i in lst:
                count[i] += 1
    bad = [i for i in range(N) if count[i] != 1]
    if not ctx.check(not bad, "build:partition", f"N={N} leaf={leaf} strategy={strategy}: indices not in exactly one leaf "
                     f"(index: multiplicity) {[(i, count[i]) for i in bad[:10]]}"):
        return
    ctx.check(n_leaves >= 1, "build:partition", "tree has no leaf")
    inner = N > leaf

    # ---- queries
    for qi, Q in enumerate(case["queries"] if mode == "queries" else []):
        q, k, r = [float(x) for x in Q["q"]], int(Q["k"]), float(Q["r"])
        where = f"N={N} d={d} leaf={leaf} strategy={strategy} query#{qi} q={q}"
        q_exact = pts_dyadic and all(is_dyadic4(x) for x in q)
        r_exact = q_exact and is_dyadic4(r)
        scale = max([1.0] + [abs(x) for x in q] + ([float(np.max(np.abs(P0)))] if N else []))
        tol = REL_TOL * scale
        ctx.label("q-" + str(Q.get("qkind")), "r-" + str(Q.get("rkind")))
        ctx.label("knn-exact" if q_exact else "knn-tol", "radius-exact" if r_exact else "radius-tol")
        if k > N: ctx.label("k>N")
        elif k == N: ctx.label("k==N")
        if k > leaf: ctx.label("k>leaf")
        if inner and (k > 1 or r > 0):
            ctx.nontrivial()
        qv = M.Vec(q)

        # kNN
        ok, res = ctx.call("knn", tree.query, qv, k)
        if ok:
            idx, err = as_index_list(res, N)
            if ctx.check(err is None, "knn:type", f"{where} k={k}: {err}; result {res!r}"):
                want = min(k, N)
                good = ctx.check(len(idx) == want, "knn:count", f"{where} k={k}: {len(idx)} indices returned, expected min(k,N)={want}; "
                                 f"result {idx}")
                good = ctx.check(len(set(idx)) == len(idx), "knn:distinct", f"{where} k={k}: repeated index in {idx}") and good
                if q_exact:
                    D = exact_d2(pts, q)
                    got = [D[i] for i in idx]
                    ctx.check(all(got[j] <= got[j + 1] for j in range(len(got) - 1)), "knn:order",
                              f"{where} k={k}: distances not non-decreasing: 16*d^2 = {got}")
                    best = sorted(D)[:len(idx)] if good else sorted(D)[:want]
                    ctx.check(sorted(got) == best, "knn:nearest", f"{where} k={k}: returned {idx} with 16*d^2 = {sorted(got)}, the "
                              f"{len(best)} smallest are {best}")
                else:
                    D = float_dist(pts, q)
                    got = [D[i] for i in idx]
                    ctx.check(all(got[j] <= got[j + 1] + tol for j in range(len(got) - 1)), "knn:order",
                              f"{where} k={k}: distances not non-decreasing: {got}")
                    best = sorted(D)[:len(idx)] if good else sorted(D)[:want]
                    sg = sorted(got)
                    ctx.check(len(sg) == len(best) and all(abs(a - b) <= tol for a, b in zip(sg, best)), "knn:nearest",
                              f"{where} k={k}: returned {idx} with distances {sg}, the {len(best)} smallest are {best}")

        # radius
        ok, res = ctx.call("radius", tree.query_radius, qv, r)
        if ok:
            idx, err = as_index_list(res, N)
            if ctx.check(err is None, "radius:type", f"{where} r={r}: {err}; result {res!r}"):
                ctx.check(len(set(idx)) == len(idx), "radius:distinct", f"{where} r={r}: repeated index in {sorted(idx)}")
                got = set(idx)
                if r_exact:
                    D = exact_d2(pts, q)
                    r2 = int(4 * r) ** 2
                    exp = {i for i in range(N) if D[i] <= r2}
                    if any(D[i] == r2 for i in range(N)):
                        ctx.label("point-exactly-on-sphere")
                    ctx.check(got == exp, "radius:set", f"{where} r={r}: missing {sorted(exp - got)[:10]} extra {sorted(got - exp)[:10]} "
                              f"(16*d^2 of those: {[D[i] for i in sorted(exp ^ got)[:10]]}, 16*r^2={r2})")
                else:
                    D = float_dist(pts, q)
                    must = {i for i in range(N) if D[i] <= r - tol}
                    may = {i for i in range(N) if r - tol < D[i] <= r + tol}       # exempt: within tol of the sphere
                    ctx.check(must <= got and got <= (must | may), "radius:set",
                              f"{where} r={r!r}: missing {sorted(must - got)[:10]} extra {sorted(got - must - may)[:10]} "
                              f"(distances {[D[i] for i in sorted((must - got) | (got - must - may))[:10]]})")
                if len(got) not in (0, N):
                    ctx.label("radius-proper-subset")

    # queries and construction leave the data alone
    ctx.check(np.array_equal(P, P0), "side-effect:input", "the caller's point array was modified")
    tp = getattr(tree, "points", None)
    ctx.check(isinstance(tp, np.ndarray) and tp.shape == P0.shape and np.array_equal(tp, P0), "side-effect:tree-points",
              "tree.points differs from the input after the queries")


SUBCHECKS = [
    SubCheck("queries", kd_case(True), fn_queries, quick=8000, thorough=24000),
    SubCheck("build", kd_case(False), fn_build, quick=3000, thorough=10000),
]

MATCHERS = {}
